#!/bin/bash
# usage: tools/mut.sh <patchfile> <ID> [tier]   -- apply patch to /repo, run check, revert
set -u
P="$1"; ID="$2"; TIER="${3:-quick}"
cd /repo || exit 2
if ! git diff --quiet; then echo "repo dirty"; exit 2; fi
git apply "$P" || { echo "patch does not apply"; exit 2; }
cd /verif; ./check "$ID" "$TIER" | grep -E "^\[|VIOLATION|KNOWN|HARNESS|signature" | head -${MUT_LINES:-8}
rc=${PIPESTATUS[0]}
cd /repo; git checkout -q -- . ; git status --short | head -3
echo "exit=$rc"
