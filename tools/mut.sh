#!/bin/bash
# usage: tools/mut.sh <patchfile> <ID> [tier]
# Applies the patch in a scratch worktree of /repo HEAD (never /repo itself), runs the check
# against it via LIQUID_REPO, removes the worktree.
set -u
P="$(readlink -f "$1")"; ID="$2"; TIER="${3:-quick}"
WT="/tmp/wt_mut_$$"
git -C /repo worktree add -q --detach "$WT" HEAD || exit 2
trap 'git -C /repo worktree remove --force "$WT" >/dev/null 2>&1' EXIT
( cd "$WT" && git apply "$P" ) || { echo "patch does not apply"; exit 2; }
if [ "${MUT_TESTS:-0}" = "1" ]; then
  ( cd "$WT" && PYTHONPATH="$WT" /venv/bin/python -m pytest -q -p no:cacheprovider --timeout=900 --continue-on-collection-errors 2>&1 | tail -1 )
fi
cd /verif
LIQUID_REPO="$WT" ./check "$ID" "$TIER" | grep -E "^\[|VIOLATION|KNOWN|HARNESS|signature" | head -${MUT_LINES:-8}
echo "exit=${PIPESTATUS[0]}"
