"""Blind-spot finder for C01 (not a check): runs every shard of a driver's quick tier in this process with
sys.monitoring LINE events and lists the executable lines inside `async def` bodies (and, with --sync, their sync
twins) of /repo/liquid that no case executed.  usage: async_cov.py C01 [--all-functions]"""
import importlib, os, sys, types

REPO = os.environ.get("LIQUID_REPO", "/repo")
hit: set[tuple[str, int]] = set()
mon = sys.monitoring
TOOL = mon.COVERAGE_ID
mon.use_tool_id(TOOL, "async_cov")


def on_line(code: types.CodeType, line: int):
    if code.co_filename.startswith(REPO + "/liquid"):
        hit.add((code.co_filename, line))
    return mon.DISABLE


mon.register_callback(TOOL, mon.events.LINE, on_line)
mon.set_events(TOOL, mon.events.LINE)

pid = sys.argv[1]
drv = importlib.import_module(f"mc.props.{pid.lower()}")
chk = drv.CHECK
shards = chk.shards("quick")
only = [a for a in sys.argv[2:] if not a.startswith("--")]
for i, sh in enumerate(shards):
    if only and str(sh[0]) not in only:
        continue
    try:
        chk.run_shard(sh, "quick")
    except Exception as e:  # noqa: BLE001
        print("shard failed", str(sh)[:80], repr(e)[:200])
    print(f"shard {i + 1}/{len(shards)} lines={len(hit)}", file=sys.stderr, flush=True)
mon.set_events(TOOL, 0)


def code_objects(co: types.CodeType):
    yield co
    for c in co.co_consts:
        if isinstance(c, types.CodeType):
            yield from code_objects(c)


CO_COROUTINE, CO_ASYNC_GEN = 0x80, 0x200
allf = "--all-functions" in sys.argv
for root, _, files in os.walk(REPO + "/liquid"):
    for f in sorted(files):
        if not f.endswith(".py"):
            continue
        path = os.path.join(root, f)
        src = open(path).read()
        top = compile(src, path, "exec")
        lines = src.split("\n")
        for co in code_objects(top):
            if co is top:
                continue
            if not allf and not (co.co_flags & (CO_COROUTINE | CO_ASYNC_GEN)):
                continue
            exe = sorted({l for _, _, l in co.co_lines() if l is not None and l != co.co_firstlineno})
            miss = [l for l in exe if (path, l) not in hit]
            if miss and len(miss) < len(exe):
                print(f"{path[len(REPO) + 1:]}:{co.co_qualname} partially uncovered:")
                for l in miss:
                    print(f"    {l}: {lines[l - 1].strip()[:110]}")
            elif miss:
                print(f"{path[len(REPO) + 1:]}:{co.co_qualname} NEVER EXECUTED ({len(exe)} lines)")
