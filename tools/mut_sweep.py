"""usage: mut_sweep.py [--jobs N] [--only CNN,...]  -> mutations/RESULTS.json
For every mutations/CNN-*.diff: scratch worktree of /repo HEAD, apply, run the repository's tests, run
./check CNN quick against the changed tree (LIQUID_REPO), record whether the check exits 1.
Runs from whatever copy of /verif this file lives in (so it can run under `vp run` without touching
/verif/evidence)."""
import json, os, subprocess, sys, time
from concurrent.futures import ThreadPoolExecutor

HERE = os.path.dirname(os.path.dirname(os.path.abspath(__file__)))
args = sys.argv[1:]
jobs = int(args[args.index("--jobs") + 1]) if "--jobs" in args else 3
only = set(args[args.index("--only") + 1].split(",")) if "--only" in args else None


def sh(cmd, **kw):
    return subprocess.run(cmd, shell=True, capture_output=True, text=True, **kw)


def one(fn):
    pid = fn.split("-")[0]
    wt = f"/tmp/wt_sweep_{os.getpid()}_{abs(hash(fn)) % 10**8}"
    rec = {"mutation": fn, "property": pid}
    sh(f"git -C /repo worktree add -q --detach {wt} HEAD")
    try:
        a = sh(f"git apply {HERE}/mutations/{fn}", cwd=wt)
        if a.returncode != 0:
            a = sh(f"git apply -3 {HERE}/mutations/{fn}", cwd=wt)
        rec["applies"] = a.returncode == 0
        if a.returncode != 0:
            rec["note"] = "does not apply to the current HEAD (written against an earlier tree or already fixed)"
            return rec
        t = sh(f"PYTHONPATH={wt} /venv/bin/python -m pytest -q -p no:cacheprovider --timeout=900 --continue-on-collection-errors 2>&1 | tail -1", cwd=wt)
        rec["tests"] = t.stdout.strip()
        rec["tests_pass"] = "1385 passed, 1 error" in t.stdout
        t0 = time.time()
        c = sh(f"LIQUID_REPO={wt} VERIF_JOBS=6 ./check {pid} quick", cwd=HERE)
        rec["check_exit"] = c.returncode
        rec["caught"] = c.returncode == 1
        rec["wall_s"] = round(time.time() - t0, 1)
        rec["first_signature"] = next((l.strip()[:300] for l in c.stdout.splitlines() if l.startswith("  signature=")), None)
        return rec
    finally:
        sh(f"git -C /repo worktree remove --force {wt}")


files = sorted(f for f in os.listdir(f"{HERE}/mutations") if f.endswith(".diff") and (only is None or f.split("-")[0] in only))
if "--order" in args:  # properties to do first, in this order
    prio = args[args.index("--order") + 1].split(",")
    files.sort(key=lambda f: (prio.index(f.split("-")[0]) if f.split("-")[0] in prio else len(prio), f))
# results of earlier sweeps are kept for the mutations this run does not reach
try:
    prev = {r["mutation"]: r for r in json.load(open(f"{HERE}/mutations/RESULTS.json"))}
except Exception:  # noqa: BLE001
    prev = {}
out = []
with ThreadPoolExecutor(jobs) as ex:
    for rec in ex.map(one, files):
        out.append(rec)
        print(json.dumps(rec)[:400], flush=True)
        prev[rec["mutation"]] = dict(rec, sweep=time.strftime("%Y-%m-%dT%H:%MZ", time.gmtime()))
        json.dump(sorted(prev.values(), key=lambda r: r["mutation"]), open(f"{HERE}/mutations/RESULTS.json", "w"), indent=1)
print("caught", sum(1 for r in out if r.get("caught")), "of", sum(1 for r in out if r.get("applies")), "applicable")
