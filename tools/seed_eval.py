"""usage: seed_eval.py <PROPERTY> <k> [extra check ids...]
Confirms an independently written property-breaking change (from /tmp/seed_out/<P>/<k>/) in a scratch
worktree: patch applies, the repository's tests still pass, the demonstration fails with the change and
passes without it; then runs ./check <P> quick (and any extra checks) against the changed tree and stores
everything under /verif/seeded/<P>-<k>/ (patch.diff, demo.py, notes.md, meta.json)."""
import json, os, shutil, subprocess, sys, time

HERE = os.path.dirname(os.path.dirname(os.path.abspath(__file__)))  # the copy of /verif this tool runs from
P, k = sys.argv[1], sys.argv[2]
extra = sys.argv[3:]
src = f"/tmp/seed_out/{P}/{k}"
dst = f"/verif/seeded/{P}-{k}"
wt = f"/tmp/wt_seed_{P}_{k}_{os.getpid()}"


def sh(cmd, **kw):
    return subprocess.run(cmd, shell=True, capture_output=True, text=True, **kw)


def section(text, *keys):
    import re
    for m in re.finditer(r"^#+\s*(.+?)\s*$\n(.*?)(?=^#+\s|\Z)", text, re.S | re.M):
        if any(kk in m.group(1).lower() for kk in keys):
            return " ".join(m.group(2).split())[:600]
    return ""


_notes = open(f"{src}/notes.md").read() if os.path.exists(f"{src}/notes.md") else ""
meta = {"property": P, "k": int(k), "breaks_property": P,
        "title": (_notes.splitlines() or [""])[0].lstrip("# ").strip(),
        "change": section(_notes, "change", "what the change"),
        "needs": section(_notes, "manifest", "needs"),
        "what_was_run": "scratch worktree of /repo HEAD; git apply patch.diff; repository test suite; demo.py with and without the change (LIQUID_REPO); ./check <id> quick with LIQUID_REPO pointing at the changed tree", "evaluated_at_repo_head": sh("git -C /repo rev-parse --short HEAD").stdout.strip()}
os.makedirs(dst, exist_ok=True)
for f in ("patch.diff", "demo.py", "notes.md"):
    if os.path.exists(f"{src}/{f}"):
        shutil.copy(f"{src}/{f}", f"{dst}/{f}")
r = sh(f"git -C /repo worktree add -q --detach {wt} HEAD")
try:
    r = sh(f"git apply {dst}/patch.diff", cwd=wt)
    meta["patch_applies"] = r.returncode == 0
    if r.returncode != 0:
        r3 = sh(f"git apply -3 {dst}/patch.diff", cwd=wt)
        meta["patch_applies_3way"] = r3.returncode == 0
        if r3.returncode != 0:
            meta["error"] = r.stderr[-400:]
            raise SystemExit
    t = sh(f"PYTHONPATH={wt} /venv/bin/python -m pytest -q -p no:cacheprovider --timeout=900 --continue-on-collection-errors 2>&1 | tail -1", cwd=wt)
    meta["tests_with_change"] = t.stdout.strip()
    meta["tests_pass"] = "1385 passed, 1 error" in t.stdout
    d1 = sh(f"LIQUID_REPO={wt} timeout 300 /venv/bin/python {dst}/demo.py", cwd="/tmp")
    d0 = sh(f"LIQUID_REPO=/repo timeout 300 /venv/bin/python {dst}/demo.py", cwd="/tmp")
    meta["demo_exit_with_change"] = d1.returncode
    meta["demo_exit_without_change"] = d0.returncode
    meta["demo_output_with_change"] = (d1.stdout + d1.stderr)[-600:]
    meta["confirmed"] = bool(meta["tests_pass"] and d1.returncode != 0 and d0.returncode == 0)
    meta["checks"] = {}
    for cid in [P] + extra:
        t0 = time.time()
        c = sh(f"LIQUID_REPO={wt} ./check {cid} quick", cwd=HERE)  # evidence of these runs lands in HERE, not /verif
        lines = [l for l in c.stdout.splitlines() if l.startswith("VIOLATION") or l.startswith("  signature=") or l.startswith("[") or l.startswith("HARNESS")]
        meta["checks"][cid] = {"exit": c.returncode, "caught": c.returncode == 1, "wall_s": round(time.time() - t0, 1),
                               "lines": lines[:7]}
finally:
    sh(f"git -C /repo worktree remove --force {wt}")
    json.dump(meta, open(f"{dst}/meta.json", "w"), indent=1)
    print(json.dumps({k: v for k, v in meta.items() if k not in ("demo_output_with_change",)}, indent=1)[:1500])
