"""usage: merge_findings.py CNN [substring=commit ...] [--default commit]
Runs ./check CNN quick, and moves known_findings.d/CNN.json into known_findings.json:
entries still reproduced stay open; entries not reached become 'fixed' with the commit
chosen by the first matching substring of the finding's 'what' (or --default)."""
import json, os, re, subprocess, sys
p = sys.argv[1]
maps, default = [], None
args = sys.argv[2:]
while args:
    a = args.pop(0)
    if a == "--default":
        default = args.pop(0)
    else:
        k, c = a.rsplit("=", 1)
        maps.append((k, c))
out = subprocess.run(["./check", p, "quick"], capture_output=True, text=True,
                     env=dict(os.environ, VERIF_JOBS=os.environ.get("VERIF_JOBS", "10"))).stdout
print([l for l in out.splitlines() if l.startswith("[")])
reached = {}
for ln in out.splitlines():
    m = re.match(r"KNOWN-FINDING: property=\w+ (.*) \[(reproduced|not reached in this tier)\]$", ln)
    if m:
        reached[m.group(1)] = m.group(2) == "reproduced"
kf = json.load(open("known_findings.json"))
d = json.load(open(f"known_findings.d/{p}.json"))
for f in d["findings"]:
    if reached.get(f["what"], True):
        kf["findings"].append(f); print("OPEN ", f["what"][:110])
    else:
        c = next((c for k, c in maps if k in f["what"]), default)
        if c is None or c == "KEEP":
            kf["findings"].append(f); print("OPEN (not reached, kept)", f["what"][:90]); continue
        kf["findings"].append({"property": p, "status": "fixed", "commit": c, "signature_when_open": f["signature"],
                               "what": f"fixed: property={p} {c} {f['what']}"})
        print("FIXED", c, f["what"][:100])
os.remove(f"known_findings.d/{p}.json")
json.dump(kf, open("known_findings.json", "w"), indent=1)
