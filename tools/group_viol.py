import re,json,collections,sys
sites=collections.defaultdict(lambda: collections.defaultdict(set))
ex={}
cur=None
for ln in open(sys.argv[1]):
    ln=ln.rstrip('\n')
    if ln.startswith('  signature='):
        cur=json.loads(ln[len('  signature='):])
        key=tuple(sorted((k,str(v)) for k,v in cur.items() if k not in ('construct',)))
        sites[key]['c'].add(str(cur.get('construct')))
    elif ln.startswith('  what=') and cur:
        ex.setdefault(key, ln[7:260])
    elif ln.startswith('['): print(ln)
for s,d in sorted(sites.items()):
    print(dict(s), len(d['c']), sorted(d['c'])[:4]); print('     ',ex.get(s))
