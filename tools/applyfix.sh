#!/bin/bash
# usage: tools/applyfix.sh <diff> <message-file>
set -u
D="$(readlink -f "$1")"; M="$(readlink -f "$2")"
cd /repo || exit 2
git diff --quiet || { echo "repo dirty"; exit 2; }
git apply "$D" || { echo "does not apply"; exit 2; }
out=$(/venv/bin/python -m pytest -q -p no:cacheprovider --timeout=900 --continue-on-collection-errors 2>&1 | tail -1)
echo "$out"
case "$out" in
  *"1385 passed, 1 error"*) git commit -qaF "$M"; git log --oneline | head -1;;
  *) echo "TESTS CHANGED - reverting"; git checkout -q -- .;;
esac
