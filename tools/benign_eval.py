"""usage: benign_eval.py [--jobs N]
For every behaviour-preserving refactor under /tmp/benign_out/<P>/<k>/ (patch.diff, sanity.py, notes.md): scratch
worktree, apply, run the repository's tests and the sanity program (on HEAD and on the changed tree), then run
./check <P> quick against the changed tree -- it MUST exit 0 (an exit of 1 or 2 is a false alarm / lost harness
binding of the check). Results go to /verif/benign/<P>-<k>/ (patch.diff, sanity.py, notes.md, meta.json)."""
import glob, json, os, shutil, subprocess, sys, time
from concurrent.futures import ThreadPoolExecutor
HERE = os.path.dirname(os.path.dirname(os.path.abspath(__file__)))
jobs = int(sys.argv[sys.argv.index("--jobs") + 1]) if "--jobs" in sys.argv else 2


def sh(cmd, **kw):
    return subprocess.run(cmd, shell=True, capture_output=True, text=True, **kw)


def one(src):
    P, k = src.split("/")[-2:]
    dst = f"/verif/benign/{P}-{k}"
    os.makedirs(dst, exist_ok=True)
    for f in ("patch.diff", "sanity.py", "notes.md"):
        if os.path.exists(f"{src}/{f}"):
            shutil.copy(f"{src}/{f}", f"{dst}/{f}")
    wt = f"/tmp/wt_benign_{P}_{k}_{os.getpid()}"
    meta = {"property": P, "k": int(k), "repo_head": sh("git -C /repo rev-parse --short HEAD").stdout.strip()}
    sh(f"git -C /repo worktree add -q --detach {wt} HEAD")
    try:
        a = sh(f"git apply {dst}/patch.diff", cwd=wt)
        meta["applies"] = a.returncode == 0
        if a.returncode != 0:
            meta["error"] = a.stderr[-300:]
            return meta
        t = sh(f"PYTHONPATH={wt} /venv/bin/python -m pytest -q -p no:cacheprovider --timeout=900 --continue-on-collection-errors 2>&1 | tail -1", cwd=wt)
        meta["tests"] = t.stdout.strip()
        meta["tests_pass"] = "1385 passed, 1 error" in t.stdout
        if os.path.exists(f"{dst}/sanity.py"):
            meta["sanity_head"] = sh(f"LIQUID_REPO=/repo timeout 300 /venv/bin/python {dst}/sanity.py", cwd="/tmp").returncode
            meta["sanity_changed"] = sh(f"LIQUID_REPO={wt} timeout 300 /venv/bin/python {dst}/sanity.py", cwd="/tmp").returncode
        t0 = time.time()
        c = sh(f"LIQUID_REPO={wt} VERIF_JOBS=8 ./check {P} quick", cwd=HERE)
        meta["check_exit"] = c.returncode
        meta["silent"] = c.returncode == 0
        meta["wall_s"] = round(time.time() - t0, 1)
        meta["lines"] = [l[:300] for l in c.stdout.splitlines() if l.startswith(("VIOLATION", "  signature=", "[", "HARNESS"))][:6]
        return meta
    finally:
        sh(f"git -C /repo worktree remove --force {wt}")
        json.dump(meta, open(f"{dst}/meta.json", "w"), indent=1)


srcs = sorted(d for d in glob.glob("/tmp/benign_out/C*/[1-9]") if os.path.exists(d + "/patch.diff") and os.path.exists(d + "/notes.md"))
with ThreadPoolExecutor(jobs) as ex:
    for m in ex.map(one, srcs):
        print(f"{m['property']}-{m['k']} applies={m.get('applies')} tests={m.get('tests_pass')} sanity={m.get('sanity_head')}/{m.get('sanity_changed')} check_exit={m.get('check_exit')} {'OK' if m.get('silent') else 'ALARM'}", flush=True)
