"""Blind-spot finder (not a check).  Line coverage of /repo/liquid under the quick tier of a driver, measured with
sys.monitoring in ONE process (shards run sequentially).

  line_cov.py run CNN [shard-kind ...]  -> /tmp/cov/CNN.json   (set of executed (file, line))
  line_cov.py report [--async-only] [CNN ...]   union of the named (default: all) dumps; lists executable lines of
                                                 every function that no case executed
"""
import glob, importlib, json, os, sys, types

REPO = os.environ.get("LIQUID_REPO", "/repo")
OUT = "/tmp/cov"


def run(pid: str, only: list[str]) -> None:
    hit: set[tuple[str, int]] = set()
    mon = sys.monitoring
    tool = mon.COVERAGE_ID
    mon.use_tool_id(tool, "line_cov")

    def on_line(code: types.CodeType, line: int):
        if code.co_filename.startswith(REPO + "/liquid"):
            hit.add((code.co_filename[len(REPO) + 1:], line))
        return mon.DISABLE

    mon.register_callback(tool, mon.events.LINE, on_line)
    mon.set_events(tool, mon.events.LINE)
    chk = importlib.import_module(f"mc.props.{pid.lower()}").CHECK
    shards = chk.shards("quick")
    for i, sh in enumerate(shards):
        if only and str(sh[0]) not in only:
            continue
        try:
            chk.run_shard(sh, "quick")
        except BaseException as e:  # noqa: BLE001
            print("shard failed", str(sh)[:80], repr(e)[:200], file=sys.stderr)
        if i % 10 == 0:
            print(f"{pid} shard {i + 1}/{len(shards)} lines={len(hit)}", file=sys.stderr, flush=True)
    mon.set_events(tool, 0)
    os.makedirs(OUT, exist_ok=True)
    json.dump(sorted(hit), open(f"{OUT}/{pid}.json", "w"))


def code_objects(co: types.CodeType):
    yield co
    for c in co.co_consts:
        if isinstance(c, types.CodeType):
            yield from code_objects(c)


def report(ids: list[str], async_only: bool) -> None:
    hit: set[tuple[str, int]] = set()
    files = [f"{OUT}/{i}.json" for i in ids] if ids else sorted(glob.glob(f"{OUT}/C*.json"))
    for f in files:
        hit |= {tuple(x) for x in json.load(open(f))}
    print("# union of", [os.path.basename(f)[:-5] for f in files], "lines hit:", len(hit))
    tot = miss_tot = 0
    for root, _, fs in os.walk(REPO + "/liquid"):
        for f in sorted(fs):
            if not f.endswith(".py"):
                continue
            path = os.path.join(root, f)
            rel = path[len(REPO) + 1:]
            src = open(path).read()
            top = compile(src, path, "exec")
            lines = src.split("\n")
            for co in code_objects(top):
                if co is top:
                    continue
                if async_only and not (co.co_flags & (0x80 | 0x200)):
                    continue
                exe = sorted({l for _, _, l in co.co_lines() if l is not None and l != co.co_firstlineno})
                miss = [l for l in exe if (rel, l) not in hit]
                tot += len(exe)
                miss_tot += len(miss)
                if miss and len(miss) < len(exe):
                    print(f"{rel}:{co.co_qualname} partially uncovered:")
                    for l in miss:
                        print(f"    {l}: {lines[l - 1].strip()[:110]}")
                elif miss:
                    print(f"{rel}:{co.co_qualname} NEVER EXECUTED ({len(exe)} lines)")
    print(f"# executable lines in functions: {tot}, never executed: {miss_tot}")


if sys.argv[1] == "run":
    run(sys.argv[2], sys.argv[3:])
else:
    args = [a for a in sys.argv[2:] if not a.startswith("--")]
    report(args, "--async-only" in sys.argv)
