"""usage: seed_all.py [--jobs N]   Re-evaluates every seeded change under /tmp/seed_out (or, if absent, /verif/seeded)
with tools/seed_eval.py, N at a time. Checks run from the copy of /verif this file lives in; results are written to
/verif/seeded/<P>-<k>/meta.json."""
import glob, os, subprocess, sys
from concurrent.futures import ThreadPoolExecutor
HERE = os.path.dirname(os.path.dirname(os.path.abspath(__file__)))
jobs = int(sys.argv[sys.argv.index("--jobs") + 1]) if "--jobs" in sys.argv else 3
# make sure /tmp/seed_out has the sources (restore from /verif/seeded after a fresh restore)
for d in sorted(glob.glob("/verif/seeded/C*-*")):
    P, k = os.path.basename(d).split("-")
    src = f"/tmp/seed_out/{P}/{k}"
    if not os.path.exists(f"{src}/patch.diff"):
        os.makedirs(src, exist_ok=True)
        for f in ("patch.diff", "demo.py", "notes.md"):
            if os.path.exists(f"{d}/{f}"):
                subprocess.run(["cp", f"{d}/{f}", f"{src}/{f}"])
todo = sorted((os.path.basename(os.path.dirname(p)), os.path.basename(p)) for p in glob.glob("/tmp/seed_out/C*/[1-9]"))
if "--only-k" in sys.argv:
    ks = set(sys.argv[sys.argv.index("--only-k") + 1].split(","))
    todo = [t for t in todo if t[1] in ks]
extra = {"C05-4": ["C17"], "C16-1": ["C02"], "C01-4": ["C23"], "C12-4": []}


def one(pk):
    P, k = pk
    r = subprocess.run(["python3", f"{HERE}/tools/seed_eval.py", P, k] + extra.get(f"{P}-{k}", []),
                       capture_output=True, text=True, env=dict(os.environ, VERIF_JOBS="8"))
    import json
    try:
        m = json.load(open(f"/verif/seeded/{P}-{k}/meta.json"))
        return f"{P}-{k} confirmed={m.get('confirmed')} caught={ {c: v['caught'] for c, v in m.get('checks', {}).items()} }"
    except Exception as e:  # noqa: BLE001
        return f"{P}-{k} ERROR {e} {r.stderr[-200:]}"


with ThreadPoolExecutor(jobs) as ex:
    for line in ex.map(one, todo):
        print(line, flush=True)
