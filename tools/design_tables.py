"""Regenerates the generated blocks of DESIGN.md (between <!-- BEGIN:x --> / <!-- END:x --> markers)
from known_findings.json, evidence/*.json, mutations/RESULTS.json and seeded/*/meta.json."""
import glob, json, os, re, subprocess
HERE = os.path.dirname(os.path.dirname(os.path.abspath(__file__)))
os.chdir(HERE)


def block_fixes():
    log = subprocess.run("git -C /repo log --format='%h %s' 1d1f59c..HEAD", shell=True, capture_output=True, text=True).stdout.strip().splitlines()
    kf = json.load(open("known_findings.json"))["findings"]
    by_commit = {}
    for f in kf:
        if f["status"] == "fixed":
            for c in str(f.get("commit", "")).split("+"):
                by_commit.setdefault(c[:7], set()).add(f["property"])
    out = ["| commit | properties | repair |", "|---|---|---|"]
    for ln in reversed(log):
        h, msg = ln.split(" ", 1)
        out.append(f"| `{h}` | {', '.join(sorted(by_commit.get(h[:7], []))) or '-'} | {msg[5:] if msg.startswith('fix: ') else msg} |")
    return "\n".join(out)


def block_open():
    kf = json.load(open("known_findings.json"))["findings"]
    out = ["| property | signature (what is suppressed) | what fails |", "|---|---|---|"]
    for f in kf:
        if f["status"] == "open":
            sig = json.dumps(f["signature"], sort_keys=True).replace("|", "\\|")
            out.append(f"| {f['property']} | `{sig}` | {f['what'][:300].replace('|', chr(92)+'|')} |")
    return "\n".join(out)


def block_evidence():
    out = ["| check | level | tier | evaluations | distinct non-trivial | outcomes | states / transitions | known reproduced | wall s |", "|---|---|---|---|---|---|---|---|---|"]
    for fn in sorted(glob.glob("evidence/C*.json")):
        e = json.load(open(fn)); c = e["coverage"]
        st = f"{c.get('states','')} / {c.get('transitions','')}" if e["level"] == "model_checking" else ""
        out.append(f"| {e['property_id']} | {e['level']} | {e['tier']} | {c['evaluations']:,} | {c['distinct_nontrivial']:,} | {c.get('distinct_outcomes','')} | {st} | {len(c.get('known_findings_reproduced', []))} | {e['wall_s']} |")
    return "\n".join(out)


def block_mutations():
    p = "mutations/RESULTS.json"
    if not os.path.exists(p):
        return "(mutation sweep not run yet)"
    res = json.load(open(p))
    out = ["| mutation (mutations/*.diff) | repo tests still pass | check exits 1 | first signature |", "|---|---|---|---|"]
    for r in sorted(res, key=lambda r: r["mutation"]):
        if not r.get("applies"):
            out.append(f"| {r['mutation']} | - | n/a | does not apply to the current tree (superseded by a fix) |")
            continue
        sig = (r.get("first_signature") or "").replace("signature=", "")[:110].replace("|", "\\|")
        out.append(f"| {r['mutation']} | {'yes' if r.get('tests_pass') else 'NO'} | {'yes' if r.get('caught') else '**no**'} | `{sig}` |")
    ap = [r for r in res if r.get("applies")]
    out.append(f"\nCaught {sum(1 for r in ap if r.get('caught'))} of {len(ap)} applicable mutations "
               f"({sum(1 for r in ap if r.get('tests_pass'))} of them keep the repository's 1385 tests green).")
    return "\n".join(out)


def block_seeded():
    out = ["| seeded change | confirmed (tests pass, demo fails with / passes without) | caught by | what it needs |", "|---|---|---|---|"]
    for d in sorted(glob.glob("seeded/C*-*")):
        mp = f"{d}/meta.json"
        if not os.path.exists(mp):
            continue
        m = json.load(open(mp))
        caught = ", ".join(f"{c}: {'yes' if v.get('caught') else '**no**'}" for c, v in m.get("checks", {}).items())
        needs = m.get("needs", "")
        out.append(f"| {os.path.basename(d)} | {'yes' if m.get('confirmed') else 'NO'} | {caught} | {needs[:200]} |")
    return "\n".join(out)


def block_benign():
    out = ["| refactor | what was changed | tests pass | sanity (HEAD / changed) | check silent (exit 0) |", "|---|---|---|---|---|"]
    n = ok = 0
    for d in sorted(glob.glob("benign/C*-*")):
        if not os.path.exists(f"{d}/meta.json"):
            continue
        m = json.load(open(f"{d}/meta.json"))
        title = ""
        if os.path.exists(f"{d}/notes.md"):
            lines = [l.strip() for l in open(f"{d}/notes.md").read().splitlines() if l.strip()]
            title = (lines[0].lstrip("# ") if lines else "")[:160].replace("|", "/")
        n += 1
        ok += 1 if m.get("silent") else 0
        note = " (after the correction noted below)" if m.get("note") else ""
        if m.get("superseded"):
            note += f" (at /repo {m.get('repo_head')}; the patch no longer applies to the final tree, see below)"
        out.append(f"| {os.path.basename(d)} | {title} | {'yes' if m.get('tests_pass') else 'NO'} | {m.get('sanity_head')} / {m.get('sanity_changed')} | {'yes' if m.get('silent') else '**NO**'}{note} |")
    out.append(f"\n{ok} of {n} behaviour-preserving refactors leave their check silent.")
    return "\n".join(out)


def block_thorough():
    """thorough_results.txt: lines 'CNN rc=R Ts [CNN thorough] k=v ...' collected from tools/thorough_all.sh runs
    (later lines for the same check win); a trailing '@<commit>' names the /verif commit the run was made from."""
    rows = {}
    for line in open("thorough_results.txt"):
        m = re.match(r"(C\d\d) rc=(\d+) (\d+)s \[C\d\d thorough\] (.*)", line.strip())
        if not m:
            continue
        kv = dict(x.split("=", 1) for x in m.group(4).split() if "=" in x)
        rows[m.group(1)] = (m.group(2), m.group(3), kv)
    out = ["| check | exit | evaluations | distinct non-trivial | states / transitions | unlisted violations | known reproduced | wall s (machine shared with other runs) |", "|---|---|---|---|---|---|---|---|"]
    for k in sorted(rows):
        rc, t, kv = rows[k]
        st = f"{int(kv['states']):,} / {int(kv['transitions']):,}" if "states" in kv else ""
        out.append(f"| {k} | {rc} | {int(kv.get('evaluations', 0)):,} | {int(kv.get('distinct_nontrivial', 0)):,} | {st} | {kv.get('violations_unlisted')} | {kv.get('known_reproduced')} | {t} |")
    return "\n".join(out)


blocks = {"thorough": block_thorough, "benign": block_benign, "fixes": block_fixes, "open": block_open, "evidence": block_evidence, "mutations": block_mutations, "seeded": block_seeded}
s = open("DESIGN.md").read()
for name, fn in blocks.items():
    pat = re.compile(rf"(<!-- BEGIN:{name} -->\n).*?(<!-- END:{name} -->)", re.S)
    if pat.search(s):
        body = fn()
        s = pat.sub(lambda m: m.group(1) + body + "\n" + m.group(2), s)
open("DESIGN.md", "w").write(s)
print("DESIGN.md blocks regenerated")
