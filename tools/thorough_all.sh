#!/bin/bash
# Runs the thorough tier of every check once (from whatever copy of /verif this lives in) and appends a
# summary line per check to thorough_results.txt in that copy.
cd "$(dirname "$0")/.."
: > thorough_results.txt
for p in ${@:-C24 C25 C06 C08 C27 C18 C12 C13 C22 C10 C04 C21 C26 C07 C19 C20 C11 C17 C23 C15 C14 C16 C05 C09 C01 C02 C03}; do
  start=$(date +%s)
  out=$(./check $p thorough 2>&1)
  rc=$?
  echo "$out" | grep -E "^\[|VIOLATION|HARNESS" | head -5 | sed "s/^/$p rc=$rc $(( $(date +%s) - start ))s /" >> thorough_results.txt
done
