"""Core types shared by every property driver.

A driver (``mc/props/cNN.py``) defines ``CHECK = <subclass of Check>()``.

* ``shards(tier)`` returns a list of small picklable shard descriptors that together
  enumerate the *whole* bounded space of the tier (no sampling).
* ``run_shard(shard, tier)`` executes every case of that shard on the real
  implementation and returns a :class:`Result`.
* ``replay(case)`` re-executes exactly one recorded case (the ``case`` stored in a
  violation) without the explorer and returns the violations it produces.
"""

from __future__ import annotations

import hashlib
import json
from collections import Counter
from typing import Any
from typing import Iterable
from typing import Optional


def jdefault(o: Any) -> Any:
    """JSON fallback used for replay/evidence files (never for oracles)."""
    if isinstance(o, (set, frozenset)):
        return sorted(o, key=repr)
    if isinstance(o, tuple):
        return list(o)
    if isinstance(o, range):
        return {"__range__": [o.start, o.stop]}
    if isinstance(o, float):
        return repr(o)
    if isinstance(o, bytes):
        return o.decode("latin-1")
    return repr(o)


class _Enc(json.JSONEncoder):
    def default(self, o: Any) -> Any:
        return jdefault(o)


def jdumps(o: Any, **kw: Any) -> str:
    return json.dumps(o, default=jdefault, sort_keys=True, **kw)


def h64(o: Any) -> int:
    """Stable 64-bit hash of a JSON-able (or repr-able) object."""
    if not isinstance(o, (str, bytes)):
        o = jdumps(o)
    if isinstance(o, str):
        o = o.encode("utf-8", "surrogatepass")
    return int.from_bytes(hashlib.blake2b(o, digest_size=8).digest(), "big")


class Result:
    """What one shard covered."""

    MAX_SAMPLES = 3
    MAX_VIOL_PER_SIG = 2

    def __init__(self) -> None:
        self.evaluations = 0
        self.nontrivial: set[int] = set()
        self.outcomes: Counter[str] = Counter()
        self.violations: list[dict[str, Any]] = []
        self._sig_counts: Counter[str] = Counter()
        self.violation_count = 0
        self.samples: list[Any] = []
        self.counters: Counter[str] = Counter()
        # model-checking style numbers
        self.states = 0
        self.transitions = 0
        self.traces = 0
        self.fixpoint: Optional[bool] = None
        self.max_depth = 0
        self.notes: list[str] = []

    # -- recording helpers -------------------------------------------------
    def case(
        self,
        *,
        nontrivial: Any = None,
        outcome: Optional[str] = None,
        sample: Any = None,
        n: int = 1,
    ) -> None:
        """Record one executed case.

        ``nontrivial``: a hashable/JSON-able identity of the case if (and only if) the
        case is non-trivial by the driver's stated rule, else None.
        """
        self.evaluations += n
        if nontrivial is not None:
            self.nontrivial.add(h64(nontrivial))
        if outcome is not None:
            self.outcomes[outcome] += 1
        if sample is not None and len(self.samples) < self.MAX_SAMPLES:
            self.samples.append(sample)

    def violation(self, signature: dict[str, Any], what: str, case: Any) -> None:
        self.violation_count += 1
        key = jdumps(signature)
        self._sig_counts[key] += 1
        if self._sig_counts[key] <= self.MAX_VIOL_PER_SIG:
            self.violations.append({"signature": signature, "what": what, "case": case})

    def count(self, key: str, n: int = 1) -> None:
        self.counters[key] += n


class Check:
    id = "C00"
    level = "exploration"  # or "model_checking"
    title = ""
    rule = ""
    assumptions: list[str] = []
    exhaustive = True

    def shards(self, tier: str) -> list[Any]:
        raise NotImplementedError

    def run_shard(self, shard: Any, tier: str) -> Result:
        raise NotImplementedError

    def replay(self, case: Any) -> list[dict[str, Any]]:
        """Re-execute one recorded case; return violation dicts (signature, what, case)."""
        raise NotImplementedError

    def shard_timeout(self, tier: str) -> int:
        """Watchdog (seconds) for one shard; exceeding it is a harness error, not a verdict."""
        return 900 if tier == "quick" else 6 * 3600

    def bounds(self, tier: str) -> dict[str, Any]:
        """Human readable statement of the bound completed by this tier."""
        return {}


def chunked(seq: Iterable[Any], n: int) -> Iterable[list[Any]]:
    buf: list[Any] = []
    for x in seq:
        buf.append(x)
        if len(buf) >= n:
            yield buf
            buf = []
    if buf:
        yield buf
