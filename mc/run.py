"""Runner:  python -m mc.run <ID> quick|thorough   |   python -m mc.run <ID> --replay <file>

Exit status 0: the property held on everything explored (known findings are printed as
``KNOWN-FINDING:`` lines).  Exit status 1: a violation not listed in
``known_findings.json`` was found; a line ``VIOLATION property=<id> replay=<path>`` is
printed for each distinct signature (capped).  Exit status 2: harness error.
"""

from __future__ import annotations

import hashlib
import importlib
import json
import multiprocessing as mp
import os
import random
import signal
import sys
import time
import traceback
from collections import Counter
from typing import Any

from .core import Check
from .core import Result
from .core import jdumps

HOME = os.environ.get("VERIF_HOME", os.path.dirname(os.path.dirname(os.path.abspath(__file__))))
MAX_VIOLATION_LINES = int(os.environ.get("VERIF_MAX_VIOL_LINES", "12"))


def load_check(pid: str) -> Check:
    mod = importlib.import_module(f"mc.props.{pid.lower()}")
    chk = mod.CHECK
    assert chk.id == pid, (chk.id, pid)
    return chk


def load_findings(pid: str) -> list[dict[str, Any]]:
    out: list[dict[str, Any]] = []
    paths = [os.path.join(HOME, "known_findings.json")]
    ddir = os.path.join(HOME, "known_findings.d")  # staging area used while drivers are developed
    if os.path.isdir(ddir):
        paths += [os.path.join(ddir, fn) for fn in sorted(os.listdir(ddir)) if fn.endswith(".json")]
    for path in paths:
        if not os.path.exists(path):
            continue
        with open(path) as fd:
            data = json.load(fd)
        out += [f for f in data.get("findings", []) if f.get("property") == pid]
    return out


def sig_matches(finding_sig: dict[str, Any], sig: dict[str, Any]) -> bool:
    """A finding suppresses a violation iff every key of its signature is equal."""
    if not finding_sig:
        return False
    for k, v in finding_sig.items():
        if k not in sig:
            return False
        if json.loads(jdumps(sig[k])) != json.loads(jdumps(v)):
            return False
    return True


def classify(viol: dict[str, Any], findings: list[dict[str, Any]]) -> int | None:
    for i, f in enumerate(findings):
        if f.get("status") == "open" and sig_matches(f.get("signature", {}), viol["signature"]):
            return i
    return None


class ShardTimeout(BaseException):
    """The whole shard hung: a harness failure (per-case hangs are the drivers' business)."""


# ---------------------------------------------------------------------------
_CHECK: Check | None = None
_TIER = "quick"


def _init_worker(pid: str, tier: str) -> None:
    global _CHECK, _TIER
    _CHECK = load_check(pid)
    _TIER = tier


def _run_one(arg: tuple[int, Any]) -> tuple[int, Any]:
    idx, shard = arg
    assert _CHECK is not None
    limit = _CHECK.shard_timeout(_TIER)

    def _on_alarm(signum: int, frame: Any) -> None:
        raise ShardTimeout(f"shard exceeded its watchdog of {limit}s")

    old = signal.signal(signal.SIGALRM, _on_alarm)
    signal.alarm(limit)
    try:
        res = _CHECK.run_shard(shard, _TIER)
        # Make what travels back to the parent plain JSON data: library objects (e.g. str
        # subclasses) can pickle in the worker yet fail to unpickle in the parent, which
        # would hang the pool.
        res.violations = json.loads(jdumps(res.violations))
        res.samples = json.loads(jdumps(res.samples))
        return idx, res
    except BaseException:  # noqa: BLE001  harness failure must be loud
        return idx, ("HARNESS-ERROR", traceback.format_exc(), repr(shard)[:500])
    finally:
        signal.alarm(0)
        signal.signal(signal.SIGALRM, old)


def merge(results: list[Result]) -> Result:
    tot = Result()
    sig_seen: Counter[str] = Counter()
    for r in results:
        tot.evaluations += r.evaluations
        tot.nontrivial |= r.nontrivial
        tot.outcomes.update(r.outcomes)
        tot.counters.update(r.counters)
        tot.violation_count += r.violation_count
        for v in r.violations:
            k = jdumps(v["signature"])
            sig_seen[k] += 1
            if sig_seen[k] <= Result.MAX_VIOL_PER_SIG:
                tot.violations.append(v)
        tot.samples.extend(r.samples)
        tot.states += r.states
        tot.transitions += r.transitions
        tot.traces += r.traces
        tot.max_depth = max(tot.max_depth, r.max_depth)
        if r.fixpoint is not None:
            tot.fixpoint = r.fixpoint if tot.fixpoint is None else (tot.fixpoint and r.fixpoint)
        tot.notes.extend(r.notes)
    return tot


def write_evidence(chk: Check, tier: str, seed: int, tot: Result, wall: float, n_unlisted: int,
                   known_hit: list[str], nshards: int) -> str:
    rnd = random.Random(seed)
    samples = list(tot.samples)
    rnd.shuffle(samples)
    samples = samples[:8]
    cov: dict[str, Any] = {
        "evaluations": tot.evaluations,
        "distinct_nontrivial": len(tot.nontrivial),
        "rule": chk.rule,
        "samples": samples or ["<no samples recorded>"],
        "exhaustive": bool(chk.exhaustive),
        "bounds": chk.bounds(tier),
        "shards": nshards,
        "distinct_outcomes": len(tot.outcomes),
        "outcome_histogram_top": dict(tot.outcomes.most_common(25)),
        "counters": dict(tot.counters),
        "known_findings_reproduced": known_hit,
        "violations_total_including_known": tot.violation_count,
    }
    if chk.level == "model_checking":
        cov.update(
            {
                "states": tot.states,
                "transitions": tot.transitions,
                "traces_validated_against_impl": tot.traces,
                "fixpoint_reached": tot.fixpoint,
                "max_depth": tot.max_depth,
            }
        )
    if tot.notes:
        cov["notes"] = sorted(set(tot.notes))[:20]
    ev = {
        "property_id": chk.id,
        "tier": tier,
        "seed": seed,
        "level": chk.level,
        "coverage": cov,
        "assumptions": list(chk.assumptions),
        "wall_s": round(wall, 2),
        "violations": n_unlisted,
    }
    os.makedirs(os.path.join(HOME, "evidence"), exist_ok=True)
    path = os.path.join(HOME, "evidence", f"{chk.id}.json")
    tmp = path + ".tmp"
    with open(tmp, "w") as fd:
        fd.write(jdumps(ev, indent=1))
        fd.write("\n")
    os.replace(tmp, path)
    return path


def write_replay(pid: str, viol: dict[str, Any]) -> str:
    os.makedirs(os.path.join(HOME, "replays"), exist_ok=True)
    digest = hashlib.sha1(jdumps(viol["signature"]).encode()).hexdigest()[:12]
    path = os.path.join(HOME, "replays", f"{pid}-{digest}.json")
    with open(path, "w") as fd:
        fd.write(jdumps({"property": pid, **viol}, indent=1))
        fd.write("\n")
    return path


def do_replay(pid: str, path: str) -> int:
    chk = load_check(pid)
    with open(path) as fd:
        rec = json.load(fd)
    case = rec["case"]
    print(f"replaying {path}\nrecorded signature: {jdumps(rec.get('signature'))}\nrecorded: {rec.get('what')}")
    try:
        v1 = chk.replay(case)
        v2 = chk.replay(case)
    except Exception as e:  # noqa: BLE001
        print(f"REPLAY-NOT-APPLICABLE: the recorded case could not be re-executed on this tree: {e!r}")
        return 2
    if jdumps([v["signature"] for v in v1]) != jdumps([v["signature"] for v in v2]):
        print("HARNESS-ERROR: replay is not deterministic")
        return 2
    if not v1:
        print("replay: no violation reproduced")
        return 0
    for v in v1:
        print(f"REPRODUCED property={pid} signature={jdumps(v['signature'])}\n  {v['what']}")
    return 1


def selftest() -> int:
    """Setup command: nothing to build; confirm the working tree is what gets imported."""
    import liquid

    repo = os.environ.get("LIQUID_REPO", "/repo")
    where = os.path.dirname(os.path.dirname(os.path.abspath(liquid.__file__)))
    if os.path.realpath(where) != os.path.realpath(repo):
        print(f"selftest: liquid imported from {where}, expected {repo}")
        return 2
    n = 0
    with open(os.path.join(HOME, "MANIFEST.json")) as fd:
        claimed = [c["property_id"] for c in json.load(fd)["checks"]]
    for pid in claimed:
        load_check(pid)
        n += 1
    os.makedirs(os.path.join(HOME, "evidence"), exist_ok=True)
    print(f"selftest ok: liquid {liquid.__version__} from {where}; {n} drivers import")
    return 0


def main(argv: list[str]) -> int:
    if argv and argv[0] == "--selftest":
        return selftest()
    if len(argv) < 2:
        print(__doc__)
        return 2
    pid = argv[0].upper()
    if argv[1] == "--replay":
        return do_replay(pid, argv[2])
    tier = argv[1]
    if tier not in ("quick", "thorough"):
        print(__doc__)
        return 2
    tier = os.environ.get("VERIF_TIER_OVERRIDE", tier)
    try:
        seed = int(os.environ.get("VERIF_SEED", "0"))
    except ValueError:
        seed = 0
    jobs = int(os.environ.get("VERIF_JOBS", str(min(16, os.cpu_count() or 1))))

    t0 = time.time()
    chk = load_check(pid)
    findings = load_findings(pid)
    shards = list(chk.shards(tier))
    order = list(range(len(shards)))
    random.Random(seed).shuffle(order)
    work = [(i, shards[i]) for i in order]

    results: list[Result] = []
    harness_errors: list[Any] = []
    if jobs <= 1 or len(work) <= 1:
        _init_worker(pid, tier)
        for w in work:
            _, r = _run_one(w)
            (harness_errors if isinstance(r, tuple) else results).append(r)
    else:
        ctx = mp.get_context("fork")
        with ctx.Pool(min(jobs, len(work)), initializer=_init_worker, initargs=(pid, tier)) as pool:
            it = pool.imap_unordered(_run_one, work, chunksize=1)
            # A worker stuck inside a C-level call cannot be interrupted by its own alarm; the parent
            # gives up when no shard result arrives for longer than the shard watchdog allows.
            patience = chk.shard_timeout(tier) + 300
            for _ in range(len(work)):
                try:
                    _, r = it.next(timeout=patience)
                except mp.TimeoutError:
                    pool.terminate()
                    print(f"HARNESS-ERROR property={pid}: no shard finished within {patience}s (worker stuck in native code?); no verdict")
                    return 2
                (harness_errors if isinstance(r, tuple) else results).append(r)

    if harness_errors:
        for e in harness_errors[:3]:
            print(f"HARNESS-ERROR property={pid} shard={e[2]}\n{e[1]}")
        print(f"HARNESS-ERROR property={pid}: {len(harness_errors)} shard(s) failed; no verdict")
        return 2

    tot = merge(results)
    # classify
    unlisted: list[dict[str, Any]] = []
    known_hit: dict[int, int] = {}
    seen_sig: set[str] = set()
    for v in tot.violations:
        idx = classify(v, findings)
        if idx is None:
            k = jdumps(v["signature"])
            if k not in seen_sig:
                seen_sig.add(k)
                unlisted.append(v)
        else:
            known_hit[idx] = known_hit.get(idx, 0) + 1
    for i, f in enumerate(findings):
        if f.get("status") != "open":
            continue
        tag = "reproduced" if i in known_hit else "not reached in this tier"
        print(f"KNOWN-FINDING: property={pid} {f.get('what', '')} [{tag}]")

    wall = time.time() - t0
    known_names = [findings[i].get("what", "") for i in sorted(known_hit)]
    write_evidence(chk, tier, seed, tot, wall, len(unlisted), known_names, len(shards))

    mc = ""
    if chk.level == "model_checking":
        mc = f" states={tot.states} transitions={tot.transitions} traces={tot.traces} fixpoint={tot.fixpoint}"
    print(
        f"[{pid} {tier}] shards={len(shards)} evaluations={tot.evaluations} "
        f"distinct_nontrivial={len(tot.nontrivial)} distinct_outcomes={len(tot.outcomes)}{mc} "
        f"violations_unlisted={len(unlisted)} known_reproduced={len(known_hit)} wall={wall:.1f}s"
    )
    if unlisted:
        for v in unlisted[:MAX_VIOLATION_LINES]:
            path = write_replay(pid, v)
            print(f"  signature={jdumps(v['signature'])}\n  what={v['what']}")
            print(f"VIOLATION property={pid} replay={path}")
        if len(unlisted) > MAX_VIOLATION_LINES:
            print(f"  ... and {len(unlisted) - MAX_VIOLATION_LINES} more distinct signatures")
        return 1
    return 0


if __name__ == "__main__":
    sys.exit(main(sys.argv[1:]))
