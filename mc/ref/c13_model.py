"""C13 reference model: abstract loop programs, their Liquid source, and what they must render.

A *program* is a JSON-able dict ``{"flags": {...}, "nodes": [...]}``.  ``to_source`` prints it
as Liquid source + render data (the only thing the real engine ever sees); ``expected``
interprets the same dict with plain Python loops (the oracle).  Nothing in this file imports
the library under test.

Nodes
-----
``{"t":"text","s":str}``                       literal text (never contains whitespace)
``{"t":"item","var":v,"pair":bool}``           ``{{v}}`` or, for hash items, ``{{v[0]}}={{v[1]}}``
``{"t":"h","obj":"forloop"|"tablerowloop","up":k,"fields":[...]}``
                                               helper values joined with "/" (``up`` = number of
                                               ``.parentloop`` hops)
``{"t":"brk"|"cnt","at":k}``                   ``{% if forloop.index == k %}{% break|continue %}{% endif %}``
                                               (``at`` None = unconditional ``{% break %}``)
``{"t":"silent","s":src}``                     a tag that writes nothing (``{% assign z = 1 %}``)
``{"t":"wrap","w":if|unless|ifelse|elsif|case|caseelse|capture,"body":[...]}``
                                               a block tag whose (constant) condition selects ``body``;
                                               ``capture`` captures the body and prints the variable
``{"t":"for","var","coll","limit","offset","rev","body","else"}``
``{"t":"tablerow","var","coll","cols","limit","offset","body"}``

``coll``   = ``{"kind": array|hash|range_lit|range_var|range_asg|string, "n": int, "name": str}``
``limit/offset/cols`` = ``None`` | ``{"v": int, "f": lit|var|strlit|strvar}``; offset may also be
``"continue"`` or ``"'continue'"`` (the documented quoted spelling).

Provenance of every oracle clause (soundness rule 1)
----------------------------------------------------
slice      property statement ("visits exactly the items prescribed by the reference semantics
           for every combination of limit (including zero and negative), offset (including
           continue, negative and very large) and reversed") + the reference semantics written
           out in DESIGN.md C13: from = offset (continue -> remembered stop, default 0),
           to = from + limit when a limit is given, keep items with from <= index < to,
           reversed applies to the kept segment.  tag_reference.md#limit/#offset/#reversed.
continue   tag_reference.md#offset: "the loop will start from where a previous loop with the
           same iterable left off" -- only for loops with the same identifier AND iterable
           (the property's "sharing offset:continue keys").  The remembered position is the index
           after the last item of the previous segment, or the previous loop's own start when it
           visited nothing (zero/negative limit at a non-negative start).  NOT decided after a loop
           with a negative offset (reference implementation: from + items kept; docs: where it
           left off) and after a loop that used break.
else       property statement ("renders its else block exactly when no item is visited");
           tag_reference.md#for.
interrupt  property statement ("honours break and continue"); tag_reference.md#break/#continue
           ("exit a loop early", "skip all or part of a loop iteration").
forloop    property statement (helpers consistent with the visited items);
           tag_reference.md#forloop table (index, index0, rindex, rindex0, first, last, length,
           name, parentloop = "the forloop object of an enclosing for loop").
tablerow   property statement (row/column structure and helpers consistent with the visited
           items for every cols value); tag_reference.md#tablerow, #cols ("By default ... one row
           with one column for each item"), #tablerowloop table.  The docs print the HTML
           pretty-printed, so whitespace between tags is not part of the oracle.
cols<=0    tag_reference.md#cols says what ``cols`` does for a number of columns and what happens
           when it is absent; it is silent on zero, negative, nil and non-numeric values.  The
           statement still requires structure and helpers to be consistent with the visited items
           "for every cols value", so for those values only layout-free consistency is checked
           (``check_free_tablerow``): every visited item in exactly one cell, in order; rows
           numbered 1.. and cells numbered 1.. within their rendered row; col/col0/col_first/row
           agree with the rendered cell and row; col_last of a non-final cell iff the row ends there.
items      array -> its elements; hash -> (key, value) pairs; range -> increasing integers
           (tag_reference.md#for); string with string_sequences -> its characters
           (environment.md#string-sequences).  String WITHOUT string_sequences: the docs say it
           "can not be looped over", the reference implementation loops once over the whole
           string; both readings are accepted (``reading`` 0 / 1).
"""

from __future__ import annotations

import re
from collections import Counter
from typing import Any
from typing import Optional

HUGE = 10**30
LETTERS = "abcdefghijkl"
CHARS = "pqrstuvwxyz"
RANGE_START = 3

FOR_FIELDS = ["index", "index0", "rindex", "rindex0", "first", "last", "length"]
FOR_FIELDS_BREAK = ["index", "index0", "first"]  # unaffected by leaving the loop early
TR_FIELDS = ["index", "index0", "rindex", "rindex0", "first", "last", "length",
             "col", "col0", "col_first", "col_last", "row"]

# sentinel emitted by the model where the docs do not say what a tablerow over nothing prints
EMPTY_TABLE = "\x00"
_EMPTY_TABLE_RE = r"(?:</?tr[^<>]*>)*"


# ---------------------------------------------------------------------------
# constructors (keep programs terse in the generators)
# ---------------------------------------------------------------------------
def text(s: str) -> dict[str, Any]:
    return {"t": "text", "s": s}


def item(var: str, coll: dict[str, Any]) -> dict[str, Any]:
    return {"t": "item", "var": var, "pair": coll["kind"] == "hash"}


def helpers(obj: str, fields: list[str], up: int = 0) -> dict[str, Any]:
    return {"t": "h", "obj": obj, "up": up, "fields": list(fields)}


def wrap(w: str, body: list[Any]) -> dict[str, Any]:
    return {"t": "wrap", "w": w, "body": body}


def silent(s: str) -> dict[str, Any]:
    return {"t": "silent", "s": s}


def arg(v: Any, f: str = "lit") -> Optional[dict[str, Any]]:
    return None if v is None else {"v": v, "f": f}


def coll(kind: str, n: int, name: str = "a") -> dict[str, Any]:
    return {"kind": kind, "n": n, "name": name}


def for_(var: str, c: dict[str, Any], body: list[Any], *, limit: Any = None, offset: Any = None,
         rev: bool = False, else_: Optional[list[Any]] = None) -> dict[str, Any]:
    return {"t": "for", "var": var, "coll": c, "limit": limit, "offset": offset, "rev": rev,
            "body": body, "else": else_}


def tablerow(var: str, c: dict[str, Any], body: list[Any], *, cols: Any = None, limit: Any = None,
             offset: Any = None) -> dict[str, Any]:
    return {"t": "tablerow", "var": var, "coll": c, "cols": cols, "limit": limit, "offset": offset,
            "body": body}


# ---------------------------------------------------------------------------
# collections
# ---------------------------------------------------------------------------
def coll_expr(c: dict[str, Any]) -> str:
    k, n, name = c["kind"], c["n"], c["name"]
    if k == "range_lit":
        return f"({RANGE_START}..{RANGE_START + n - 1})"
    if k == "range_var":
        return f"({name}x..{name}y)"
    return name


def coll_data(c: dict[str, Any]) -> dict[str, Any]:
    k, n, name = c["kind"], c["n"], c["name"]
    if k == "array":
        return {name: list(LETTERS[:n])}
    if k == "hash":
        return {name: {f"k{j}": f"v{j}" for j in range(1, n + 1)}}
    if k == "string":
        return {name: CHARS[:n]}
    if k == "range_var":
        return {name + "x": RANGE_START, name + "y": RANGE_START + n - 1}
    return {}


def coll_prefix(c: dict[str, Any]) -> str:
    if c["kind"] == "range_asg":
        return f"{{% assign {c['name']} = ({RANGE_START}..{RANGE_START + c['n'] - 1}) %}}"
    return ""


def coll_items(c: dict[str, Any], string_sequences: bool, reading: int) -> list[str]:
    """The documented items of the collection, already in rendered form."""
    k, n = c["kind"], c["n"]
    if k == "array":
        return list(LETTERS[:n])
    if k == "hash":
        return [f"k{j}=v{j}" for j in range(1, n + 1)]
    if k in ("range_lit", "range_var", "range_asg"):
        return [str(RANGE_START + j) for j in range(n)]
    if k == "string":
        if string_sequences:
            return list(CHARS[:n])
        if n == 0 or reading == 1:
            return []
        return [CHARS[:n]]
    raise AssertionError(k)


# ---------------------------------------------------------------------------
# printing
# ---------------------------------------------------------------------------
def to_source(prog: dict[str, Any]) -> tuple[str, dict[str, Any]]:
    data: dict[str, Any] = {}
    prefix: list[str] = []
    ctr = [0]
    seen_prefix: set[str] = set()

    def p_arg(a: Any) -> str:
        if isinstance(a, str):
            return a  # continue / 'continue'
        v, f = a["v"], a["f"]
        if f == "lit":
            return "nil" if v is None else f"'{v}'" if isinstance(v, str) else str(v)
        if f == "missing":
            name = f"p{ctr[0]}"
            ctr[0] += 1
            return name  # a variable that is not passed to render
        if f == "strlit":
            return f"'{v}'"
        name = f"p{ctr[0]}"
        ctr[0] += 1
        data[name] = v if f == "var" else str(v)
        return name

    def p_coll(c: dict[str, Any]) -> str:
        data.update(coll_data(c))
        pre = coll_prefix(c)
        if pre and pre not in seen_prefix:
            seen_prefix.add(pre)
            prefix.append(pre)
        return coll_expr(c)

    def p_nodes(ns: list[Any]) -> str:
        return "".join(p_node(n) for n in ns)

    def p_node(n: dict[str, Any]) -> str:
        t = n["t"]
        if t == "text":
            return str(n["s"])
        if t == "item":
            v = n["var"]
            return f"{{{{{v}[0]}}}}={{{{{v}[1]}}}}" if n["pair"] else f"{{{{{v}}}}}"
        if t == "h":
            path = n["obj"] + ".parentloop" * n["up"]
            return "/".join(f"{{{{{path}.{f}}}}}" for f in n["fields"])
        if t == "silent":
            return str(n["s"])
        if t == "wrap":
            w, b = n["w"], p_nodes(n["body"])
            if w == "if":
                return "{% if true %}" + b + "{% endif %}"
            if w == "unless":
                return "{% unless false %}" + b + "{% endunless %}"
            if w == "ifelse":
                return "{% if false %}{% else %}" + b + "{% endif %}"
            if w == "elsif":
                return "{% if false %}{% elsif true %}" + b + "{% endif %}"
            if w == "case":
                return "{% case 1 %}{% when 1 %}" + b + "{% endcase %}"
            if w == "caseelse":
                return "{% case 2 %}{% when 1 %}{% else %}" + b + "{% endcase %}"
            if w == "capture":
                name = f"cap{ctr[0]}"
                ctr[0] += 1
                return f"{{% capture {name} %}}" + b + f"{{% endcapture %}}{{{{{name}}}}}"
            raise AssertionError(w)
        if t in ("brk", "cnt"):
            tag = "break" if t == "brk" else "continue"
            if n["at"] is None:
                return f"{{% {tag} %}}"
            return f"{{% if forloop.index == {n['at']} %}}{{% {tag} %}}{{% endif %}}"
        if t == "for":
            s = f"{{% for {n['var']} in {p_coll(n['coll'])}"
            if n["limit"] is not None:
                s += f" limit:{p_arg(n['limit'])}"
            if n["offset"] is not None:
                s += f" offset:{p_arg(n['offset'])}"
            if n["rev"]:
                s += " reversed"
            s += " %}" + p_nodes(n["body"])
            if n["else"] is not None:
                s += "{% else %}" + p_nodes(n["else"])
            return s + "{% endfor %}"
        if t == "tablerow":
            s = f"{{% tablerow {n['var']} in {p_coll(n['coll'])}"
            if n["cols"] is not None:
                s += f" cols:{p_arg(n['cols'])}"
            if n["limit"] is not None:
                s += f" limit:{p_arg(n['limit'])}"
            if n["offset"] is not None:
                s += f" offset:{p_arg(n['offset'])}"
            return s + " %}" + p_nodes(n["body"]) + "{% endtablerow %}"
        raise AssertionError(t)

    body = p_nodes(prog["nodes"])
    return "".join(prefix) + body, data


# ---------------------------------------------------------------------------
# the oracle
# ---------------------------------------------------------------------------
class _Break(Exception):
    pass


class _Continue(Exception):
    pass


def _b(x: bool) -> str:
    return "true" if x else "false"


def keep(items: list[str], from_: int, to: Optional[int]) -> list[str]:
    """Reference slice, written as the plain loop of the reference semantics."""
    kept = []
    index = 0
    for it in items:
        if to is not None and to <= index:
            break
        if from_ <= index:
            kept.append(it)
        index += 1
    return kept


class Ref:
    def __init__(self, prog: dict[str, Any], reading: int = 0) -> None:
        self.string_sequences = bool(prog.get("flags", {}).get("string_sequences", False))
        self.reading = reading
        self.out: list[str] = []
        self.stops: dict[str, int] = {}
        self.stats: Counter[str] = Counter()

    # -- helpers ----------------------------------------------------------
    def _segment(self, n: dict[str, Any]) -> list[str]:
        items = coll_items(n["coll"], self.string_sequences, self.reading)
        key = f"{n['var']}|{coll_expr(n['coll'])}"
        off = n["offset"]
        if isinstance(off, str):  # continue
            from_ = self.stops.get(key, 0)
        elif off is None:
            from_ = 0
        else:
            from_ = off["v"]
        to = None if n["limit"] is None else from_ + n["limit"]["v"]
        kept = keep(items, from_, to)
        # "where a previous loop left off": the index after the last item of the segment
        self.stops[key] = from_ + len(kept)
        return kept

    def _helper(self, n: dict[str, Any], frames: list[dict[str, Any]]) -> str:
        want = "for" if n["obj"] == "forloop" else "tablerow"
        chain = [f for f in reversed(frames) if f["t"] == want]
        fr = chain[n["up"]]
        i0, ln = fr["i0"], fr["length"]
        vals: dict[str, str] = {
            "index": str(i0 + 1), "index0": str(i0), "rindex": str(ln - i0), "rindex0": str(ln - i0 - 1),
            "first": _b(i0 == 0), "last": _b(i0 == ln - 1), "length": str(ln),
        }
        if want == "for":
            vals["name"] = fr["name"]
        else:
            cols = fr["cols"]
            col = i0 % cols + 1
            vals.update({"col": str(col), "col0": str(col - 1), "col_first": _b(col == 1),
                         "col_last": _b(col == cols), "row": str(i0 // cols + 1)})
        return "/".join(vals[f] for f in n["fields"])

    # -- interpretation ---------------------------------------------------
    def run(self, nodes: list[Any], frames: list[dict[str, Any]]) -> None:
        for n in nodes:
            self.node(n, frames)

    def node(self, n: dict[str, Any], frames: list[dict[str, Any]]) -> None:
        t = n["t"]
        if t == "text":
            self.out.append(n["s"])
        elif t == "item":
            fr = [f for f in frames if f["var"] == n["var"]][-1]
            self.out.append(fr["item"])
        elif t == "h":
            self.out.append(self._helper(n, frames))
        elif t == "silent":
            pass
        elif t == "wrap":
            self.run(n["body"], frames)
        elif t in ("brk", "cnt"):
            fr = [f for f in frames if f["t"] == "for"][-1]
            if n["at"] is None or fr["i0"] + 1 == n["at"]:
                self.stats["interrupts_fired"] += 1
                raise _Break() if t == "brk" else _Continue()
        elif t == "for":
            kept = self._segment(n)
            if n["rev"]:
                kept = list(reversed(kept))
            self.stats["loops"] += 1
            self.stats["kept"] += len(kept)
            if not kept:
                self.stats["empty"] += 1
                if n["else"] is not None:
                    self.stats["else_rendered"] += 1
                    self.run(n["else"], frames)
                return
            fr = {"t": "for", "var": n["var"], "length": len(kept), "i0": -1, "item": "",
                  "name": f"{n['var']}-{coll_expr(n['coll'])}"}
            for i0, it in enumerate(kept):
                fr["i0"], fr["item"] = i0, it
                try:
                    self.run(n["body"], frames + [fr])
                except _Continue:
                    continue
                except _Break:
                    break
        elif t == "tablerow":
            kept = self._segment(n)
            self.stats["loops"] += 1
            self.stats["tablerows"] += 1
            self.stats["kept"] += len(kept)
            if not kept:
                self.stats["empty"] += 1
                self.stats["tablerow_empty"] += 1
                self.out.append(EMPTY_TABLE)
                return
            cols = len(kept) if n["cols"] is None else n["cols"]["v"]
            fr = {"t": "tablerow", "var": n["var"], "length": len(kept), "i0": -1, "item": "", "cols": cols}
            for i0, it in enumerate(kept):
                fr["i0"], fr["item"] = i0, it
                col, row = i0 % cols + 1, i0 // cols + 1
                if col == 1:
                    self.out.append(f'<tr class="row{row}">' if row == 1 else f'</tr><tr class="row{row}">')
                self.out.append(f'<td class="col{col}">')
                self.run(n["body"], frames + [fr])
                self.out.append("</td>")
            self.stats["rows"] += (len(kept) - 1) // cols + 1
            self.out.append("</tr>")
        else:
            raise AssertionError(t)


def expected(prog: dict[str, Any], reading: int = 0) -> tuple[str, Counter[str]]:
    r = Ref(prog, reading)
    r.run(prog["nodes"], [])
    return "".join(r.out), r.stats


def has_default_string(prog: dict[str, Any]) -> bool:
    """Does the program loop over a non-empty string with string_sequences off (two readings)?"""
    if prog.get("flags", {}).get("string_sequences"):
        return False

    def walk(ns: list[Any]) -> bool:
        for n in ns:
            if n["t"] in ("for", "tablerow"):
                if n["coll"]["kind"] == "string" and n["coll"]["n"] > 0:
                    return True
                if walk(n["body"]) or (n.get("else") and walk(n["else"])):
                    return True
            elif n["t"] == "wrap" and walk(n["body"]):
                return True
        return False

    return walk(prog["nodes"])


# ---------------------------------------------------------------------------
# comparison
# ---------------------------------------------------------------------------
_TAG_OR_WS = re.compile(r"<[^<>]*>|\s+")


def normalise(out: str) -> str:
    """Drop whitespace outside ``<...>`` tags.  The generated bodies never contain whitespace
    (nor ``<``/``>``); the docs pretty-print tablerow HTML, so whitespace emitted by the tag
    itself between elements is not part of the oracle."""
    return _TAG_OR_WS.sub(lambda m: m.group(0) if m.group(0)[0] == "<" else "", out)


def matches(want: str, got: str) -> bool:
    got, want = normalise(got), normalise(want)
    if EMPTY_TABLE not in want:
        return want == got
    rx = _EMPTY_TABLE_RE.join(re.escape(p) for p in want.split(EMPTY_TABLE))
    return re.fullmatch(rx, got) is not None


def show(want: str) -> str:
    return want.replace(EMPTY_TABLE, "<any-empty-table>")


# ---------------------------------------------------------------------------
# program surgery used to name the failing clause
# ---------------------------------------------------------------------------
def strip_helpers(prog: dict[str, Any]) -> dict[str, Any]:
    def walk(ns: list[Any]) -> list[Any]:
        out = []
        for n in ns:
            if n["t"] == "h":
                continue
            if n["t"] in ("for", "tablerow"):
                n = dict(n)
                n["body"] = walk(n["body"])
                if n.get("else") is not None:
                    n["else"] = walk(n["else"])
            elif n["t"] == "wrap":
                n = dict(n)
                n["body"] = walk(n["body"])
            out.append(n)
        return out

    return {"flags": prog.get("flags", {}), "nodes": walk(prog["nodes"])}


def loops_of(prog: dict[str, Any]) -> list[dict[str, Any]]:
    acc: list[dict[str, Any]] = []

    def walk(ns: list[Any], depth: int) -> None:
        for n in ns:
            if n["t"] in ("for", "tablerow"):
                acc.append({**n, "depth": depth})
                walk(n["body"], depth + 1)
                if n.get("else"):
                    walk(n["else"], depth)
            elif n["t"] == "wrap":
                walk(n["body"], depth)

    walk(prog["nodes"], 1)
    return acc


def features(prog: dict[str, Any]) -> list[str]:
    """Discriminating input features (for narrow known-finding signatures)."""
    fs: set[str] = set()

    def walk(ns: list[Any], depth: int) -> None:
        for n in ns:
            t = n["t"]
            if t == "brk":
                fs.add("break")
            elif t == "cnt":
                fs.add("continue-tag")
            elif t in ("for", "tablerow"):
                ln = n["coll"]["n"]
                if depth > 1:
                    fs.add("nested")
                lim, off = n["limit"], n["offset"]
                if lim is not None:
                    v = lim["v"]
                    fs.add("limit<0" if v < 0 else "limit==0" if v == 0 else "limit>len" if v > ln else "limit")
                    if lim["f"] in ("strlit", "strvar"):
                        fs.add("string-arg")
                if isinstance(off, str):
                    fs.add("offset:continue")
                elif off is not None:
                    v = off["v"]
                    fs.add("offset<0" if v < 0 else "offset>len" if v > ln else "offset")
                    if off["f"] in ("strlit", "strvar"):
                        fs.add("string-arg")
                if n.get("rev"):
                    fs.add("reversed")
                if n.get("cols") is not None:
                    fs.add(cols_class(n["cols"], ln))
                if t == "for" and not writes(n["body"]):
                    fs.add("blank-body")
                walk(n["body"], depth + 1)
                if n.get("else"):
                    walk(n["else"], depth)
            elif t == "wrap":
                fs.add("wrapped")
                walk(n["body"], depth)

    walk(prog["nodes"], 1)
    return sorted(fs)


def writes(ns: list[Any]) -> bool:
    """Can these nodes write anything but whitespace?"""
    for n in ns:
        t = n["t"]
        if t in ("item", "h", "tablerow") or (t == "text" and n["s"].strip()):
            return True
        if t == "for" and (writes(n["body"]) or writes(n.get("else") or [])):
            return True
        if t == "wrap" and writes(n["body"]):
            return True
    return False


def cols_documented(a: Optional[dict[str, Any]]) -> bool:
    """tag_reference.md#cols defines the layout only for an absent cols or a number of columns >= 1."""
    return a is None or (a["f"] in ("lit", "var") and type(a["v"]) is int and 1 <= a["v"] < HUGE)


def cols_number_class(a: dict[str, Any]) -> str:
    """The plain numeric reading of a cols value (truncating): zero / negative / positive / not-a-number."""
    v = a["v"]
    if a["f"] == "missing" or v is None or isinstance(v, bool):
        return "not-a-number"
    if isinstance(v, str):
        try:
            v = int(v)
        except ValueError:
            return "not-a-number"
    v = int(v)
    return "zero" if v == 0 else "negative" if v < 0 else "positive"


def cols_class(a: dict[str, Any], ln: int) -> str:
    v, f = a["v"], a["f"]
    if f == "missing":
        return "cols=undefined"
    if v is None:
        return "cols=nil"
    if isinstance(v, bool):
        return "cols=bool"
    if isinstance(v, str):
        return "cols=numeric-string" if v.lstrip("-").isdigit() else "cols=non-numeric"
    if isinstance(v, float):
        return "cols=float"
    if v == 0:
        return "cols==0"
    if v < 0:
        return "cols<0"
    if v >= HUGE:
        return "cols=huge"
    return "cols>len" if v > ln else "cols"


# ---------------------------------------------------------------------------
# layout-free consistency of ONE top-level tablerow (cols values the docs are silent on)
# ---------------------------------------------------------------------------
_ROW = re.compile(r'<tr class="row(\d+)">((?:<td class="col\d+">[^<>]*</td>)*)</tr>')
_CELL = re.compile(r'<td class="col(\d+)">([^<>]*)</td>')


def free_body(var: str, c: dict[str, Any]) -> list[Any]:
    return [item(var, c), text(":"), helpers("tablerowloop", TR_FIELDS)]


def check_free_tablerow(prog: dict[str, Any], got: str) -> tuple[list[tuple[str, str]], Counter[str]]:
    """-> ([(clause, message)], stats).  ``prog`` is a single tablerow whose body is ``free_body``."""
    (n,) = prog["nodes"]
    assert n["t"] == "tablerow"
    ref = Ref(prog)
    kept = ref._segment(n)
    stats: Counter[str] = Counter({"loops": 1, "tablerows": 1, "kept": len(kept)})
    out = normalise(got)
    rows = [(int(m.group(1)), [(int(c.group(1)), c.group(2)) for c in _CELL.finditer(m.group(2))])
            for m in _ROW.finditer(out)]
    bad: list[tuple[str, str]] = []
    if "".join(m.group(0) for m in _ROW.finditer(out)) != out:
        return [("structure", "the output is not a sequence of <tr class=rowR> elements holding <td class=colC> cells")], stats
    cells = [(r, c, txt, ri, ci, len(cs)) for ri, (r, cs) in enumerate(rows) for ci, (c, txt) in enumerate(cs)]
    if not kept:
        stats["empty"] = stats["tablerow_empty"] = 1
        if cells:
            bad.append(("items", f"{len(cells)} cell(s) rendered although no item is visited"))
        return bad, stats
    stats["rows"] = len(rows)
    seen = [txt.split(":", 1)[0] for *_x, txt, _ri, _ci, _n in cells]
    if seen != kept:
        return [("items", f"cells hold {seen}, visited items are {kept}")], stats
    if [r for r, _ in rows] != list(range(1, len(rows) + 1)) or any(not cs for _, cs in rows):
        bad.append(("structure", f"rows are {[(r, len(cs)) for r, cs in rows]}: not numbered 1.. or an empty row"))
    ln = len(kept)
    for i0, (r, c, txt, ri, ci, nrow) in enumerate(cells):
        if c != ci + 1:
            bad.append(("structure", f"cell {i0 + 1} is the {ci + 1}. cell of its row but has class col{c}"))
        vals = dict(zip(TR_FIELDS, txt.split(":", 1)[1].split("/")))
        want = {"index": str(i0 + 1), "index0": str(i0), "rindex": str(ln - i0), "rindex0": str(ln - i0 - 1),
                "first": _b(i0 == 0), "last": _b(i0 == ln - 1), "length": str(ln)}
        for k, w in want.items():
            if vals.get(k) != w:
                bad.append(("helpers", f"cell {i0 + 1}: tablerowloop.{k} is {vals.get(k)}, visited items say {w}"))
        if vals.get("col") != str(c):
            bad.append(("col", f"cell {i0 + 1}: tablerowloop.col is {vals.get('col')} inside <td class=col{c}>"))
        if vals.get("col0") != str(c - 1):
            bad.append(("col0", f"cell {i0 + 1}: tablerowloop.col0 is {vals.get('col0')} inside <td class=col{c}>"))
        if vals.get("col_first") != _b(ci == 0):
            bad.append(("col_first", f"cell {i0 + 1}: col_first is {vals.get('col_first')} but it is the "
                                     f"{ci + 1}. cell of its rendered row"))
        if i0 != ln - 1 and vals.get("col_last") != _b(ci == nrow - 1):
            bad.append(("col_last", f"cell {i0 + 1}: col_last is {vals.get('col_last')} but the rendered row "
                                    f"{'ends' if ci == nrow - 1 else 'continues'} after it"))
        if vals.get("row") != str(r):
            bad.append(("row", f"cell {i0 + 1}: tablerowloop.row is {vals.get('row')} inside <tr class=row{r}>"))
    # one message per clause is enough
    first: dict[str, str] = {}
    for k, msg in bad:
        first.setdefault(k, msg)
    return list(first.items()), stats
