"""Reference model and nest printer for C06 (loop iteration limit bounds nested iteration).

Nothing in here imports the library.

An abstract *nest* is a list of levels ``[(kind, n), ...]`` (outermost first).  Level ``j``
(1-based) is a construct of the given kind whose block is executed ``n`` times per execution of
the enclosing block; that block writes the marker ``MARKS[j-1]`` and then contains level ``j+1``.
Transparent kinds (a partial or a macro rendered once: ``render 'p'``, ``include 'p'``, ``call m``)
have ``n = 1``: they repeat nothing themselves but move the rest of the nest into another
template / another render context ("partials or macros rendered inside loops").

The model is a literal reading of

* the property statement: "a render that completes never executes a block while the product of
  the lengths of all enclosing repeating constructs exceeds N.  Every construct that repeats a
  block (for, tablerow, include or render with a bound array, and partials or macros rendered
  inside loops) contributes its length to that product, and a nest whose lengths multiply to more
  than N raises LoopIterationLimitError";
* docs/environment.md "Loop Iteration Limit": "the maximum number of loop iterations *allowed*
  before a LoopIterationLimitError is raised" (so a nest whose products all stay <= N is allowed:
  it completes, with the output an unlimited render gives); "Other built in tags that contribute
  to the loop iteration counter are render, include (when using their {% render 'thing' for
  some.thing %} syntax) and tablerow.  If a partial template is rendered within a for loop, the
  loop counter is carried over to the render context of the partial template";
* docs/tag_reference.md: ``for``/``tablerow`` render their block once per item (after ``offset``),
  ``include``/``render`` ``... for <array>`` render the template once per item.

Arithmetic: ``P_j = n_1 * ... * n_j`` is the number of times the block of level ``j`` executes in
an unlimited render, and equally the product of the lengths of all repeating constructs enclosing
that block (itself included).  Level ``j`` is *reachable* iff ``n_1 .. n_{j-1} > 0``; since
``N >= 1``, ``P_j > N`` already implies that level ``j`` is reachable and that its block would
execute.  Expected: LoopIterationLimitError iff some ``P_j > N``.
"""

from __future__ import annotations

from typing import Any
from typing import Optional

MARKS = "ABCD"  # upper case: tablerow's own HTML is lower case / digits / punctuation only
BIG_LEN = 12  # length of the shared array BIG used by the offset forms

# kind -> (label used in signatures, repeating?, moves the rest into a partial?, is an include?,
#          opens a new render context (copy)?)
KINDS: dict[str, dict[str, Any]] = {
    "F": {"label": "for", "rep": True, "partial": False, "include": False, "copy": False},
    "T": {"label": "tablerow", "rep": True, "partial": False, "include": False, "copy": False},
    "I": {"label": "include-for", "rep": True, "partial": True, "include": True, "copy": False},
    "R": {"label": "render-for", "rep": True, "partial": True, "include": False, "copy": True},
    "Pi": {"label": "include", "rep": False, "partial": True, "include": True, "copy": False},
    "Pr": {"label": "render", "rep": False, "partial": True, "include": False, "copy": True},
    "C": {"label": "call", "rep": False, "partial": False, "include": False, "copy": True},
    # argument-form variants of for / tablerow (same labels: the construct is the same)
    "Fr": {"label": "for", "rep": True, "partial": False, "include": False, "copy": False, "min_n": 1},
    "Fo": {"label": "for", "rep": True, "partial": False, "include": False, "copy": False},
    "To": {"label": "tablerow", "rep": True, "partial": False, "include": False, "copy": False},
    "Tc": {"label": "tablerow", "rep": True, "partial": False, "include": False, "copy": False},
}
BASE_KINDS = ("F", "T", "I", "R", "Pi", "Pr", "C")
VARIANT_KINDS = ("Fr", "Fo", "To", "Tc")
NONFOR_REPEATING_LABELS = ("tablerow", "include-for", "render-for")


def in_domain(kinds: list[str]) -> bool:
    """``include`` is not allowed inside ``render`` / a macro (the library disables the tag there)."""
    copied = False
    for k in kinds:
        if KINDS[k]["include"] and copied:
            return False
        copied = copied or KINDS[k]["copy"]
    return True


def lengths_ok(nest: list[Any]) -> bool:
    for k, n in nest:
        spec = KINDS[k]
        if not spec["rep"] and n != 1:
            return False
        if n < spec.get("min_n", 0) or n > BIG_LEN:
            return False
    return True


# ---------------------------------------------------------------------------
# printing: abstract nest -> Liquid source (the source depends on the kinds only; lengths are data)
# ---------------------------------------------------------------------------
def partial_name(j: int, kinds: list[str]) -> str:
    """Name of the partial holding the block of level ``j`` (1-based) of the nest ``kinds``."""
    return f"b{j}-" + "-".join(kinds[j:])


def parse_partial_name(name: str) -> Optional[tuple[int, list[str]]]:
    if not name.startswith("b") or "-" not in name:
        return None
    head, _, rest = name.partition("-")
    try:
        j = int(head[1:])
    except ValueError:
        return None
    kinds = [k for k in rest.split("-") if k]
    if j < 1 or j + len(kinds) > len(MARKS) or any(k not in KINDS for k in kinds):
        return None
    return j, kinds


def block_src(j: int, kinds: list[str]) -> str:
    """Source of the block of level ``j``: its marker, then level ``j+1`` (if any)."""
    return MARKS[j - 1] + (construct_src(j + 1, kinds) if j < len(kinds) else "")


def construct_src(j: int, kinds: list[str]) -> str:
    k = kinds[j - 1]
    if k == "F":
        return f"{{% for i{j} in L{j} %}}{block_src(j, kinds)}{{% endfor %}}"
    if k == "Fr":
        return f"{{% for i{j} in (1..N{j}) %}}{block_src(j, kinds)}{{% endfor %}}"
    if k == "Fo":
        return f"{{% for i{j} in BIG offset: O{j} %}}{block_src(j, kinds)}{{% endfor %}}"
    if k == "T":
        return f"{{% tablerow i{j} in L{j} %}}{block_src(j, kinds)}{{% endtablerow %}}"
    if k == "To":
        return f"{{% tablerow i{j} in BIG offset: O{j} %}}{block_src(j, kinds)}{{% endtablerow %}}"
    if k == "Tc":
        return f"{{% tablerow i{j} in L{j} cols: 2 %}}{block_src(j, kinds)}{{% endtablerow %}}"
    if k == "I":
        return f"{{% include '{partial_name(j, kinds)}' for L{j} %}}"
    if k == "R":
        return f"{{% render '{partial_name(j, kinds)}' for L{j} %}}"
    if k == "Pi":
        return f"{{% include '{partial_name(j, kinds)}' %}}"
    if k == "Pr":
        return f"{{% render '{partial_name(j, kinds)}' %}}"
    if k == "C":
        return f"{{% macro m{j} %}}{block_src(j, kinds)}{{% endmacro %}}{{% call m{j} %}}"
    raise AssertionError(k)


def top_source(kinds: list[str]) -> str:
    return construct_src(1, kinds)


def partial_source(name: str) -> Optional[str]:
    """Source of the partial called ``name`` (what the loader of the harness serves), or None."""
    parsed = parse_partial_name(name)
    if parsed is None:
        return None
    j, rest = parsed
    return block_src(j, ["?"] * j + rest)


def partials_of(kinds: list[str]) -> dict[str, str]:
    """All partials the nest uses (for witnesses / replay files)."""
    out = {}
    for j, k in enumerate(kinds, 1):
        if KINDS[k]["partial"]:
            name = partial_name(j, kinds)
            out[name] = partial_source(name) or ""
    return out


def data_of(nest: list[Any]) -> dict[str, Any]:
    d: dict[str, Any] = {"BIG": list(range(BIG_LEN))}
    for j, (_, n) in enumerate(nest, 1):
        d[f"L{j}"] = list(range(n))
        d[f"N{j}"] = n
        d[f"O{j}"] = BIG_LEN - n
    return d


# ---------------------------------------------------------------------------
# arithmetic
# ---------------------------------------------------------------------------
def products(nest: list[Any]) -> list[int]:
    out, p = [], 1
    for _, n in nest:
        p *= n
        out.append(p)
    return out


def must_raise(nest: list[Any], limit: int) -> bool:
    return any(p > limit for p in products(nest))


def first_exceeding(nest: list[Any], limit: int) -> Optional[int]:
    """1-based level whose block would be the first to execute with a product > limit."""
    for j, p in enumerate(products(nest), 1):
        if p > limit:
            return j
    return None


def critical_limits(nest: list[Any], lo: int = 1, hi: int = 200) -> list[int]:
    s = {lo, hi}
    for p in products(nest):
        s.update((p - 1, p, p + 1))
    return sorted(n for n in s if lo <= n <= hi)


def marker_counts(output: str, depth: int) -> list[int]:
    return [output.count(MARKS[j]) for j in range(depth)]


def multiplies(nest: list[Any]) -> bool:
    """Nesting matters: some reachable product is larger than every single length."""
    ns = [n for _, n in nest]
    return any(p > max(ns[:j]) for j, p in enumerate(products(nest), 1) if j >= 2)


def enclosing_nonfor(nest: list[Any], level: int) -> list[str]:
    """Labels of non-``for`` repeating constructs with length >= 2 strictly enclosing ``level``."""
    out = set()
    for k, n in nest[: level - 1]:
        lab = KINDS[k]["label"]
        if KINDS[k]["rep"] and n >= 2 and lab in NONFOR_REPEATING_LABELS:
            out.add(lab)
    return sorted(out)
