"""C21 helpers: token alphabet, source rendering, valid-skeleton grammar, an independent tag
scanner and the clause-3 expectations (all derived from the abstract token sequence, never
from the library's own analysis).

Nothing here imports the tag analysis under test.
"""

from __future__ import annotations

import functools
import itertools
import re
from typing import Any
from typing import Iterator
from typing import Optional

# ---------------------------------------------------------------------------
# alphabet: token name -> source text (well-formed expressions)
# ---------------------------------------------------------------------------
RENDER: dict[str, str] = {
    "if": "if x", "elsif": "elsif y", "else": "else", "endif": "endif",
    "unless": "unless x", "endunless": "endunless",
    "for": "for v in a", "break": "break", "continue": "continue", "endfor": "endfor",
    "case": "case x", "when": "when 1", "endcase": "endcase",
    "capture": "capture s", "endcapture": "endcapture",
    "assign": "assign s = 1",
    "foo": "foo x", "endfoo": "endfoo", "endassign": "endassign",
    # extra=True tags
    "block": "block b", "endblock": "endblock",
    "macro": "macro m p", "endmacro": "endmacro",
    "with": "with v: x", "endwith": "endwith",
    "translate": "translate", "plural": "plural", "endtranslate": "endtranslate",
}

A19: tuple[str, ...] = (
    "if", "elsif", "else", "endif", "unless", "endunless", "for", "break", "continue", "endfor",
    "case", "when", "endcase", "capture", "endcapture", "assign", "foo", "endfoo", "endassign",
)
X9: tuple[str, ...] = (
    "block", "endblock", "macro", "endmacro", "with", "endwith", "translate", "plural", "endtranslate",
)
A28: tuple[str, ...] = A19 + X9

MENUS: dict[str, tuple[str, ...]] = {
    "A19": A19,
    "A28": A28,
    # 10-tag menus for the longest fully enumerated length
    "M10": ("if", "else", "endif", "for", "break", "endfor", "case", "when", "endcase", "foo"),
    "M10x": ("if", "else", "endif", "for", "endfor", "block", "endblock", "translate", "plural", "endtranslate"),
    "M10y": ("macro", "endmacro", "with", "endwith", "if", "endif", "for", "break", "endfor", "foo"),
    # deviation menus for 2-deviation mutants
    "D4": ("assign", "endif", "else", "foo"),
    "D4x": ("assign", "endblock", "plural", "foo"),
    "D6": ("assign", "endif", "endfor", "else", "foo", "for"),
    "D6x": ("assign", "endblock", "plural", "foo", "endif", "translate"),
    "D12x": ("assign", "foo", "endif", "endfor", "else", "plural", "endblock", "endtranslate", "block",
             "translate", "macro", "endmacro"),
}

DECORS = ("plain", "text", "wc")


def render(seq: tuple[str, ...], decor: str = "plain") -> str:
    """Source text of an abstract token sequence (every tag has a well-formed expression)."""
    if decor == "plain":
        return "".join(["{% " + RENDER[t] + " %}" for t in seq])
    if decor == "text":
        return " t " + "".join(["{% " + RENDER[t] + " %} t " for t in seq])
    if decor == "wc":
        return "".join(["{%- " + RENDER[t] + " -%}\n" for t in seq])
    raise AssertionError(decor)


def seq_at(menu: tuple[str, ...], length: int, index: int) -> tuple[str, ...]:
    """The ``index``-th sequence (lexicographic, last position fastest) of ``menu``^length."""
    k = len(menu)
    out = [""] * length
    for pos in range(length - 1, -1, -1):
        index, r = divmod(index, k)
        out[pos] = menu[r]
    return tuple(out)


def seqs_range(menu: tuple[str, ...], length: int, lo: int, hi: int) -> Iterator[tuple[str, ...]]:
    if length == 0:
        if lo == 0 and hi > 0:
            yield ()
        return
    yield from itertools.islice(itertools.product(menu, repeat=length), lo, hi)


# ---------------------------------------------------------------------------
# what the language says about the tags of the alphabet (docs/tag_reference.md and the
# extra-tags docs): block tags, their end tag and the inner tags each accepts.
# ---------------------------------------------------------------------------
BLOCK_INNER: dict[str, tuple[str, ...]] = {
    "if": ("elsif", "else"),
    "unless": ("elsif", "else"),
    "for": ("else", "break", "continue"),
    "case": ("when", "else"),
    "capture": (),
    "tablerow": (),
    "ifchanged": (),
    "comment": (),
    "doc": (),
    "block": (),
    "macro": (),
    "with": (),
    "translate": ("plural",),
    "snippet": (),
}


# ---------------------------------------------------------------------------
# valid skeletons: leafless, properly nested token sequences
# ---------------------------------------------------------------------------
def _compositions(n: int, parts: int) -> Iterator[tuple[int, ...]]:
    if parts == 1:
        yield (n,)
        return
    for i in range(n + 1):
        for rest in _compositions(n - i, parts - 1):
            yield (i,) + rest


@functools.lru_cache(maxsize=None)
def bodies(n: int, blocks: tuple[str, ...]) -> tuple[tuple[str, ...], ...]:
    """Every valid token sequence of exactly ``n`` tokens made of blocks only."""
    if n == 0:
        return ((),)
    out: list[tuple[str, ...]] = []
    for k in range(2, n + 1):
        for first in _one_block(k, blocks):
            for rest in bodies(n - k, blocks):
                out.append(first + rest)
    return tuple(out)


@functools.lru_cache(maxsize=None)
def _one_block(n: int, blocks: tuple[str, ...]) -> tuple[tuple[str, ...], ...]:
    out: list[tuple[str, ...]] = []
    for b in blocks:
        end = "end" + b
        if b in ("capture", "block", "macro", "with"):
            for body in bodies(n - 2, blocks):
                out.append((b,) + body + (end,))
        elif b == "translate":  # message text only: no nested tags
            if n == 2:
                out.append((b, end))
            if n == 3:
                out.append((b, "plural", end))
        elif b in ("if", "unless"):
            for n_elsif in range(0, n - 1):
                for has_else in (0, 1):
                    inner = n - 2 - n_elsif - has_else
                    if inner < 0:
                        continue
                    for comp in _compositions(inner, 1 + n_elsif + has_else):
                        for bs in itertools.product(*[bodies(c, blocks) for c in comp]):
                            t = (b,) + bs[0]
                            for i in range(n_elsif):
                                t += ("elsif",) + bs[1 + i]
                            if has_else:
                                t += ("else",) + bs[-1]
                            out.append(t + (end,))
        elif b == "for":
            for has_else in (0, 1):
                inner = n - 2 - has_else
                if inner < 0:
                    continue
                for comp in _compositions(inner, 1 + has_else):
                    for bs in itertools.product(*[bodies(c, blocks) for c in comp]):
                        t = (b,) + bs[0]
                        if has_else:
                            t += ("else",) + bs[1]
                        out.append(t + (end,))
        elif b == "case":
            for n_when in range(0, n - 1):
                for has_else in (0, 1):
                    inner = n - 2 - n_when - has_else
                    if inner < 0:
                        continue
                    parts = n_when + has_else
                    if parts == 0:
                        if inner == 0:
                            out.append((b, end))
                        continue
                    for comp in _compositions(inner, parts):
                        for bs in itertools.product(*[bodies(c, blocks) for c in comp]):
                            t: tuple[str, ...] = (b,)
                            for i in range(n_when):
                                t += ("when",) + bs[i]
                            if has_else:
                                t += ("else",) + bs[-1]
                            out.append(t + (end,))
        else:
            raise AssertionError(b)
    return tuple(out)


SKELETON_SETS: dict[str, tuple[str, ...]] = {
    "if-for": ("if", "for"),
    "if-for-case": ("if", "for", "case"),
    "all5": ("if", "unless", "for", "case", "capture"),
    "if-block": ("if", "block"),
    "block-translate": ("block", "translate"),
    "if-for-block-translate": ("if", "for", "block", "translate"),
    "x7": ("if", "for", "case", "block", "macro", "with", "translate"),
}


def skeletons(set_name: str, lengths: tuple[int, ...]) -> list[tuple[str, ...]]:
    out: list[tuple[str, ...]] = []
    for n in lengths:
        out.extend(bodies(n, SKELETON_SETS[set_name]))
    return out


def mutants(skel: tuple[str, ...], devs: int, menu: tuple[str, ...]) -> Iterator[tuple[str, ...]]:
    """Sequences at substitution distance exactly ``devs`` (1 or 2) from ``skel``, replacement
    tokens taken from ``menu``; ``devs == 0`` yields the skeleton itself."""
    if devs == 0:
        yield skel
        return
    n = len(skel)
    if devs == 1:
        for i in range(n):
            for t in menu:
                if t != skel[i]:
                    yield skel[:i] + (t,) + skel[i + 1:]
        return
    if devs == 2:
        for i in range(n):
            for j in range(i + 1, n):
                for t1 in menu:
                    if t1 == skel[i]:
                        continue
                    for t2 in menu:
                        if t2 != skel[j]:
                            yield skel[:i] + (t1,) + skel[i + 1:j] + (t2,) + skel[j + 1:]
        return
    raise AssertionError(devs)


# ---------------------------------------------------------------------------
# independent scanner: (tag name, offset of the name) for every tag of a source, skipping
# the bodies of raw / comment / doc blocks
# ---------------------------------------------------------------------------
_TAG_RE = re.compile(r"\{%-?\s*(#|[A-Za-z_][\w-]*)", re.S)
_TAG_END_RE = re.compile(r"-?%\}", re.S)


def scan_tags(source: str) -> list[tuple[str, int]]:
    out: list[tuple[str, int]] = []
    pos = 0
    opaque: Optional[str] = None  # "raw" | "comment" | "doc"
    depth = 0
    while True:
        m = _TAG_RE.search(source, pos)
        if m is None:
            break
        name = m.group(1)
        e = _TAG_END_RE.search(source, m.end())
        nxt = e.end() if e else len(source)
        if name == "#":
            # inline comment: may contain "{{ ... }}", ends at the first "%}"
            pass
        if opaque is None:
            if name == "raw":
                opaque, depth = "raw", 1
            else:
                out.append((name, m.start(1)))
                if name in ("comment", "doc"):
                    opaque, depth = name, 1
        elif opaque == "raw":
            if name == "endraw":
                opaque = None
        else:
            if name == opaque:
                depth += 1
            elif name == "end" + opaque:
                depth -= 1
                if depth == 0:
                    opaque = None
                    out.append((name, m.start(1)))
        pos = nxt
    return out


# ---------------------------------------------------------------------------
# environment facts (configuration, not behaviour): what is registered
# ---------------------------------------------------------------------------
class EnvFacts:
    """Registered tag names and which of them are block tags, read from ``env.tags``."""

    def __init__(self, env: Any):
        self.registered: frozenset[str] = frozenset(env.tags)
        self.blocks: frozenset[str] = frozenset(
            name for name, tag in env.tags.items() if bool(getattr(tag, "block", False))
        )
        # "end" + name is the documented closing tag of every block tag of the alphabet
        self.end_of_registered: frozenset[str] = frozenset("end" + b for b in self.blocks)
        inner: set[str] = set()
        for b in self.blocks:
            inner.update(BLOCK_INNER.get(b, ()))
        self.inner_of_registered: frozenset[str] = frozenset(inner)


def expectations(names: tuple[str, ...], facts: EnvFacts) -> tuple[set[str], set[str], int]:
    """Clause 3, from the abstract token sequence only.

    Returns (must_be_unknown, must_be_unclosed, n_excluded_as_ambiguous).

    * must_be_unknown: a name that is not registered and is neither the end tag nor an inner
      tag of a registered block.  An unregistered ``endX`` whose start name ``X`` also occurs
      in the sequence is *excluded*: reporting the pair under the start name alone is a
      defensible reading of "unknown tag names are reported" (counted, not judged).
    * must_be_unclosed: a registered block name with more opening tags than end tags that
      follow them (per-name counter: an end tag can only close an earlier, still open, tag of
      its own name).  Whatever the matching discipline, at least one such tag has no end tag.
      Sequences whose blocks are merely *crossed* (``if for endif endfor``) demand nothing.
    """
    present = set(names)
    unknown: set[str] = set()
    excluded = 0
    for n in present:
        if n in facts.registered or n in facts.end_of_registered or n in facts.inner_of_registered:
            continue
        if n.startswith("end") and len(n) > 3 and n[3:] in present:
            excluded += 1
            continue
        unknown.add(n)
    open_count: dict[str, int] = {}
    for n in names:
        if n in facts.blocks:
            open_count[n] = open_count.get(n, 0) + 1
        elif n.startswith("end") and open_count.get(n[3:], 0) > 0:
            open_count[n[3:]] -= 1
    unclosed = {n for n, c in open_count.items() if c > 0}
    return unknown, unclosed, excluded


def stray_end(names: tuple[str, ...], facts: EnvFacts) -> bool:
    """Signature feature only: some end-like tag occurs while no block-like tag is open
    (block-like = registered block, or a name whose "end"+name occurs in the sequence)."""
    present = set(names)
    depth = 0
    for n in names:
        if n.startswith("end") and len(n) > 3:
            if depth == 0:
                return True
            depth -= 1
        elif n in facts.blocks or ("end" + n) in present:
            depth += 1
    return False


def extraneous_branch(names: tuple[str, ...], facts: EnvFacts) -> bool:
    """True iff (by a plain nesting scan) some if/unless block has an ``else`` that is followed
    by another ``else``/``elsif`` before its end tag.  The parser silently discards such
    extraneous branches token by token, so the source then contains text that is never
    parsed; the statement and the docs say nothing about reports located there."""
    stack: list[list[Any]] = []
    for n in names:
        if n in facts.blocks:
            stack.append([n, False])
        elif n.startswith("end") and len(n) > 3:
            if any(fr[0] == n[3:] for fr in stack):
                while stack and stack.pop()[0] != n[3:]:
                    pass
        elif n in ("else", "elsif") and stack and stack[-1][0] in ("if", "unless"):
            if stack[-1][1]:
                return True
            if n == "else":
                stack[-1][1] = True
    return False


def contexts(tokens: list[tuple[str, int]], facts: EnvFacts) -> dict[int, dict[str, Any]]:
    """Signature features only: for every scanned tag, keyed by the offset of its name, the
    innermost open registered block and the enclosing loop blocks (own simple stack)."""
    out: dict[int, dict[str, Any]] = {}
    stack: list[str] = []
    for name, off in tokens:
        if name.startswith("end") and len(name) > 3:
            inner = stack[-1] if stack else None
            out[off] = {"name": name, "innermost": inner, "loops": [b for b in stack if b in ("for", "tablerow")]}
            if name[3:] in stack:
                while stack and stack.pop() != name[3:]:
                    pass
            continue
        out[off] = {"name": name, "innermost": stack[-1] if stack else None,
                    "loops": [b for b in stack if b in ("for", "tablerow")]}
        if name in facts.blocks:
            stack.append(name)
    return out
