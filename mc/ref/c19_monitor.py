"""Dynamic monitor for C19: what a render really touches.

Observation is done from the harness side only, by wrapping public library callables at
import time of the driver (never by editing /repo):

* ``Path.evaluate`` / ``Path.evaluate_async``   -> every variable path evaluated
* ``RenderContext.get`` / ``get_async``         -> the reference (token) whose root is being looked up
* ``RenderContext.filter``                      -> every filter applied
* ``Node.render`` / ``Node.render_async``       -> every tag rendered, and the partial call frames
* the render arguments and the template globals are passed as *spy mappings*: a successful
  ``__getitem__`` on one of them is exactly "this root was supplied by the render
  arguments / globals" (every local, block and call-site namespace is searched before them).

If any wrapped attribute is missing, or the canary render does not produce every kind of
event, the monitor raises ``RuntimeError("harness binding lost ...")`` -- it never passes
vacuously.
"""

from __future__ import annotations

import io
from typing import Any
from typing import Optional

import liquid
from liquid.token import TOKEN_TAG

SITE_TAGS = frozenset(("include", "render", "extends", "block"))


def _need(obj: Any, name: str) -> Any:
    try:
        return getattr(obj, name)
    except AttributeError:
        raise RuntimeError(f"harness binding lost: {getattr(obj, '__name__', obj)}.{name} no longer exists") from None


class Spy(dict):  # type: ignore[type-arg]
    """Render arguments / template globals that report which keys they supplied."""

    __slots__ = ("mon", "label")

    def __init__(self, data: dict[str, Any], mon: "Monitor", label: str):
        super().__init__(data)
        self.mon = mon
        self.label = label

    def __getitem__(self, key: Any) -> Any:
        val = dict.__getitem__(self, key)  # KeyError propagates: the chain moves on
        self.mon.on_supplied(key, self.label)
        return val


class Trace:
    """Everything observed during one render."""

    __slots__ = ("paths", "filters", "tags", "supplied", "stray", "frames_seen")

    def __init__(self) -> None:
        self.paths: dict[tuple[Any, ...], Any] = {}     # (canonical segments) -> (source, index)
        self.filters: set[str] = set()
        self.tags: dict[str, tuple[str, int]] = {}      # name -> (source, index) of one occurrence
        # (source, index, root, label, frames) ; frames = tuple of (source, index) of enclosing call sites
        self.supplied: dict[tuple[Any, ...], None] = {}
        self.stray = 0                                   # supplied outside any variable lookup
        self.frames_seen = 0


def canon(path: Any) -> Any:
    """Canonical nested-tuple form of a liquid ``Path`` (segments; nested paths as tuples)."""
    segs = _need(path, "path")
    return tuple(canon(s) if isinstance(s, liquid.builtin.expressions.Path) else s for s in segs)


def canon_segments(segments: Any) -> Any:
    """Same canonical form for the ``segments`` of a reported ``Variable``."""
    return tuple(canon_segments(s) if isinstance(s, list) else s for s in segments)


class Monitor:
    def __init__(self) -> None:
        self.trace: Optional[Trace] = None
        self.ref_stack: list[Any] = []     # tokens of the variable lookups in progress
        self.frames: list[tuple[str, int]] = []
        self.installed = False
        self.env_tags: frozenset[str] = frozenset()

    # -- events -------------------------------------------------------------
    def on_supplied(self, key: Any, label: str) -> None:
        tr = self.trace
        if tr is None:
            return
        if not self.ref_stack:
            tr.stray += 1
            return
        tok = self.ref_stack[-1]
        if tok is None:
            tr.stray += 1
            return
        tr.supplied[(tok.source, tok.start_index, key, label, tuple(self.frames))] = None

    # -- installation ---------------------------------------------------------
    def install(self) -> None:
        if self.installed:
            return
        mon = self
        Path = _need(_need(_need(liquid, "builtin"), "expressions"), "Path")
        RC = _need(liquid, "RenderContext")
        Node = _need(_need(liquid, "ast"), "Node")
        structural = (_need(liquid.ast, "BlockNode"), _need(liquid.ast, "ConditionalBlockNode"))

        p_eval, p_eval_async = _need(Path, "evaluate"), _need(Path, "evaluate_async")
        c_get, c_get_async = _need(RC, "get"), _need(RC, "get_async")
        c_filter = _need(RC, "filter")
        n_render, n_render_async = _need(Node, "render"), _need(Node, "render_async")

        def log_path(path: Any) -> None:
            tr = mon.trace
            if tr is not None:
                key = canon(path)
                if key not in tr.paths:
                    tok = path.token
                    tr.paths[key] = (tok.source, tok.start_index)

        def evaluate(self: Any, context: Any) -> Any:
            log_path(self)
            return p_eval(self, context)

        async def evaluate_async(self: Any, context: Any) -> Any:
            log_path(self)
            return await p_eval_async(self, context)

        def get(self: Any, *a: Any, **kw: Any) -> Any:
            mon.ref_stack.append(kw.get("token"))
            try:
                return c_get(self, *a, **kw)
            finally:
                mon.ref_stack.pop()

        async def get_async(self: Any, *a: Any, **kw: Any) -> Any:
            mon.ref_stack.append(kw.get("token"))
            try:
                return await c_get_async(self, *a, **kw)
            finally:
                mon.ref_stack.pop()

        def filter_(self: Any, *a: Any, **kw: Any) -> Any:
            tr = mon.trace
            if tr is not None:
                tr.filters.add(a[0] if a else kw.get("name"))
            return c_filter(self, *a, **kw)

        def enter(node: Any) -> bool:
            tr = mon.trace
            if tr is None:
                return False
            tok = node.token
            if tok.kind != TOKEN_TAG or isinstance(node, structural):
                return False
            name = tok.value
            if name not in mon.env_tags:
                return False  # else / elsif / when / end tokens carried by block containers: not tags
            if name not in tr.tags:
                tr.tags[name] = (tok.source, tok.start_index)
            if name in SITE_TAGS:
                mon.frames.append((tok.source, tok.start_index))
                tr.frames_seen += 1
                return True
            return False

        def render(self: Any, context: Any, buffer: Any) -> Any:
            pushed = enter(self)
            try:
                return n_render(self, context, buffer)
            finally:
                if pushed:
                    mon.frames.pop()

        async def render_async(self: Any, context: Any, buffer: Any) -> Any:
            pushed = enter(self)
            try:
                return await n_render_async(self, context, buffer)
            finally:
                if pushed:
                    mon.frames.pop()

        Path.evaluate, Path.evaluate_async = evaluate, evaluate_async
        RC.get, RC.get_async = get, get_async
        RC.filter = filter_
        Node.render, Node.render_async = render, render_async
        self.installed = True

    # -- running ----------------------------------------------------------------
    def run(self, template: Any, data: dict[str, Any], *, is_async: bool) -> tuple[Trace, Any]:
        """Render ``template`` with spy render arguments; return (trace, outcome)."""
        from mc import util as U

        assert self.installed
        self.env_tags = frozenset(template.env.tags)
        tr = Trace()
        self.ref_stack.clear()
        self.frames.clear()
        args = Spy(data, self, "args")
        saved_globals = template.globals
        template.globals = Spy(dict(saved_globals), self, "globals")
        make_globals = _need(template, "make_globals")
        rwc = _need(template, "render_with_context_async" if is_async else "render_with_context")

        def go() -> str:
            ctx = liquid.RenderContext(template, globals=make_globals(args))
            buf = io.StringIO()
            if is_async:
                U.run_coro(rwc(ctx, buf))
            else:
                rwc(ctx, buf)
            return buf.getvalue()

        self.trace = tr
        try:
            out = U.outcome(go)
        finally:
            self.trace = None
            template.globals = saved_globals
            self.ref_stack.clear()
            self.frames.clear()
        return tr, out

    def canary(self, env: Any) -> None:
        """One render that must produce every kind of event, else the bindings are dead."""
        t = env.from_string("{% if cx %}{{ cy.k | upcase }}{{ cg }}{% include 'p' %}{% endif %}", globals={"cg": 1})
        for is_async in (False, True):
            tr, out = self.run(t, {"cx": 1, "cy": {"k": "v"}}, is_async=is_async)
            roots = {k[2]: k[3] for k in tr.supplied}
            problems = []
            if not out.ok:
                problems.append(f"canary render failed: {out!r}")
            if ("cx",) not in tr.paths or ("cy", "k") not in tr.paths:
                problems.append("Path.evaluate events missing")
            if roots.get("cx") != "args" or roots.get("cy") != "args":
                problems.append("render-argument spy not consulted")
            if roots.get("cg") != "globals":
                problems.append("template-globals spy not consulted")
            if "upcase" not in tr.filters:
                problems.append("RenderContext.filter events missing")
            if "if" not in tr.tags or "include" not in tr.tags or not tr.frames_seen:
                problems.append("Node.render events missing")
            if problems:
                raise RuntimeError("harness binding lost (" + ("async" if is_async else "sync") + "): " + "; ".join(problems))


MONITOR = Monitor()
