"""C14 reference path walker (dotted / bracketed / quoted / negative-index / nested-variable paths).

Provenance of every rule (nothing is taken from the code under test):

* segments are property names after a dot, quoted names or integers in brackets, or a bracketed variable
  path whose *value* is the key/index; hashes are looked up by key, arrays by (possibly negative) index
  -- docs/variables_and_drops.md "Paths to variables" (``products[0].title``, ``products[-2]['available']``,
  ``product.variant[var]``, ``products["something with spaces"]``).
* ``.size`` is the length of anything that has one, ``.first`` / ``.last`` the first / last item of an array
  -- same section (``products.last.title``, ``products.first.colors``) and "Other magic methods" (``foo.size``).
* characters of a string can be selected by index only with ``string_sequences``; strings answer ``.first`` /
  ``.last`` only with ``string_first_and_last`` -- docs/environment.md "String sequences", "String first and last".
* anything missing (unknown key, index out of range, a property of a scalar / nil / undefined, an undefined
  index variable) resolves to the configured undefined value -- property statement; docs "Undefined variables".

Not fixed by statement or docs, therefore EXCLUDED (and counted): ``.first`` / ``.last`` on a hash, a negative
index into a string, a hash that has a key called size/first/last (not in the data).
"""

from __future__ import annotations

from typing import Any
from typing import Optional

UNDEF = ("undef",)

DATA: dict[str, Any] = {
    "arr": [{"a": [1, 2], "b": "bee", "a b": "sp"}, ["p", ["q", "r"]], "str", 7],
    "h": {"a": {"a": [10, 20], "b": "hab"}, "b": [{"a": "hba", "b": [3]}, "hb1"], "c": "sea", "a b": {"a": "spa"}},
    "s": "xyz",
    "e": [],
    "es": "",
    "n": 5,
    "z": None,
    # key / index variables
    "ka": "a", "ksp": "a b", "i1": 1, "im": -1, "ix": {"one": 1, "k": "b"},
}
ROOTS = ("arr", "h", "s", "e", "es", "n", "z", "nosuch")

# (source text, kind, argument)
SEGS: list[tuple[str, str, Any]] = [
    (".a", "key", "a"), (".b", "key", "b"), (".c", "key", "c"), (".zz", "key", "zz"),
    ("['a']", "key", "a"), ('["b"]', "key", "b"), ('["a b"]', "key", "a b"),
    ("[0]", "idx", 0), ("[1]", "idx", 1), ("[-1]", "idx", -1), ("[9]", "idx", 9), ("[-9]", "idx", -9),
    ("[ka]", "var", ("ka",)), ("[ksp]", "var", ("ksp",)), ("[i1]", "var", ("i1",)), ("[im]", "var", ("im",)),
    ("[kz]", "var", ("kz",)), ("[ix.one]", "var", ("ix", "one")), ("[ix.k]", "var", ("ix", "k")),
    (".size", "size", None), (".first", "first", None), (".last", "last", None),
]


def type_name(o: Any) -> str:
    if o is UNDEF:
        return "undefined"
    if isinstance(o, dict):
        return "hash"
    if isinstance(o, list):
        return "array"
    if isinstance(o, str):
        return "string"
    if o is None:
        return "nil"
    if isinstance(o, bool):
        return "bool"
    return "int"


def step(obj: Any, kind: str, arg: Any, string_sequences: bool, string_first_and_last: bool) -> Any:
    """One segment.  Returns the value, UNDEF, or ("excluded", reason)."""
    if kind == "var":
        cur: Any = DATA
        for name in arg:
            if isinstance(cur, dict) and name in cur:
                cur = cur[name]
            else:
                return UNDEF  # an undefined index variable: the path is missing
        if isinstance(cur, str):
            kind, arg = "key", cur
        elif isinstance(cur, int) and not isinstance(cur, bool):
            kind, arg = "idx", cur
        else:
            return ("excluded", "index variable is neither a string nor an integer")
    if isinstance(obj, dict):
        if kind == "key":
            return obj[arg] if arg in obj else UNDEF
        if kind == "idx":
            return UNDEF
        if kind == "size":
            if "size" in obj:
                return ("excluded", "hash with a key called size")
            return len(obj)
        return ("excluded", f".{kind} on a hash")
    if isinstance(obj, list):
        if kind == "key":
            return UNDEF
        if kind == "idx":
            return obj[arg] if -len(obj) <= arg < len(obj) else UNDEF
        if kind == "size":
            return len(obj)
        if kind == "first":
            return obj[0] if obj else UNDEF
        return obj[-1] if obj else UNDEF
    if isinstance(obj, str):
        if kind == "key":
            return UNDEF
        if kind == "idx":
            if not string_sequences:
                return UNDEF
            if arg < 0:
                return ("excluded", "negative index into a string")
            return obj[arg] if arg < len(obj) else UNDEF
        if kind == "size":
            return len(obj)
        if not string_first_and_last:
            return UNDEF
        if not obj:
            return UNDEF
        return obj[0] if kind == "first" else obj[-1]
    return UNDEF  # nil, numbers, booleans, undefined: every property is missing


def walk(root: str, segs: tuple[int, ...], string_sequences: bool, string_first_and_last: bool) -> dict[str, Any]:
    """-> {"result": value | UNDEF | ("excluded", why), "depth": segments applied on a defined value,
    "on": type at the deciding step, "seg": kind of the deciding segment}."""
    obj: Any = DATA[root] if root in DATA else UNDEF
    depth = 0
    on, segkind = type_name(obj), "root"
    for si in segs:
        _, kind, arg = SEGS[si]
        if obj is UNDEF:
            break
        on, segkind = type_name(obj), kind
        nxt = step(obj, kind, arg, string_sequences, string_first_and_last)
        if isinstance(nxt, tuple) and nxt and nxt[0] == "excluded":
            return {"result": nxt, "depth": depth, "on": on, "seg": segkind}
        obj = nxt
        if obj is not UNDEF:
            depth += 1
    return {"result": obj, "depth": depth, "on": on, "seg": segkind}


def path_source(root: str, segs: tuple[int, ...]) -> str:
    return root + "".join(SEGS[i][0] for i in segs)


def all_paths(max_segs: int) -> list[tuple[int, ...]]:
    out: list[tuple[int, ...]] = []
    level: list[tuple[int, ...]] = [()]
    for _ in range(max_segs):
        level = [p + (i,) for p in level for i in range(len(SEGS))]
        out.extend(level)
    return out


def prefix_excluded(root: str, segs: tuple[int, ...], ss: bool, sfl: bool) -> Optional[str]:
    r = walk(root, segs, ss, sfl)["result"]
    if isinstance(r, tuple) and r and r[0] == "excluded":
        return str(r[1])
    return None
