"""C14 reference path walker (dotted / bracketed / quoted / negative-index / nested-variable paths).

Provenance of every rule (nothing is taken from the code under test):

* segments are property names after a dot, quoted names or integers in brackets, or a bracketed variable
  path whose *value* is the key/index; hashes are looked up by key, arrays by (possibly negative) index
  -- docs/variables_and_drops.md "Paths to variables" (``products[0].title``, ``products[-2]['available']``,
  ``product.variant[var]``, ``products["something with spaces"]``).
* ``.size`` is the length of anything that has one, ``.first`` / ``.last`` the first / last item of an array
  -- same section (``products.last.title``, ``products.first.colors``) and "Other magic methods" (``foo.size``).
* characters of a string can be selected by index only with ``string_sequences``; strings answer ``.first`` /
  ``.last`` only with ``string_first_and_last`` -- docs/environment.md "String sequences", "String first and last".
* anything missing (unknown key, index out of range, a property of a scalar / nil / undefined, an undefined
  index variable) resolves to the configured undefined value -- property statement; docs "Undefined variables".

* "Python Liquid uses ``__getitem__`` internally for resolving property names" (same section): a hash that has
  its own key called size / first / last answers with that entry (the key wins over the special property);
  a bracketed quoted name or a variable holding the name is the same property as the dotted form.
* a negative index counts from the end (``products[-2]``); one that reaches before the first item
  (``i < -len``) is out of range like ``i >= len`` and resolves to undefined.
* an undefined value stored in a variable (``{% assign u = nosuch %}``) stays undefined under every segment
  -- docs "Default undefined": "you can access properties ... of an undefined variable without error".

Not fixed by statement or docs, therefore EXCLUDED from the reference comparison (and counted): ``.first`` /
``.last`` on a hash without such a key, a negative index into a string.  Excluded cells are still executed with
``render`` and ``render_async`` and the two results must be equal (same text or same error class).
"""

from __future__ import annotations

from typing import Any
from typing import Optional

UNDEF = ("undef",)

DATA: dict[str, Any] = {
    "arr": [{"a": [1, 2], "b": "bee", "a b": "sp"}, ["p", ["q", "r"]], "str", 7],
    "h": {"a": {"a": [10, 20], "b": "hab"}, "b": [{"a": "hba", "b": [3]}, "hb1"], "c": "sea", "a b": {"a": "spa"}},
    "s": "xyz",
    "e": [],
    "es": "",
    "n": 5,
    "z": None,
    # key / index variables
    "ka": "a", "ksp": "a b", "i1": 1, "im": -1, "ix": {"one": 1, "k": "b"},
    "im3": -3, "im5": -5, "ksz": "size",
    # a hash whose keys are named like the special properties
    "hs": {"size": "XL", "first": {"size": 2, "a": "fa"}, "last": [1, 2], "a": [5, 6, 7]},
}
# `u` is assigned in the template: {% assign u = nosuch %} (an undefined value held by a variable)
PREFIX = "{% assign u = nosuch %}"
ROOTS = ("arr", "h", "hs", "s", "e", "es", "n", "z", "nosuch", "u")

# (source text, kind, argument)
SEGS: list[tuple[str, str, Any]] = [
    (".a", "key", "a"), (".b", "key", "b"), (".c", "key", "c"), (".zz", "key", "zz"),
    ("['a']", "key", "a"), ('["b"]', "key", "b"), ('["a b"]', "key", "a b"),
    ("[0]", "idx", 0), ("[1]", "idx", 1), ("[-1]", "idx", -1), ("[9]", "idx", 9), ("[-9]", "idx", -9),
    # just inside / just outside every array length in the data (0, 1, 2, 3, 4): -len-1, -len-2, -2*len
    ("[-2]", "idx", -2), ("[-3]", "idx", -3), ("[-4]", "idx", -4), ("[-5]", "idx", -5), ("[-6]", "idx", -6),
    ("[-8]", "idx", -8), ("[im3]", "var", ("im3",)), ("[im5]", "var", ("im5",)),
    ('["size"]', "key", "size"), ("[ksz]", "var", ("ksz",)),
    ("[ka]", "var", ("ka",)), ("[ksp]", "var", ("ksp",)), ("[i1]", "var", ("i1",)), ("[im]", "var", ("im",)),
    ("[kz]", "var", ("kz",)), ("[ix.one]", "var", ("ix", "one")), ("[ix.k]", "var", ("ix", "k")),
    (".size", "size", None), (".first", "first", None), (".last", "last", None),
]


def type_name(o: Any) -> str:
    if o is UNDEF:
        return "undefined"
    if isinstance(o, dict):
        return "hash"
    if isinstance(o, list):
        return "array"
    if isinstance(o, str):
        return "string"
    if o is None:
        return "nil"
    if isinstance(o, bool):
        return "bool"
    return "int"


def step(obj: Any, kind: str, arg: Any, string_sequences: bool, string_first_and_last: bool) -> Any:
    """One segment.  Returns the value, UNDEF, or ("excluded", reason)."""
    if kind == "var":
        cur: Any = DATA
        for name in arg:
            if isinstance(cur, dict) and name in cur:
                cur = cur[name]
            else:
                return UNDEF  # an undefined index variable: the path is missing
        if isinstance(cur, str):
            kind, arg = "key", cur
        elif isinstance(cur, int) and not isinstance(cur, bool):
            kind, arg = "idx", cur
        else:
            return ("excluded", "index variable is neither a string nor an integer")
    if kind == "key" and arg in ("size", "first", "last"):
        kind = arg  # the bracketed / variable form names the same property as the dotted form
    if isinstance(obj, dict):
        if kind == "key":
            return obj[arg] if arg in obj else UNDEF
        if kind == "idx":
            return UNDEF
        if kind in obj:
            return obj[kind]  # the hash's own entry wins over the special property
        if kind == "size":
            return len(obj)
        return ("excluded", f".{kind} on a hash")
    if isinstance(obj, list):
        if kind == "key":
            return UNDEF
        if kind == "idx":
            return obj[arg] if -len(obj) <= arg < len(obj) else UNDEF
        if kind == "size":
            return len(obj)
        if kind == "first":
            return obj[0] if obj else UNDEF
        return obj[-1] if obj else UNDEF
    if isinstance(obj, str):
        if kind == "key":
            return UNDEF
        if kind == "idx":
            if not string_sequences:
                return UNDEF
            if arg < 0:
                return ("excluded", "negative index into a string")
            return obj[arg] if arg < len(obj) else UNDEF
        if kind == "size":
            return len(obj)
        if not string_first_and_last:
            return UNDEF
        if not obj:
            return UNDEF
        return obj[0] if kind == "first" else obj[-1]
    return UNDEF  # nil, numbers, booleans, undefined: every property is missing


def walk(root: str, segs: tuple[int, ...], string_sequences: bool, string_first_and_last: bool) -> dict[str, Any]:
    """-> {"result": value | UNDEF | ("excluded", why), "depth": segments applied on a defined value,
    "on": type at the deciding step, "seg": kind of the deciding segment}."""
    obj: Any = DATA[root] if root in DATA else UNDEF
    depth = 0
    on, segkind = type_name(obj), "root"
    for si in segs:
        _, kind, arg = SEGS[si]
        if obj is UNDEF:
            break
        on, segkind = type_name(obj), (arg if kind == "key" and arg in ("size", "first", "last") else kind)
        nxt = step(obj, kind, arg, string_sequences, string_first_and_last)
        if isinstance(nxt, tuple) and nxt and nxt[0] == "excluded":
            return {"result": nxt, "depth": depth, "on": on, "seg": segkind}
        obj = nxt
        if obj is not UNDEF:
            depth += 1
    return {"result": obj, "depth": depth, "on": on, "seg": segkind}


def path_source(root: str, segs: tuple[int, ...]) -> str:
    return root + "".join(SEGS[i][0] for i in segs)


def all_paths(max_segs: int) -> list[tuple[int, ...]]:
    out: list[tuple[int, ...]] = []
    level: list[tuple[int, ...]] = [()]
    for _ in range(max_segs):
        level = [p + (i,) for p in level for i in range(len(SEGS))]
        out.extend(level)
    return out


def prefix_excluded(root: str, segs: tuple[int, ...], ss: bool, sfl: bool) -> Optional[str]:
    r = walk(root, segs, ss, sfl)["result"]
    if isinstance(r, tuple) and r and r[0] == "excluded":
        return str(r[1])
    return None


def gen_paths(root: str, ss: bool, sfl: bool, max_segs: int, trail: int = 1) -> list[tuple[int, ...]]:
    """Every path of 1..max_segs segments from ``root`` in which at most ``trail`` segments follow the first
    position that is missing (undefined); nothing follows an excluded step.  (Everything after a missing
    position is undefined again; one more segment checks that, more would only repeat it.)"""
    out: list[tuple[int, ...]] = []

    def rec(obj: Any, segs: tuple[int, ...], dead: int) -> None:
        if len(segs) >= max_segs:
            return
        for si, (_, kind, arg) in enumerate(SEGS):
            p = segs + (si,)
            if obj is UNDEF:
                out.append(p)
                if dead + 1 < trail:
                    rec(UNDEF, p, dead + 1)
                continue
            nxt = step(obj, kind, arg, ss, sfl)
            out.append(p)
            if isinstance(nxt, tuple) and nxt and nxt[0] == "excluded":
                continue
            if nxt is UNDEF:
                if trail > 0:
                    rec(UNDEF, p, 0)
            else:
                rec(nxt, p, 0)

    start = DATA[root] if root in DATA else UNDEF
    if start is UNDEF:
        # a missing / undefined root: one segment, plus `trail` more
        for si in range(len(SEGS)):
            out.append((si,))
            if trail > 0 and max_segs > 1:
                rec(UNDEF, (si,), 0)
    else:
        rec(start, (), 0)
    return out
