"""C03 generators: property-specific corpora of token-level sources the template lexer accepts
(or rejects: those are skipped and counted by the driver).

  T  tag sequences: every sequence of <= k whole tags from TAGS -- unknown tags, orphaned
     else/elsif/when/break/continue/end tags, unbalanced and mis-nested blocks, partials that are
     themselves malformed, ``liquid`` tags with malformed lines.
  Td the same tag sequences with literal text before / between / after the tags in every
     combination (unbalanced blocks followed by text running to the end of the source, ...).
  E  expression sweep: every head of HEADS (one hole per head: the expression position of each
     standard tag, the tag-name position, filter-name and filter-argument positions) filled with
     every sequence of <= k tokens from ETOKENS -- the strict-only checks of the path / argument /
     loop / filtered-expression parsers and the per-tag recovery paths.
Everything is a complete product; nothing is sampled.
"""

from __future__ import annotations

import itertools
from typing import Iterator

from mc.gen import programs as G

# partials: the well-formed shared ones plus malformed / failing ones
PARTIALS: dict[str, str] = dict(G.PARTIALS)
PARTIALS.update({
    "bad1": "<b1:{% if %}x{% endif %}{{ x }}>",
    "bad2": "<b2:{{ x | nosuchfilter }}{% endfor %}{{ x }}>",
    "bad3": "<b3:{% for v in a %}{{ v }}{% endif %}>",
    "brk": "<k:{% break %}after>",
    "typ": "<t:{{ x | plus: 1, 2 }}|{{ x | divided_by: 0 }}|{{ x }}>",
    # inheritance / extra-tag partials (environment X only)
    "base": "<base>{% block a %}A{{ x }}{% endblock %}|{% block b %}B{% endblock %}</base>",
    "reqbase": "<rb>{% block a required %}A{% endblock %}</rb>",
    "dupbase": "<db>{% block a %}A{% endblock %}{% block a %}A2{% endblock %}</db>",
    "selfext": "{% extends 'selfext' %}{% block a %}S{% endblock %}",
    "inc": "<i:{% include 'p' %}>",
})

TAGS: list[str] = [
    "t",
    "{{ v }}",
    "{{ x | }}",
    "{% if x %}", "{% elsif v %}", "{% else %}", "{% endif %}",
    "{% unless x %}", "{% endunless %}",
    "{% for v in a %}", "{% endfor %}", "{% break %}", "{% continue %}",
    "{% case x %}", "{% when 1 %}", "{% endcase %}",
    "{% capture s %}", "{% endcapture %}",
    "{% tablerow v in a %}", "{% endtablerow %}",
    "{% comment %}", "{% endcomment %}",
    "{% raw %}", "{% endraw %}",
    "{% ifchanged %}", "{% endifchanged %}",
    "{% nosuch %}", "{% endnosuch %}",
    "{% if %}",
    "{% # c %}",
    "{% assign s = %}",
    "{% include 'bad1' %}", "{% render 'bad2' %}", "{% include 'bad3' %}",
    "{% include 'brk' %}", "{% render 'brk' %}", "{% include 'typ' %}",
    "{% include 'nosuchtemplate' %}", "{% render 'p' %}",
    "{% liquid if x\necho v\nendif %}", "{% liquid if x\necho v %}", "{% liquid echo |\necho x %}",
    "{% liquid endif\necho x %}",
    "{{ x | divided_by: 0 }}",
]
TAGS_QUICK = [t for t in TAGS if t not in (
    "{% endunless %}", "{% endcapture %}", "{% endtablerow %}", "{% endifchanged %}", "{% endnosuch %}",
    "{% render 'p' %}", "{% include 'bad3' %}", "{% # c %}", "{% liquid endif\necho x %}", "{% ifchanged %}",
    "{% tablerow v in a %}", "{% unless x %}",
)]


# whole-tag alphabet for the extra environment X: template inheritance, macros, with, translate
TAGS_X: list[str] = [
    "t", "{{ v }}", "{{ block.super }}",
    "{% extends 'base' %}", "{% extends 'nosuchtemplate' %}", "{% extends 'reqbase' %}", "{% extends 'dupbase' %}",
    "{% extends 'selfext' %}", "{% extends %}",
    "{% block a %}", "{% block b required %}", "{% block %}", "{% endblock %}", "{% endblock a %}",
    "{% macro m v %}", "{% endmacro %}", "{% call m 1 %}", "{% call nosuchmacro %}", "{% call %}",
    "{% with v: 1 %}", "{% endwith %}",
    "{% translate %}", "{% plural %}", "{% endtranslate %}", "{% translate count: x %}",
    "{% render 'inc' %}",
    "{% if x %}", "{% else %}", "{% endif %}", "{% for v in a %}", "{% endfor %}", "{% break %}",
]
TAGS_X_QUICK = [t for t in TAGS_X if t not in (
    "{% extends 'selfext' %}", "{% endblock a %}", "{% call %}", "{% block %}", "{% translate count: x %}", "{% else %}",
)]


def tag_sequences(k: int, tags: list[str], first: int) -> Iterator[str]:
    """Every concatenation of 1..k tags whose first tag is tags[first]."""
    f = tags[first]
    yield f
    for n in range(1, k):
        for combo in itertools.product(tags, repeat=n):
            yield f + "".join(combo)


TEXT_LEAD, TEXT_BETWEEN, TEXT_TRAIL = "a ", " b\n", " c"


def decorated_sequences(k: int, tags: list[str], first: int) -> Iterator[str]:
    """Every sequence of 1..k tags (first = tags[first], the bare text "t" excluded) with every
    non-empty choice of literal text positions: before the first tag, between each pair of
    adjacent tags, and after the last tag running to the last character of the source."""
    f = tags[first]
    if f == "t":
        return
    rest = [t for t in tags if t != "t"]
    for n in range(0, k):
        for combo in itertools.product(rest, repeat=n):
            seq = (f,) + combo
            npos = len(seq) + 1
            for mask in range(1, 1 << npos):
                parts = [TEXT_LEAD if mask & 1 else ""]
                for i, t in enumerate(seq):
                    parts.append(t)
                    if i + 1 < len(seq):
                        parts.append(TEXT_BETWEEN if mask & (1 << (i + 1)) else "")
                parts.append(TEXT_TRAIL if mask & (1 << len(seq)) else "")
                yield "".join(parts)


ETOKENS: list[str] = [
    "x", "y", "a", "v", "nosuch", "1", "-1", "1.5", "'s'", "'p'", "true", "nil", "empty",
    ".", "..", "[", "]", "(", ")", "|", ":", ",", "=", "==", "<", "-", "!", "?", "&",
    "contains", "and", "or", "not", "in", "limit", "offset", "reversed", "cols", "continue",
    "with", "for", "as", "upcase", "append", "if", "else", "endif", "break", "y.a", "a[0]", "(1..3)",
]
ETOKENS_QUICK = [t for t in ETOKENS if t not in ("nosuch", "-1", "1.5", "nil", "&", "?", "cols", "'p'", "or")]

# (env kind, head).  D = default environment, X = extra tags + optional syntax flags on
HEADS: list[tuple[str, str]] = [
    ("D", "{{ {E} }}"),
    ("D", "{{ x | {E} }}"),
    ("D", "{{ x | default: {E} }}"),
    ("D", "{{ x | append: 'z', {E} }}"),
    ("D", "{{ y.{E} }}"),
    ("D", "{{ a[{E}] }}"),
    ("D", "{% if {E} %}T{% else %}F{% endif %}"),
    ("D", "{% unless {E} %}T{% endunless %}"),
    ("D", "{% if x %}T{% elsif {E} %}S{% else %}F{% endif %}"),
    ("D", "{% if nosuch %}T{% elsif {E} %}S{% elsif x %}R{% endif %}"),
    ("D", "{% unless x %}T{% elsif {E} %}S{% endunless %}"),
    ("D", "{% if nosuch %}T{% elsif {E} %}S{% endif %}a"),
    ("D", "{% if nosuch %}T{% else {E} %}F{% endif %}"),
    ("D", "{% for v in {E} %}{{ v }}{% endfor %}"),
    ("D", "{% for v in a {E} %}{{ v }}{% endfor %}"),
    ("D", "{% for {E} %}{{ v }}{% else %}E{% endfor %}"),
    ("D", "{% tablerow v in a {E} %}{{ v }}{% endtablerow %}"),
    ("D", "{% for v in a reversed , , {E} %}{{ v }}{% endfor %}"),
    ("D", "{% tablerow v in a limit: 2 , , {E} %}{{ v }}{% endtablerow %}"),
    ("D", "{% assign s = {E} %}{{ s }}"),
    ("D", "{% assign {E} %}{{ s }}{{ x }}"),
    ("D", "{% echo {E} %}"),
    ("D", "{% capture {E} %}c{% endcapture %}{{ s }}{{ x }}"),
    ("D", "{% case {E} %}{% when 1 %}W{% else %}E{% endcase %}"),
    ("D", "{% case x %}{% when {E} %}W{% else %}E{% endcase %}"),
    ("D", "{% cycle {E} %}"),
    ("D", "{% increment {E} %}{% decrement {E} %}"),
    ("D", "{% include {E} %}"),
    ("D", "{% render {E} %}"),
    ("D", "{% include 'p' {E} %}"),
    ("D", "{% render 'p' {E} %}"),
    ("D", "{% liquid echo {E}\necho 'k' %}"),
    ("D", "{% {E} %}"),
    ("D", "{% for v in a %}{% {E} %}{{ v }}{% endfor %}"),
    ("D", "{% if x %}{% {E} %}T{% endif %}a"),
    ("D", "{% end{E} %}"),
    ("X", "{{ {E} }}"),
    ("X", "{% if {E} %}T{% else %}F{% endif %}"),
    ("X", "{{ 'T' if {E} else 'F' }}"),
    ("X", "{{ x if y else {E} }}"),
    ("X", "{{ x | default: {E} }}"),
    ("X", "{% with {E} %}{{ v }}{% endwith %}"),
    ("X", "{% with v: 1 {E}: 2 %}{{ v }}{{ x }}{% endwith %}"),
    ("X", "{% translate v: 1 {E}: 2 %}t{{ v }}{% endtranslate %}"),
    ("X", "{% macro m {E} %}<{{ v }}>{% endmacro %}{% call m %}"),
    ("X", "{% macro m v %}<{{ v }}>{% endmacro %}{% call m {E} %}"),
    ("X", "{% translate {E} %}t{{ x }}{% endtranslate %}"),
    ("X", "{{ x | t: {E} }}"),
    ("X", "{% assign {E} %}{{ s }}{{ x }}"),
    ("X", "{% for v in {E} %}{{ v }}{% endfor %}"),
]


def expression_sources(head: str, k: int, tokens: list[str]) -> Iterator[tuple[str, str]]:
    """(expression, source) for every token sequence of length 0..k put into the head's hole(s)."""
    for n in range(0, k + 1):
        for combo in itertools.product(tokens, repeat=n):
            e = " ".join(combo)
            yield e, head.replace("{E}", e)


# programs for the extra environment: every extra construct with a few standard ones around it
X_LEAVES = G.LEAVES_EXTRA + ["{{ x }}", "{{ w }}", "{% break %}", "{% include 'p' %}", "{% assign v = x %}"]
X_BLOCKS = G.BLOCKS_EXTRA + ["{% if x %}{B}{% endif %}", "{% for v in a %}{B}{% endfor %}"]


# ---------------------------------------------------------------------------
# K  error-class corpus: for every LiquidError subclass the engine can raise while parsing,
# loading a partial or rendering, at least one snippet that raises it in strict mode
# (env kinds: D default, X extra, L small resource limits, S StrictUndefined).
# ---------------------------------------------------------------------------
K_DATA = {"x": 1, "a": [1, 2, 3], "y": {"a": 1}, "u": [3, "a", None, {}], "n": None, "s": "str"}
K_LIMITS = {"context_depth_limit": 8, "block_nesting_limit": 3, "loop_iteration_limit": 5, "local_namespace_limit": 40, "output_stream_limit": 30}
K_NEUTRAL = ["t", "{{ x }}"]
K_SNIPPETS: dict[str, list[str]] = {
    "D": [
        "{% if %}i{% endif %}",                            # LiquidSyntaxError (parse)
        "{% break %}",                                     # LiquidSyntaxError (render, interrupt)
        "{% for v in a limit: 'z' %}{{ v }}{% endfor %}",  # LiquidTypeError
        "{% include 'nosuchtemplate' %}",                  # TemplateNotFoundError
        "{% render 'nosuchtemplate' %}",
        "{% include n %}",
        "{% render 'inc' %}",                              # DisabledTagError
        "{{ x | nosuchfilter }}",                          # UnknownFilterError
        "{{ x | plus: 1, 2 }}",                            # FilterArgumentError
        "{{ x | divided_by: 0 }}",
        "{{ u | sort }}",                                  # FilterError
        "{{ u | sum }}",
        "{% include 'bad1' %}",                            # syntax error while loading a partial
    ],
    "X": [
        "{{ x | index: 1 }}",                              # FilterValueError
        "{% extends 'nosuchtemplate' %}",                  # TemplateNotFoundError (inheritance)
        "{% extends 'reqbase' %}",                         # RequiredBlockError
        "{% block a required %}r{% endblock %}",
        "{% extends 'dupbase' %}",                         # TemplateInheritanceError
        "{% extends 'selfext' %}",
        "{% translate %}{% if x %}a{% endif %}{% endtranslate %}",  # TranslationSyntaxError
        "{{ s | datetime }}",                              # LiquidValueError (render)
        "{{ y | json: 'a' }}",                             # FilterArgumentError
        "{% call nosuchmacro %}",
    ],
    "L": [
        "{% if x %}{% if x %}{% if x %}{% if x %}d{% endif %}{% endif %}{% endif %}{% endif %}",  # BlockNestingError
        "{% include 'deep' %}",
        "{% for v in (1..10) %}{{ v }}{% endfor %}",       # LoopIterationLimitError
        "{% tablerow v in (1..10) %}{{ v }}{% endtablerow %}",
        "{% assign q = 'aaaaaaaaaaaaaaaaaaaa' %}{% assign r = 'bbbbbbbbbbbbbbbbbbbbbbbbbb' %}",  # LocalNamespaceLimitError
        "0123456789012345678901234567890123456789",        # OutputStreamLimitError
        "{% include 'big' %}",
        "{% render 'self' %}",                             # ContextDepthError
    ],
    "S": [
        "{{ nosuch }}",                                    # UndefinedError
        "{% if nosuch %}a{% endif %}",
        "{% for v in nosuch %}{{ v }}{% endfor %}",
        "{% render 'undef' %}",
        "{{ a[9] }}",
        "{{ x | nosuchfilter }}",
    ],
}
# expensive snippets: used alone (in every wrapper and through partials), not in pairs
K_SOLO: dict[str, list[str]] = {
    "D": ["{{ " + "9" * 5000 + " }}"],                     # LiquidValueError (parse time)
    "X": [], "L": [], "S": [],
}
K_WRAPPERS = [
    "{B}",
    "{% if x %}{B}{% endif %}",
    "{% for v in a %}{B}{% endfor %}",
    "{% capture c %}{B}{% endcapture %}[{{ c }}]",
]
PARTIALS.update({
    "self": "s{% render 'self' %}",
    "deep": "{% if x %}{% if x %}{% if x %}{% if x %}d{% endif %}{% endif %}{% endif %}{% endif %}",
    "big": "0123456789012345678901234567890123456789",
    "undef": "<u:{{ nosuch }}>",
})
for _kind, _snips in K_SNIPPETS.items():
    for _i, _s in enumerate(_snips + K_SOLO[_kind]):
        PARTIALS[f"k_{_kind}_{_i}"] = "<" + _s + ">"


def k_sources(kind: str) -> Iterator[str]:
    """Singles, ordered pairs (same / different error classes twice in one template), each inside every
    wrapper, and every snippet reached through render / include of a partial holding it."""
    snips = K_SNIPPETS[kind]
    items = snips + K_NEUTRAL
    for w in K_WRAPPERS:
        for a in snips + K_SOLO[kind]:
            yield w.replace("{B}", a)
        for a in items:
            for b in items:
                if a in K_NEUTRAL and b in K_NEUTRAL:
                    continue
                yield w.replace("{B}", a + b)
    for i in range(len(snips) + len(K_SOLO[kind])):
        for tag in ("render", "include"):
            yield "{% " + tag + " 'k_" + kind + "_" + str(i) + "' %}"
            yield "a{% " + tag + " 'k_" + kind + "_" + str(i) + "' %}{% " + tag + " 'k_" + kind + "_" + str(i) + "' %}b"
