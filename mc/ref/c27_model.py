"""Reference models and case generators for C27 (macro/call argument binding, ``with`` scoping).

Nothing in here imports the library.  The models are a literal reading of

* the property statement: "A call binds positional arguments to the macro's parameters in
  order, then keyword arguments by name, falls back to parameter defaults and otherwise to
  undefined, and exposes surplus positional and keyword arguments as args and kwargs.  The
  with tag makes its keyword arguments visible only inside its block, where they shadow
  outer names."
* docs/optional_tags.md, "macro and call": defaults "are evaluated when a call expression is
  evaluated, not when the macro is defined"; "Excess arguments passed to call are collected
  into variables called args and kwargs" (iterated with ``for``; kwargs yields name/value pairs).
* docs/optional_tags.md, "with": "block scoped variables ... have the potential to shadow
  global variables or variables assigned with assign and capture".

Everything observable is a short alphanumeric string so that the binding can be read back
from the rendered output.
"""

from __future__ import annotations

import itertools
import re
from typing import Any
from typing import Iterator
from typing import Optional

UNDEF = "UNDEF"  # what the marker Undefined subclass of the harness renders as

PNAMES = ("p", "q", "r")
KNAMES = ("p", "q", "r", "x", "y")  # x, y are never parameters
KINDS = ("none", "lit", "var")

# distinct literals (mixed ints and strings; the second positional is an outer variable so that
# a bare word is also seen in positional position)
POS_SRC = ("11", "o2", "13", "'a4'")
POS_OUT = ("11", "a2", "13", "a4")
KW_SRC = ("'k1'", "22", "'k3'")
KW_OUT = ("k1", "22", "k3")
LIT_DEFAULT_SRC = {"p": "'dp'", "q": "42", "r": "'dr'"}
LIT_DEFAULT_OUT = {"p": "dp", "q": "42", "r": "dr"}
BASE_DATA = {"o2": "a2"}

MODES = ("G", "A", "L")  # where an outer-variable default gets its value from


def var_default_value(name: str, mode: str) -> str:
    """Value of the outer variable ``g<name>`` at the time of the call."""
    return {"G": "G", "A": "A", "L": "L"}[mode] + name


# ---------------------------------------------------------------------------
# signatures
# ---------------------------------------------------------------------------
Sig = tuple[tuple[str, str], ...]  # ((name, default kind), ...)


def signatures() -> list[Sig]:
    """Every ordered list of 0..3 distinct parameters over {p,q,r} x default kind."""
    out: list[Sig] = []
    for k in range(4):
        for names in itertools.permutations(PNAMES, k):
            for kinds in itertools.product(KINDS, repeat=k):
                out.append(tuple(zip(names, kinds)))
    return out


def is_canonical(sig: Sig) -> bool:
    names = [n for n, _ in sig]
    return names == sorted(names)


def has_var_default(sig: Sig) -> bool:
    return any(k == "var" for _, k in sig)


def sig_source(sig: Sig) -> str:
    parts = []
    for name, kind in sig:
        if kind == "none":
            parts.append(name)
        elif kind == "lit":
            parts.append(f"{name}: {LIT_DEFAULT_SRC[name]}")
        else:
            parts.append(f"{name}: g{name}")
    return ", ".join(parts)


def sig_label(sig: Sig) -> str:
    return "(" + ",".join(n + {"none": "", "lit": "=L", "var": "=V"}[k] for n, k in sig) + ")"


def macro_body(sig: Sig) -> str:
    ps = "".join(f"{n}={{{{ {n} }}}};" for n, _ in sig)
    return (
        "<" + ps + "args={{ args | join: ',' }};"
        "kw={% for kv in kwargs %}({{ kv[0] }}={{ kv[1] }}){% endfor %}>"
    )


def macro_source(sig: Sig, name: str = "m", style: int = 0, body: Optional[str] = None) -> str:
    s = sig_source(sig)
    if style == 0:
        head = f"{{% macro {name}{' ' + s if s else ''} %}}"
    else:  # quoted name and the optional comma after it
        head = f"{{% macro '{name}'{', ' + s if s else ''} %}}"
    return head + (macro_body(sig) if body is None else body) + "{% endmacro %}"


def mode_prefix(sig: Sig, mode: str) -> tuple[str, str, dict[str, str]]:
    """(source before the macro, source between macro and calls, render data)."""
    data = dict(BASE_DATA)
    pre = post = ""
    for name, kind in sig:
        if kind != "var":
            continue
        if mode == "G":
            data["g" + name] = "G" + name
        else:
            pre += f"{{% assign g{name} = 'A{name}' %}}"
            if mode == "L":
                post += f"{{% assign g{name} = 'L{name}' %}}"
    return pre, post, data


# ---------------------------------------------------------------------------
# calls
# ---------------------------------------------------------------------------
Call = tuple[str, tuple[str, ...]]  # (layout over {'P','K'}, keyword names in order)


def _layouts(n: int, k: int, which: str) -> list[str]:
    if which == "all":
        outs = []
        for pos in itertools.combinations(range(n + k), k):
            lay = ["P"] * (n + k)
            for i in pos:
                lay[i] = "K"
            outs.append("".join(lay))
        return outs
    outs = ["P" * n + "K" * k]
    if which == "edge" and n and k:
        outs.append("K" * k + "P" * n)
    return outs


def calls(which: str, max_pos: int = 4, max_kw: int = 3) -> list[Call]:
    """``which``: 'all' (every interleaving), 'edge' (keywords last + keywords first), 'last'."""
    out: list[Call] = []
    for n in range(max_pos + 1):
        for k in range(max_kw + 1):
            lays = _layouts(n, k, which)
            for names in itertools.product(KNAMES, repeat=k):
                for lay in lays:
                    out.append((lay, names))
    return out


def call_args_source(call: Call, pos_src: tuple[str, ...] = POS_SRC, kw_src: tuple[str, ...] = KW_SRC) -> str:
    lay, names = call
    i = j = 0
    parts = []
    for c in lay:
        if c == "P":
            parts.append(pos_src[i])
            i += 1
        else:
            parts.append(f"{names[j]}: {kw_src[j]}")
            j += 1
    return ", ".join(parts)


def call_source(call: Call, name: str = "m", style: int = 0, **kw: Any) -> str:
    a = call_args_source(call, **kw)
    if style == 0:
        return f"{{% call {name}{' ' + a if a else ''} %}}"
    return f"{{% call '{name}'{', ' + a if a else ''} %}}"


# ---------------------------------------------------------------------------
# the reference binder
# ---------------------------------------------------------------------------
class Expected:
    __slots__ = ("params", "how", "args", "kwargs", "mech")

    def __init__(self) -> None:
        self.params: dict[str, frozenset[str]] = {}  # name -> acceptable rendered values
        self.how: dict[str, str] = {}  # name -> which clause decided it
        self.args: list[str] = []
        self.kwargs: dict[str, list[str]] = {}  # name -> values of its occurrences, in order
        self.mech: set[str] = set()


def ref_bind(sig: Sig, call: Call, mode: str = "G", undef: str = UNDEF,
             pos_out: tuple[str, ...] = POS_OUT, kw_out: tuple[str, ...] = KW_OUT) -> Expected:
    lay, names = call
    n = lay.count("P")
    pnames = [nm for nm, _ in sig]
    e = Expected()
    # 1. positional arguments to parameters in order; surplus -> args
    for nm, val in zip(pnames, pos_out[:n]):
        e.params[nm] = frozenset([val])
        e.how[nm] = "positional"
        e.mech.add("pos")
    e.args = list(pos_out[len(pnames):n])
    if e.args:
        e.mech.add("surplus_pos")
    # 2. keyword arguments by name; surplus -> kwargs.  Duplicate names: either occurrence.
    by_name: dict[str, list[str]] = {}
    for nm, val in zip(names, kw_out):
        by_name.setdefault(nm, []).append(val)
    for nm, vals in by_name.items():
        if nm in pnames:
            over = nm in e.params
            e.params[nm] = frozenset(vals)
            e.how[nm] = ("dup-keyword" if len(vals) > 1 else "keyword") + ("-over-positional" if over else "")
            e.mech.add("kw_over_pos" if over else "kw")
        else:
            e.kwargs[nm] = vals
            e.mech.add("surplus_kw")
        if len(vals) > 1:
            e.mech.add("dup")
    # 3. defaults, 4. undefined
    for nm, kind in sig:
        if nm in e.params:
            continue
        if kind == "lit":
            e.params[nm] = frozenset([LIT_DEFAULT_OUT[nm]])
            e.how[nm] = "default-literal"
            e.mech.add("default_lit")
        elif kind == "var":
            e.params[nm] = frozenset([var_default_value(nm, mode)])
            e.how[nm] = "default-variable" + ("" if mode == "G" else "-" + mode)
            e.mech.add("default_var")
        else:
            e.params[nm] = frozenset([undef])
            e.how[nm] = "undefined"
            e.mech.add("undef")
    return e


_SEG = re.compile(r"^<((?:[a-z]=[A-Za-z0-9]*;)*)args=([A-Za-z0-9,]*);kw=((?:\([a-z]+=[A-Za-z0-9]*\))*)>$")
_PAIR = re.compile(r"\(([a-z]+)=([A-Za-z0-9]*)\)")


def parse_segment(seg: str) -> Optional[dict[str, Any]]:
    m = _SEG.match(seg)
    if not m:
        return None
    params = [f.split("=", 1) for f in m.group(1).split(";") if f]
    return {
        "params": [(a, b) for a, b in params],
        "args": m.group(2),
        "kw": _PAIR.findall(m.group(3)),
    }


def compare_segment(sig: Sig, exp: Expected, seg: str) -> tuple[list[tuple[str, str, str]], bool]:
    """-> ([(clause, feature, text)], kwargs_in_call_order)."""
    obs = parse_segment(seg)
    if obs is None:
        return [("output-shape", "unparseable", f"macro body rendered {seg!r}")], True
    bad: list[tuple[str, str, str]] = []
    if [a for a, _ in obs["params"]] != [n for n, _ in sig]:
        return [("output-shape", "parameters", f"macro body rendered {seg!r}")], True
    for name, val in obs["params"]:
        if val not in exp.params[name]:
            bad.append(("parameter", exp.how[name],
                        f"parameter {name} rendered {val!r}, expected {'/'.join(sorted(exp.params[name]))} "
                        f"({exp.how[name]})"))
    want_args = ",".join(exp.args)
    if obs["args"] != want_args:
        bad.append(("args", "surplus-positional" if exp.args else "no-surplus",
                    f"args rendered {obs['args']!r}, expected {want_args!r}"))
    got: dict[str, list[str]] = {}
    for k, v in obs["kw"]:
        got.setdefault(k, []).append(v)
    kw_ok = set(got) == set(exp.kwargs)
    if kw_ok:
        for k, vals in got.items():
            acc = exp.kwargs[k]
            if len(vals) > len(acc) or any(v not in acc for v in vals) or len(set(vals)) != len(vals):
                kw_ok = False
    if not kw_ok:
        dup = any(len(v) > 1 for v in exp.kwargs.values())
        feat = ("dup-" if dup else "") + ("surplus-keyword" if exp.kwargs else "no-surplus")
        bad.append(("kwargs", feat, f"kwargs rendered {obs['kw']!r}, expected pairs for {exp.kwargs!r}"))
    first_seen = [k for k in dict.fromkeys(k for k, _ in obs["kw"])]
    in_order = first_seen == list(exp.kwargs)
    return bad, in_order


# ---------------------------------------------------------------------------
# with blocks
# ---------------------------------------------------------------------------
WNAMES = ("v", "w")
# per-tag options: list of (name, 'lit' | 'ref')   ('ref' = copy of the *other* name as seen in the
# enclosing scope)
WITH_OPTIONS: tuple[tuple[tuple[str, str], ...], ...] = (
    (("v", "lit"),),
    (("v", "ref"),),
    (("w", "lit"),),
    (("w", "ref"),),
    (("v", "lit"), ("w", "lit")),
    (("w", "lit"), ("v", "lit")),
    # sibling references: an argument expression names a name that the same tag also binds.  The
    # statement makes the keyword arguments visible "only inside its block"; argument expressions are
    # not inside the block, so they see the enclosing scope (both argument orders, and the swap).
    (("v", "lit"), ("w", "ref")),
    (("w", "ref"), ("v", "lit")),
    (("w", "lit"), ("v", "ref")),
    (("v", "ref"), ("w", "lit")),
    (("v", "ref"), ("w", "ref")),
    (("w", "ref"), ("v", "ref")),
)
N_PLAIN_OPTIONS = 6  # options without sibling references
OUTER_KINDS = ("none", "global", "assign", "capture")
Forest = tuple[Any, ...]  # tuple of nodes; node = (option index, Forest)


def forest_shapes(n: int) -> list[Any]:
    """Ordered forests with exactly n nodes; a node is a tuple of child nodes."""
    if n == 0:
        return [()]
    out = []
    for first in range(1, n + 1):  # size of the first tree
        for kids in forest_shapes(first - 1):
            for rest in forest_shapes(n - first):
                out.append(((kids),) + rest)
    return out


def _label(shape: Any, opts: Iterator[int]) -> Forest:
    return tuple((next(opts), _label(node, opts)) for node in shape)


def forests(max_nodes: int, sibling: bool = False) -> list[Forest]:
    """Plain: every labelling with the first N_PLAIN_OPTIONS options.  ``sibling``: every labelling
    with all options that uses at least one sibling-reference option (disjoint from the plain set)."""
    out: list[Forest] = []
    nopts = len(WITH_OPTIONS) if sibling else N_PLAIN_OPTIONS
    for n in range(max_nodes + 1):
        for shape in forest_shapes(n):
            for opts in itertools.product(range(nopts), repeat=n):
                if sibling and max(opts, default=0) < N_PLAIN_OPTIONS:
                    continue
                out.append(_label(shape, iter(opts)))
    return out


def forest_size(f: Forest) -> int:
    return sum(1 + forest_size(kids) for _, kids in f)


def forest_depth(f: Forest) -> int:
    return max((1 + forest_depth(kids) for _, kids in f), default=0)


def other(name: str) -> str:
    return "w" if name == "v" else "v"


PROBE = "[{{ v }},{{ w }}]"


class WithEmitter:
    """Prints a forest and, in the same walk, evaluates the reference scope stack.

    ``scope``: name -> (rendered value, origin); origin is 'unbound', 'outer:<kind>',
    'with:lit' or 'with:ref'.  Every probe gets, per name, (expected value, oracle clause).
    """

    def __init__(self) -> None:
        self.n = 0

    @staticmethod
    def _clause(origin: str, shadowing: bool = False) -> str:
        if origin == "unbound":
            return "unbound-name-is-undefined"
        if origin.startswith("outer:"):
            return "outer-name-visible"
        if origin == "with:ref":
            return "inside:value-evaluated-in-enclosing-scope"
        return "inside:shadows-outer" if shadowing else "inside:visible"

    def emit(self, forest: Forest, scope: dict[str, tuple[str, str, str]],
             probes: list[dict[str, tuple[str, str]]]) -> str:
        # scope: name -> (value, origin, clause to cite while this binding is what a probe sees)
        src = PROBE
        probes.append({n: (scope[n][0], scope[n][2]) for n in WNAMES})
        for opt, kids in forest:
            self.n += 1
            tag_id = self.n
            args = []
            inner = dict(scope)
            bound = [a for a, _ in WITH_OPTIONS[opt]]
            for i, (name, kind) in enumerate(WITH_OPTIONS[opt]):
                shadowing = scope[name][1] != "unbound"
                if kind == "lit":
                    val = f"W{tag_id}{'ab'[i]}"
                    args.append(f"{name}: '{val}'")
                    inner[name] = (val, "with:lit", self._clause("with:lit", shadowing))
                else:
                    o = other(name)  # evaluated in the enclosing scope, also when this tag binds `o` too
                    args.append(f"{name}: {o}")
                    clause = self._clause("with:ref")
                    if o in bound:
                        clause = "args:sibling-not-visible-outside-block"
                    inner[name] = (scope[o][0], "with:ref", clause)
            src += "{% with " + ", ".join(args) + " %}" + self.emit(kids, inner, probes) + "{% endwith %}"
            src += PROBE
            after = {}
            for name in WNAMES:
                val, origin, clause = scope[name]
                if name in bound:
                    if origin == "unbound":
                        clause = "after:not-visible-outside-block"
                    elif origin.startswith("outer:"):
                        clause = "after:outer-value-restored"
                    else:
                        clause = "after:enclosing-with-restored"
                after[name] = (val, clause)
            probes.append(after)
        return src


_PROBE_RE = re.compile(r"\[([A-Za-z0-9]*),([A-Za-z0-9]*)\]")


def parse_probes(out: str) -> Optional[list[tuple[str, str]]]:
    found = _PROBE_RE.findall(out)
    if "".join(f"[{a},{b}]" for a, b in found) != out:
        return None
    return found


def with_contexts() -> list[dict[str, str]]:
    ctxs: list[dict[str, str]] = []
    for kv in OUTER_KINDS:
        for kw in OUTER_KINDS:
            ctxs.append({"wrapper": "none", "v": kv, "w": kw})
    for kw in OUTER_KINDS:
        ctxs.append({"wrapper": "for", "v": "loopvar", "w": kw})
    for kw in ("none", "global"):
        ctxs.append({"wrapper": "macro", "v": "param", "w": kw})
    return ctxs


def outer_setup(ctx: dict[str, str]) -> tuple[str, dict[str, Any], dict[str, tuple[str, str, str]]]:
    """(source prefix, render data, outer scope) for the names whose kind is global/assign/capture."""
    pre = ""
    data: dict[str, Any] = {}
    scope: dict[str, tuple[str, str, str]] = {}
    for name in WNAMES:
        kind = ctx[name]
        if kind == "none":
            scope[name] = (UNDEF, "unbound", "unbound-name-is-undefined")
        elif kind == "global":
            data[name] = "G" + name
            scope[name] = ("G" + name, "outer:global", "outer-name-visible")
        elif kind == "assign":
            pre += f"{{% assign {name} = 'A{name}' %}}"
            scope[name] = ("A" + name, "outer:assign", "outer-name-visible")
        elif kind == "capture":
            pre += f"{{% capture {name} %}}C{name}{{% endcapture %}}"
            scope[name] = ("C" + name, "outer:capture", "outer-name-visible")
    return pre, data, scope


def with_case(ctx: dict[str, str], forest: Forest) -> tuple[str, dict[str, Any], list[dict[str, tuple[str, str]]]]:
    """(template source, render data, expected probes in output order)."""
    pre, data, scope = outer_setup(ctx)
    probes: list[dict[str, tuple[str, str]]] = []
    if ctx["wrapper"] == "none":
        body = WithEmitter().emit(forest, scope, probes)
        return pre + body, data, probes
    if ctx["wrapper"] == "for":
        data["fv"] = ["F1", "F2"]
        allp: list[dict[str, tuple[str, str]]] = []
        body = ""
        for item in ("F1", "F2"):
            sc = dict(scope)
            sc["v"] = (item, "outer:loopvar", "outer-name-visible")
            one: list[dict[str, tuple[str, str]]] = []
            body = WithEmitter().emit(forest, sc, one)
            allp += one
        return pre + "{% for v in fv %}" + body + "{% endfor %}", data, allp
    # macro: v is a parameter, only globals are visible besides it
    sc = dict(scope)
    sc["v"] = ("P1", "outer:parameter", "outer-name-visible")
    body = WithEmitter().emit(forest, sc, probes)
    return pre + "{% macro m v %}" + body + "{% endmacro %}{% call m 'P1' %}", data, probes
