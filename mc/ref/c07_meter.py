"""Independent measurement of the template-local namespace (C07, reused by C08).

``RenderContext.assign`` is wrapped (from the harness side, nothing in /repo changes).  After every
call -- whether it returned or raised -- the wrapper recomputes, without looking at the library's
own carry field, the documented measure: the sum of ``sys.getsizeof(value)`` over the local variables
of the assigning context and of every ``parent_context`` ancestor (the namespaces of the templates
that rendered it).  The totals of one render are collected in a list.

If an attribute the wrapper depends on disappears the check fails loudly (HarnessBindingLost is a
BaseException so that no ``except Exception`` can turn it into a verdict).
"""

from __future__ import annotations

import sys
from typing import Any
from typing import Optional

_MISSING = object()


class HarnessBindingLost(BaseException):
    pass


_RECORD: Optional[list[int]] = None
_RAISED: Optional[list[Optional[str]]] = None
_INSTALLED = False
_CLS: Any = None


def fresh(v: Any) -> Any:
    """Structural copy of render data with newly created str objects.

    ``sys.getsizeof`` of a non-ASCII str grows once its UTF-8 form has been cached (pickling a Result that
    holds the string does that), so a str object shared between renders could be measured differently by two
    renders of one case.  Every render therefore gets its own copies (one-character latin-1 strings are
    interpreter singletons: see ``install``).
    """
    if isinstance(v, str):
        return v.encode("utf-8", "surrogatepass").decode("utf-8", "surrogatepass")
    if isinstance(v, list):
        return [fresh(i) for i in v]
    if isinstance(v, dict):
        return {k: fresh(i) for k, i in v.items()}
    return v


def chain_total(ctx: Any) -> int:
    total = 0
    hops = 0
    while ctx is not None:
        loc = getattr(ctx, "locals", _MISSING)
        if loc is _MISSING or not hasattr(loc, "values"):
            raise HarnessBindingLost("harness binding lost: RenderContext.locals is not a mapping any more")
        for v in list(loc.values()):
            total += sys.getsizeof(v)
        ctx = getattr(ctx, "parent_context", _MISSING)
        if ctx is _MISSING:
            raise HarnessBindingLost("harness binding lost: RenderContext.parent_context disappeared")
        hops += 1
        if hops > 10000:
            raise HarnessBindingLost("harness binding lost: parent_context chain does not end")
    return total


def install() -> None:
    """Wrap RenderContext.assign once per process."""
    global _INSTALLED, _CLS
    if _INSTALLED:
        return
    import liquid

    cls = getattr(liquid, "RenderContext", None)
    if cls is None or not callable(getattr(cls, "assign", None)):
        raise HarnessBindingLost("harness binding lost: liquid.RenderContext.assign does not exist")
    orig = cls.assign

    def assign(self: Any, key: str, val: Any) -> None:
        raised = None
        try:
            return orig(self, key, val)
        except BaseException as e:
            raised = type(e).__name__
            raise
        finally:
            if _RECORD is not None:
                _RECORD.append(chain_total(self))
                if _RAISED is not None:
                    _RAISED.append(raised)

    # One-character latin-1 strings are interpreter-wide singletons; a captured 'é' is that singleton.  Give all
    # of them their cached UTF-8 form now, so that their sys.getsizeof never changes during the run.
    import pickle

    for cp in range(128, 256):
        pickle.dumps(chr(cp))

    assign.__wrapped__ = orig  # type: ignore[attr-defined]
    cls.assign = assign
    _CLS = cls
    _INSTALLED = True
    _canary()


def metered(fn: Any, raised: Optional[list[Optional[str]]] = None) -> tuple[Any, list[int]]:
    """Run ``fn()``; return (its result, the namespace totals observed after each assign).

    ``raised`` (optional list) receives, per assign, the class name of the exception it raised or None.
    """
    global _RECORD, _RAISED
    if not _INSTALLED:
        install()
    rec: list[int] = []
    prev, _RECORD = _RECORD, rec
    prev_r, _RAISED = _RAISED, raised
    try:
        return fn(), rec
    finally:
        _RECORD = prev
        _RAISED = prev_r


def _canary() -> None:
    """The wrapper must see assign, capture and an assign inside a rendered partial (with its parent's size)."""
    import liquid

    env = liquid.Environment(loader=liquid.DictLoader({"canary": "{% assign k = 'partial' %}"}))
    t = env.from_string("{% assign z = 'q' %}{% capture y %}ab{% endcapture %}{% render 'canary' %}")
    _, rec = metered(lambda: t.render())
    want = [sys.getsizeof("q"), sys.getsizeof("q") + sys.getsizeof("ab"),
            sys.getsizeof("q") + sys.getsizeof("ab") + sys.getsizeof("partial")]
    if rec != want:
        raise HarnessBindingLost(f"harness binding lost: assign wrapper observed {rec}, expected {want} "
                                 "(tags no longer bind through RenderContext.assign / parent_context?)")
    from mc.util import run_coro

    _, rec2 = metered(lambda: run_coro(t.render_async()))
    if rec2 != want:
        raise HarnessBindingLost(f"harness binding lost: assign wrapper observed {rec2} in render_async, expected {want}")
