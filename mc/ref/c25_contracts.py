"""C25 -- contract predicates for the built-in filters.

Every clause is a literal reading of the property statement ("S") or of
``/repo/docs/filter_reference.md`` ("D#<section>") / ``docs/tag_reference.md``; the
provenance of each clause is in ``CLAUSES``.  A cell on which statement and docs are
silent, ambiguous or contradict each other raises ``Unspecified(reason)`` *before* the
observed result is looked at (the domain is a function of the input only): such cells are
executed, counted and never judged.

Nothing in this module imports the library.  The driver tells it how to recognise the
library's *undefined* object through ``set_undefined_predicate``.
"""

from __future__ import annotations

import math
import re
from decimal import Decimal
from fractions import Fraction
from typing import Any
from typing import Callable
from typing import Optional


class _Undef:
    """The filter input / argument is an undefined variable."""

    def __repr__(self) -> str:
        return "<undefined>"


UNDEF = _Undef()

_is_undefined: Callable[[Any], bool] = lambda v: False  # noqa: E731


def set_undefined_predicate(fn: Callable[[Any], bool]) -> None:
    global _is_undefined
    _is_undefined = fn


class Unspecified(Exception):
    """Statement and docs do not decide this cell."""

    def __init__(self, reason: str):
        super().__init__(reason)
        self.reason = reason


Fail = tuple[str, str, str]  # (clause, discriminating feature, message)

S = "property statement"
D = "docs/filter_reference.md#"

CLAUSES: dict[str, str] = {
    "returns": S + " (the filter returns a value for every input inside the clause's domain)",
    "size": S + ": size returns the length of sized values and 0 otherwise; " + D + "size (strings, arrays, hashes)",
    "str-method": S + ": case and whitespace filters behave like the corresponding string operations; non-string "
    "input is converted to a string (" + D + "capitalize/downcase/lstrip/rstrip/strip; undefined -> '' " + D + "downcase)",
    "squish": D + "squish: leading/trailing whitespace removed, other runs replaced with a single space",
    "strip_newlines": D + "strip_newlines: \\n and \\r\\n removed",
    "split-join": S + ": split followed by join with the same separator restores a non-empty string",
    "split-chars": D + "split: an undefined or empty argument splits at every character; result is an array of strings",
    "join": D + "join: items (converted to strings) separated by the argument string, default a single space",
    "new-list": S + ": ... return new lists (result is a list object distinct from the input/argument)",
    "input-not-mutated": S + ": ... return new lists (the input list is left as it was)",
    "reverse": D + "reverse: copy of the input array with the items in reverse order",
    "reverse-string": D + "reverse: a string input is returned unchanged (compared on rendered output)",
    "sort": D + "sort: copy of the input array with its elements sorted / sorted by the named property",
    "sort_natural": D + "sort_natural: sorted case-insensitively by lowercase string representation (of the property)",
    "uniq": D + "uniq: copy with duplicate elements removed (example keeps first occurrences in order); with a "
    "property name, one element per property value",
    "compact": D + "compact: nil values removed; with a property name, items whose property is missing or nil removed",
    "concat": D + "concat: new array joining input (nested input flattened) with the argument (not flattened)",
    "map": D + "map: property of each object extracted into a new array (missing -> nil, see " + D + "compact)",
    "where": D + "where: only objects whose named property equals the value / is truthy "
    "(docs/tag_reference.md: only false, nil and undefined are falsy), original order",
    "reject": D + "reject: only objects whose named property is not equal to the value / is falsy, original order",
    "slice": D + "slice: zero-based start (negative counts from the end), length defaulting to 1, of string or array",
    "first": D + "first: first item of array-like input; undefined, empty or not a sequence (incl. string) -> nil",
    "last": D + "last: last item of array-like input; undefined, empty, string or number -> nil",
    "truncate:unchanged": S + ": truncate returns its input unchanged when it is no longer than the requested length",
    "truncate:ends-with-ellipsis": S + ": ... otherwise a string ending in the ellipsis",
    "truncate:length-bound": S + ": ... and no longer than the larger of the requested length and the ellipsis",
    "truncate:prefix": D + "truncate: truncated to length minus the length of the second argument, second argument appended",
    "truncatewords:at-most-n": S + ": truncatewords keeps at most the requested number of words (a prefix of the input's words)",
    "truncatewords:truncated": D + "truncatewords: truncated to the specified number of words with the second argument appended",
    "truncatewords:unchanged": D + "truncatewords: input with fewer than the given number of words is returned unchanged",
    "arith:value": S + ": agree with exact integer or decimal arithmetic; coercion per " + D + "<filter> "
    "(numeric strings converted, non-numeric -> 0)",
    "arith:type": S + " (exact *integer* arithmetic for integer operands) and docs examples "
    "(4|plus:2 -> 6, 5.0|ceil -> 5, 20|divided_by:7.0 -> float)",
    "default:argument": S + ": default returns its argument exactly for nil, false, undefined and empty values; "
    + D + "default (allow_false, no argument -> empty string)",
    "default:input": D + "default: ... or return the input unchanged otherwise (0 does not trigger the default)",
}


# ---------------------------------------------------------------------------
# structural comparison (type strict)
# ---------------------------------------------------------------------------
def is_nil(v: Any) -> bool:
    """nil as a template observes it: None, an undefined, or an object that equals nil."""
    if v is None or v is UNDEF or _is_undefined(v):
        return True
    if isinstance(v, (bool, int, float, str, list, dict, tuple, range)):
        return False
    try:
        return bool(v == None)  # noqa: E711  the library's null object defines __eq__
    except Exception:  # noqa: BLE001
        return False


def same(a: Any, b: Any) -> bool:
    """Type-strict structural equality; any two nils are the same."""
    if is_nil(a) or is_nil(b):
        return is_nil(a) and is_nil(b)
    if isinstance(a, list) or isinstance(b, list):
        return isinstance(a, list) and isinstance(b, list) and len(a) == len(b) and all(map(same, a, b))
    if isinstance(a, dict) or isinstance(b, dict):
        return (
            isinstance(a, dict) and isinstance(b, dict) and len(a) == len(b)
            and all(k in b and same(v, b[k]) for k, v in a.items())
        )
    if type(a) is not type(b):
        return False
    return bool(a == b)


def show(v: Any) -> str:
    r = repr(v)
    return r if len(r) <= 80 else r[:77] + "..."


def truthy(v: Any) -> bool:
    """docs/tag_reference.md#if: only false, nil and undefined are falsy."""
    return not (is_nil(v) or v is False)


def is_num(v: Any) -> bool:
    return isinstance(v, (int, float)) and not isinstance(v, bool)


def flat(lst: list[Any]) -> bool:
    return not any(isinstance(e, (list, tuple)) for e in lst)


def flatten(lst: list[Any]) -> list[Any]:
    out: list[Any] = []
    for e in lst:
        if isinstance(e, list):
            out.extend(flatten(e))
        else:
            out.append(e)
    return out


# ---------------------------------------------------------------------------
# helpers shared by the judges
# ---------------------------------------------------------------------------
def _value(f: str, res: tuple[Any, ...]) -> tuple[Optional[Any], list[Fail]]:
    """The returned value, or the 'returns' failure when an in-domain call raised."""
    if res[0] != "ok":
        return None, [("returns", "exc=" + str(res[1]), f"{f}: raised {res[1]} on an input inside the contract's domain")]
    return res[1], []


def _arg(args: list[Any], i: int, default: Any) -> Any:
    return args[i] if i < len(args) else default


def _expect(clause: str, feature: str, f: str, got: Any, want: Any) -> list[Fail]:
    if same(got, want):
        return []
    return [(clause, feature, f"{f}: returned {show(got)} ({type(got).__name__}), contract says {show(want)} "
             f"({type(want).__name__})")]


def _new_list(f: str, val: Any, *originals: Any) -> list[Fail]:
    if type(val) is not list:
        return [("new-list", "type=" + type(val).__name__, f"{f}: returned a {type(val).__name__}, not a list")]
    for i, o in enumerate(originals):
        if val is o:
            return [("new-list", "aliases=" + ("input" if i == 0 else "argument"),
                     f"{f}: returned the very list object it was given as "
                     f"{'input' if i == 0 else 'argument'} instead of a new list")]
    return []


# ---------------------------------------------------------------------------
# size
# ---------------------------------------------------------------------------
def j_size(f: str, x: Any, args: list[Any], kw: dict[str, Any], res: Any, ctx: dict[str, Any]) -> list[Fail]:
    val, fails = _value(f, res)
    if fails:
        return fails
    want = len(x) if isinstance(x, (str, list, dict, range, tuple)) else 0
    return _expect("size", "sized" if want or isinstance(x, (str, list, dict, range)) else "unsized", f, val, want)


# ---------------------------------------------------------------------------
# case / whitespace
# ---------------------------------------------------------------------------
STR_OPS: dict[str, Callable[[str], str]] = {
    "upcase": str.upper, "downcase": str.lower, "capitalize": str.capitalize,
    "strip": str.strip, "lstrip": str.lstrip, "rstrip": str.rstrip,
    "squish": lambda s: " ".join(s.split()),
    "strip_newlines": lambda s: s.replace("\r\n", "").replace("\n", ""),
}
_CONVERTS_NON_STRINGS = {"capitalize", "downcase", "lstrip", "rstrip", "strip"}  # documented per filter


def _text(f: str, x: Any) -> str:
    if isinstance(x, str):
        return x
    if x is UNDEF:
        if f == "downcase":
            return ""
        raise Unspecified("undefined input to a string filter other than downcase (docs silent)")
    if is_num(x):
        if f in _CONVERTS_NON_STRINGS:
            return str(x) if isinstance(x, int) else repr(x)
        raise Unspecified("non-string input: conversion not documented for this filter")
    raise Unspecified("nil/bool/array/hash input to a string filter (string form not documented)")


def j_str(f: str, x: Any, args: list[Any], kw: dict[str, Any], res: Any, ctx: dict[str, Any]) -> list[Fail]:
    want = STR_OPS[f](_text(f, x))
    val, fails = _value(f, res)
    if fails:
        return fails
    clause = f if f in ("squish", "strip_newlines") else "str-method"
    return _expect(clause, "input=" + type(x).__name__, f, str(val) if type(val) is not str and isinstance(val, str) else val, want)


# ---------------------------------------------------------------------------
# split / join
# ---------------------------------------------------------------------------
def j_split_join(f: str, x: Any, args: list[Any], kw: dict[str, Any], res: Any, ctx: dict[str, Any]) -> list[Fail]:
    sep = args[0]
    if not isinstance(x, str) or not x or not isinstance(sep, str):
        raise Unspecified("split/join round trip is stated for non-empty strings and string separators")
    val, fails = _value(f, res)
    if fails:
        return fails
    if x == sep:
        feature = "s==sep"
    elif sep == " ":
        feature = "sep==' '"
    elif sep == "":
        feature = "sep==''"
    else:
        feature = "other"
    return _expect("split-join", feature, "split|join", val, x)


def j_split(f: str, x: Any, args: list[Any], kw: dict[str, Any], res: Any, ctx: dict[str, Any]) -> list[Fail]:
    sep = args[0]
    if not isinstance(x, str) or not (sep is UNDEF or sep == ""):
        raise Unspecified("split alone is only pinned down for an empty or undefined separator")
    val, fails = _value(f, res)
    if fails:
        return fails
    return _expect("split-chars", "sep=" + ("undefined" if sep is UNDEF else "''"), f, val, list(x))


def j_join(f: str, x: Any, args: list[Any], kw: dict[str, Any], res: Any, ctx: dict[str, Any]) -> list[Fail]:
    sep = _arg(args, 0, " ")
    if not isinstance(x, list) or not flat(x) or not isinstance(sep, str):
        raise Unspecified("join: input not a flat array or separator not a string")
    if not all(isinstance(e, str) or (isinstance(e, int) and not isinstance(e, bool)) for e in x):
        raise Unspecified("join: string form of nil/float/hash items not documented")
    val, fails = _value(f, res)
    if fails:
        return fails
    return _expect("join", "default-sep" if not args else "sep", f, val, sep.join(str(e) for e in x))


# ---------------------------------------------------------------------------
# array filters that return new lists
# ---------------------------------------------------------------------------
def _array_common(f: str, x: Any, val: Any, ctx: dict[str, Any], *others: Any) -> list[Fail]:
    fails = _new_list(f, val, x, *others)
    if not same(x, ctx["x_pristine"]):
        fails.append(("input-not-mutated", "input", f"{f}: input list changed from {show(ctx['x_pristine'])} to {show(x)}"))
    return fails


def _need_flat_list(f: str, x: Any) -> None:
    if not isinstance(x, list):
        raise Unspecified(f"{f}: input is not an array")
    if not flat(x):
        raise Unspecified("nested array input (flattening is documented for concat only)")


def j_reverse(f: str, x: Any, args: list[Any], kw: dict[str, Any], res: Any, ctx: dict[str, Any]) -> list[Fail]:
    _need_flat_list(f, x)
    val, fails = _value(f, res)
    if fails:
        return fails
    return _array_common(f, x, val, ctx) or _expect("reverse", "order", f, val, list(reversed(ctx["x_pristine"])))


def j_reverse_text(f: str, x: Any, args: list[Any], kw: dict[str, Any], res: Any, ctx: dict[str, Any]) -> list[Fail]:
    if not isinstance(x, str):
        raise Unspecified("reverse-string clause is about string input")
    _val, fails = _value("reverse", res)
    if fails:
        return fails
    return _expect("reverse-string", "text", "reverse", ctx["text"], x)


def _sortable_plain(x: list[Any]) -> None:
    if all(is_num(e) for e in x) or all(isinstance(e, str) for e in x):
        return
    raise Unspecified("sort: order of mixed-type / nil / hash items not documented")


def _keyed(f: str, x: list[Any], key: Any, need_key: bool = True) -> None:
    if not isinstance(key, str) or not key:
        raise Unspecified(f"{f}: property name is not a non-empty string")
    if not all(isinstance(e, dict) for e in x):
        raise Unspecified(f"{f}: with a property name the input should be an array of objects")
    if need_key and not all(key in e for e in x):
        raise Unspecified(f"{f}: objects without the named property (position not documented)")


def _is_sorted(vals: list[Any]) -> bool:
    return all(not (b < a) for a, b in zip(vals, vals[1:]))


def _permutation(a: list[Any], b: list[Any]) -> bool:
    rest = list(b)
    for e in a:
        for i, o in enumerate(rest):
            if same(e, o):
                del rest[i]
                break
        else:
            return False
    return not rest


def j_sort(f: str, x: Any, args: list[Any], kw: dict[str, Any], res: Any, ctx: dict[str, Any]) -> list[Fail]:
    _need_flat_list(f, x)
    natural = f == "sort_natural"
    if args:
        key = args[0]
        _keyed(f, x, key)
        props = [e[key] for e in x]
        if natural:
            if not all(isinstance(p, str) or is_num(p) for p in props):
                raise Unspecified("sort_natural: string representation of nil/bool/hash property not documented")
        else:
            _sortable_plain(props)
        getter: Callable[[Any], Any] = (lambda e: str(e[key] if not isinstance(e[key], float) else repr(e[key])).lower()) \
            if natural else (lambda e: e[key])
    else:
        if natural:
            if not all(isinstance(e, str) or (isinstance(e, int) and not isinstance(e, bool)) for e in x):
                raise Unspecified("sort_natural: string representation of nil/float/bool/hash items not documented")
            getter = lambda e: str(e).lower()  # noqa: E731
        else:
            _sortable_plain(x)
            getter = lambda e: e  # noqa: E731
    val, fails = _value(f, res)
    if fails:
        return fails
    fails = _array_common(f, x, val, ctx)
    if fails:
        return fails
    pristine = ctx["x_pristine"]
    feature = "keyed" if args else "plain"
    if not _permutation(val, pristine):
        return [(f, feature + ":membership", f"{f}: {show(val)} is not a permutation of the input {show(pristine)}")]
    try:
        keys = [getter(e) for e in val]
    except Exception:  # noqa: BLE001
        return [(f, feature + ":membership", f"{f}: result items {show(val)} are not the input's items")]
    if not _is_sorted(keys):
        return [(f, feature + ":order", f"{f}: {show(val)} is not in ascending order of {show(keys)}")]
    return []


def j_uniq(f: str, x: Any, args: list[Any], kw: dict[str, Any], res: Any, ctx: dict[str, Any]) -> list[Fail]:
    _need_flat_list(f, x)
    if any(isinstance(e, (bool, float)) for e in x):
        raise Unspecified("uniq: equality between bool/float/int items not documented")
    if args:
        key = args[0]
        _keyed(f, x, key)
        if any(isinstance(e[key], (bool, float, list, dict)) for e in x):
            raise Unspecified("uniq: equality between bool/float/compound property values not documented")
        ident: Callable[[Any], Any] = lambda e: e[key]  # noqa: E731
    else:
        ident = lambda e: e  # noqa: E731
    val, fails = _value(f, res)
    if fails:
        return fails
    fails = _array_common(f, x, val, ctx)
    if fails:
        return fails
    want: list[Any] = []
    seen: list[Any] = []
    for e in ctx["x_pristine"]:
        k = ident(e)
        if not any(same(k, s) for s in seen):
            seen.append(k)
            want.append(e)
    return _expect("uniq", "keyed" if args else "plain", f, val, want)


def j_compact(f: str, x: Any, args: list[Any], kw: dict[str, Any], res: Any, ctx: dict[str, Any]) -> list[Fail]:
    _need_flat_list(f, x)
    pristine = ctx["x_pristine"]
    if args:
        key = args[0]
        _keyed(f, x, key, need_key=False)
        missing = any(key not in e for e in x)
        want = [e for e in pristine if e.get(key) is not None]
        feature = "keyed:item-without-property" if missing else "keyed"
    else:
        want = [e for e in pristine if e is not None]
        feature = "plain"
    val, fails = _value(f, res)
    if fails:
        return [(c, feature + ":" + ft, m) for c, ft, m in fails]
    return _array_common(f, x, val, ctx) or _expect("compact", feature, f, val, want)


def j_concat(f: str, x: Any, args: list[Any], kw: dict[str, Any], res: Any, ctx: dict[str, Any]) -> list[Fail]:
    y = args[0]
    if not isinstance(y, list):
        raise Unspecified("concat: argument is not an array (raises; error classes out of scope)")
    if x is UNDEF:
        # membership of an undefined input is not documented; "returns a new list" still is
        val, fails = _value(f, res)
        if fails:
            return fails
        fails = _new_list(f, val, None, y)
        return [(c, "input=undefined:" + ft, m) for c, ft, m in fails]
    if not isinstance(x, list):
        raise Unspecified("concat: conversion of non-array input (docs example and text disagree)")
    val, fails = _value(f, res)
    if fails:
        return fails
    fails = _array_common(f, x, val, ctx, y)
    if not same(y, ctx["a_pristine"][0]):
        fails.append(("input-not-mutated", "argument", f"concat: argument list changed to {show(y)}"))
    if fails:
        return fails
    return _expect("concat", "nested" if not flat(x) else "flat", f, val, flatten(ctx["x_pristine"]) + list(ctx["a_pristine"][0]))


def _cross_type_equal(p: Any, t: Any) -> bool:
    return (isinstance(p, (bool, int, float)) and isinstance(t, (bool, int, float))
            and type(p) is not type(t) and p == t)


def _dicts_only(f: str, x: Any) -> None:
    _need_flat_list(f, x)
    if not all(isinstance(e, dict) for e in x):
        raise Unspecified(f"{f}: items that are not objects with properties")


def j_map(f: str, x: Any, args: list[Any], kw: dict[str, Any], res: Any, ctx: dict[str, Any]) -> list[Fail]:
    _dicts_only(f, x)
    key = args[0]
    if not isinstance(key, str) or not key:
        raise Unspecified("map: property name is not a non-empty string")
    val, fails = _value(f, res)
    if fails:
        return fails
    fails = _array_common(f, x, val, ctx)
    if fails:
        return fails
    return _expect("map", "missing-property" if any(key not in e for e in x) else "all-present", f, val,
                   [e.get(key) for e in ctx["x_pristine"]])


def j_where_reject(f: str, x: Any, args: list[Any], kw: dict[str, Any], res: Any, ctx: dict[str, Any]) -> list[Fail]:
    _dicts_only(f, x)
    key = args[0]
    if not isinstance(key, str) or not key:
        raise Unspecified(f"{f}: property name is not a non-empty string")
    has_target = len(args) > 1
    if has_target:
        t = args[1]
        # docs: "objects that have a property ... equal to a value, given as the second argument": any explicit
        # scalar value -- including 0, 0.0, "" and false -- is compared for equality.  nil/undefined ("not given"?)
        # and compound values are left alone, and so is every list in which equality would have to be decided
        # between numbers/bools of different types (1 vs true, 0 vs false, 0 vs 0.0: C12's business).
        if t is None or t is UNDEF or isinstance(t, (list, dict)):
            raise Unspecified(f"{f}: nil/undefined/compound comparison value (docs do not say whether it counts as given)")
        if any(_cross_type_equal(e.get(key), t) for e in x):
            raise Unspecified(f"{f}: comparison value equal to a property of another numeric/bool type "
                              "(equality across types is another property's business)")
        match: Callable[[Any], bool] = lambda v: same(v, t)  # noqa: E731
    else:
        match = truthy
    if f == "reject" and any(key not in e for e in x):
        raise Unspecified("reject: objects without the named property (docs ambiguous)")
    pristine = ctx["x_pristine"]
    if f == "where":
        want = [e for e in pristine if key in e and match(e[key])]
    else:
        want = [e for e in pristine if not match(e[key])]
    val, fails = _value(f, res)
    if fails:
        return fails
    fails = _array_common(f, x, val, ctx)
    if fails:
        return fails
    if has_target:
        feature = "value" if args[1] else "value:python-falsy"
    else:
        zeroish = any(key in e and is_num(e[key]) and e[key] == 0 for e in x)
        feature = "truthiness:zero-valued-property" if zeroish else "truthiness"
    return _expect(f, feature, f, val, want)


# ---------------------------------------------------------------------------
# slice / first / last
# ---------------------------------------------------------------------------
def _is_int(v: Any) -> bool:
    return isinstance(v, int) and not isinstance(v, bool)


def j_slice(f: str, x: Any, args: list[Any], kw: dict[str, Any], res: Any, ctx: dict[str, Any]) -> list[Fail]:
    if not isinstance(x, (str, list)):
        raise Unspecified("slice: input is neither string nor array")
    start, length = args[0], _arg(args, 1, 1)
    if not _is_int(start) or not _is_int(length):
        raise Unspecified("slice: non-integer start/length")
    if length < 0:
        raise Unspecified("slice: negative length (docs silent)")
    n = len(x)
    if start < 0:
        start = n + start
        if start < 0:
            raise Unspecified("slice: negative start beyond the beginning of the sequence (docs silent)")
    want = ctx["x_pristine"][start:start + length]
    val, fails = _value(f, res)
    if fails:
        return fails
    feature = ("string" if isinstance(x, str) else "array") + (":neg-start" if args[0] < 0 else "")
    fails = _expect("slice", feature, f, val, want)
    if not fails and isinstance(x, list) and not same(x, ctx["x_pristine"]):
        fails.append(("input-not-mutated", "slice", f"slice: input list changed to {show(x)}"))
    return fails


def j_first_last(f: str, x: Any, args: list[Any], kw: dict[str, Any], res: Any, ctx: dict[str, Any]) -> list[Fail]:
    idx = 0 if f == "first" else -1
    if isinstance(x, (list, range)):
        want = x[idx] if len(x) else None
        feature = "array" if len(x) else "empty"
    elif x is UNDEF:
        want, feature = None, "undefined"
    elif isinstance(x, str):
        want, feature = None, "string"
    elif is_num(x):
        want, feature = None, "number"
    elif f == "first" and (x is None or isinstance(x, bool)):
        want, feature = None, "not-a-sequence"
    elif f == "first" and isinstance(x, dict) and not x:
        want, feature = None, "empty"
    else:
        raise Unspecified(f"{f}: item selected from a hash / result for nil or bool input not documented")
    val, fails = _value(f, res)
    if fails:
        return fails
    return _expect(f, feature, f, val, want)


# ---------------------------------------------------------------------------
# truncate / truncatewords
# ---------------------------------------------------------------------------
def j_truncate(f: str, x: Any, args: list[Any], kw: dict[str, Any], res: Any, ctx: dict[str, Any]) -> list[Fail]:
    n, e = _arg(args, 0, 50), _arg(args, 1, "...")
    if not isinstance(x, str) or not _is_int(n) or not isinstance(e, str):
        raise Unspecified("truncate: non-string input / non-integer length / non-string ellipsis")
    val, fails = _value(f, res)
    if fails:
        return fails
    if type(val) is not str:
        return [("truncate:unchanged" if len(x) <= n else "truncate:ends-with-ellipsis", "type", f"truncate: returned {show(val)}")]
    where = f"'{x}' | truncate: {n}, '{e}' -> '{val}'"
    if len(x) <= n:
        if val != x:
            return [("truncate:unchanged", "len(s)==n" if len(x) == n else "len(s)<n",
                     f"{where}: input is no longer than the requested length but was changed")]
        return []
    short = "n<len(ellipsis)" if n < len(e) else "n>=len(ellipsis)"
    if not val.endswith(e):
        return [("truncate:ends-with-ellipsis", short, f"{where}: does not end with the ellipsis")]
    if len(val) > max(n, len(e)):
        return [("truncate:length-bound", short, f"{where}: {len(val)} characters, more than max({n}, {len(e)})")]
    if n >= len(e) and val != x[: n - len(e)] + e:
        return [("truncate:prefix", short, f"{where}: documented result is '{x[: n - len(e)] + e}'")]
    return []


def j_truncatewords(f: str, x: Any, args: list[Any], kw: dict[str, Any], res: Any, ctx: dict[str, Any]) -> list[Fail]:
    n, e = _arg(args, 0, 15), _arg(args, 1, "...")
    if not isinstance(x, str) or not _is_int(n) or not isinstance(e, str):
        raise Unspecified("truncatewords: non-string input / non-integer count / non-string ellipsis")
    if n < 1:
        raise Unspecified("truncatewords: requested number of words < 1 (docs silent)")
    val, fails = _value(f, res)
    if fails:
        return fails
    if type(val) is not str:
        return [("truncatewords:at-most-n", "type", f"truncatewords: returned {show(val)}")]
    words = x.split()
    where = f"{x!r} | truncatewords: {n}, {e!r} -> {val!r}"
    forms = [val] + ([val[: len(val) - len(e)]] if e and val.endswith(e) else [])
    if not any(len(w) <= n and w == words[: len(w)] for w in (fm.split() for fm in forms)):
        return [("truncatewords:at-most-n", "more-than-n" if all(len(fm.split()) > n for fm in forms) else "not-a-prefix",
                 f"{where}: does not keep at most {n} leading words of the input")]
    if len(words) > n:
        if not val.endswith(e) or val[: len(val) - len(e)].split() != words[:n]:
            return [("truncatewords:truncated", "len(words)>n", f"{where}: documented result keeps exactly the first {n} words "
                     "and appends the second argument")]
    elif len(words) < n and val != x:
        feature = "whitespace-normalised" if val == " ".join(words) else "other"
        return [("truncatewords:unchanged", feature, f"{where}: input has fewer than {n} words but was changed")]
    return []


# ---------------------------------------------------------------------------
# arithmetic
# ---------------------------------------------------------------------------
_INT_RE = re.compile(r"-?[0-9]+\Z")
_FLOAT_RE = re.compile(r"-?[0-9]+\.[0-9]+\Z")
_ARG_DEFAULTS_TO_ZERO = {"plus", "minus", "times", "at_least", "at_most"}
_INPUT_DEFAULTS_TO_ZERO = {"plus", "minus", "times", "at_least", "at_most", "divided_by", "modulo", "abs", "ceil", "floor"}


def coerce(f: str, v: Any, role: str) -> Any:
    """The documented coercion of an operand to int/float."""
    if isinstance(v, bool):
        raise Unspecified("bool operand (docs silent)")
    if isinstance(v, (int, float)):
        return v
    if isinstance(v, str):
        if _INT_RE.match(v):
            return int(v)
        if _FLOAT_RE.match(v):
            return float(v)
        if any(c.isdigit() for c in v):
            raise Unspecified("string that is neither a plain integer/float representation nor digit-free")
    elif not (v is None or v is UNDEF or isinstance(v, (list, dict))):
        raise Unspecified("operand type outside the pools")
    # cannot be cast to a number
    if role == "input":
        if f in _INPUT_DEFAULTS_TO_ZERO:
            return 0
        raise Unspecified(f"{f}: non-numeric input (docs silent)")
    if f in _ARG_DEFAULTS_TO_ZERO:
        return 0
    raise Unspecified(f"{f}: non-numeric argument (raises or undocumented; error classes out of scope)")


def exact(v: Any) -> Fraction:
    """int -> itself; float -> the decimal number its shortest representation denotes."""
    return Fraction(v) if isinstance(v, int) else Fraction(Decimal(repr(v)))


def _num_result(f: str, feature: str, val: Any, want_type: Optional[type], want: Any) -> list[Fail]:
    if not is_num(val):
        return [("arith:type", feature, f"{f}: returned {show(val)} ({type(val).__name__}), expected a number")]
    if val != want:
        if isinstance(want, float) and isinstance(val, float) and abs(val - want) <= math.ulp(want):
            feature += ":off-by-one-ulp"
        return [("arith:value", feature, f"{f}: returned {val!r}, exact arithmetic gives {want!r}")]
    if want_type is not None and type(val) is not want_type:
        return [("arith:type", feature, f"{f}: returned {val!r} ({type(val).__name__}), expected {want_type.__name__}")]
    return []


def j_math_binary(f: str, x: Any, args: list[Any], kw: dict[str, Any], res: Any, ctx: dict[str, Any]) -> list[Fail]:
    a, b = coerce(f, x, "input"), coerce(f, args[0], "arg")
    fa, fb = exact(a), exact(b)
    ints = isinstance(a, int) and isinstance(b, int)
    feature = "int" if ints else "decimal"
    want: Any
    want_type: Optional[type] = int if ints else float
    if f in ("divided_by", "modulo") and fb == 0:
        raise Unspecified("division by zero (raises; error classes out of scope)")
    if f == "plus":
        q = fa + fb
    elif f == "minus":
        q = fa - fb
    elif f == "times":
        q = fa * fb
    elif f == "divided_by":
        if ints:
            q = Fraction(math.floor(fa / fb))
        elif isinstance(b, float):
            q = fa / fb
        else:
            raise Unspecified("divided_by: float input with integer divisor (docs 'rounded down if the divisor is an "
                              "integer' vs statement 'decimal arithmetic')")
    elif f == "modulo":
        quo = fa / fb
        r_floor, r_trunc = fa - fb * math.floor(quo), fa - fb * math.trunc(quo)
        if r_floor != r_trunc:
            raise Unspecified("modulo: sign convention of a non-zero remainder for operands of opposite sign (docs silent)")
        q = r_floor
    else:  # at_least / at_most
        if fa == fb:
            want_type = None if type(a) is not type(b) else type(a)
            q = fa
        else:
            w = (a if fa > fb else b) if f == "at_least" else (a if fa < fb else b)
            q, want_type = exact(w), type(w)
            feature = "int" if isinstance(w, int) else "decimal"
        val, fails = _value(f, res)
        if fails:
            return fails
        want = int(q) if want_type is int or (want_type is None and q.denominator == 1) else float(q)
        return _num_result(f, feature, val, want_type, want)
    val, fails = _value(f, res)
    if fails:
        # discriminating input feature: Decimal's default context holds 28 significant digits
        big = f in ("divided_by", "modulo") and abs(fa / fb) >= 10**28
        return [(c, ("quotient>=10**28:" if big else "") + ft, m) for c, ft, m in fails]
    want = int(q) if ints else float(q)
    return _num_result(f, feature, val, want_type, want)


def j_math_unary(f: str, x: Any, args: list[Any], kw: dict[str, Any], res: Any, ctx: dict[str, Any]) -> list[Fail]:
    a = coerce(f, x, "input")
    fa = exact(a)
    feature = "int" if isinstance(a, int) else "decimal"
    if f == "abs":
        want: Any = abs(a)
        want_type: Optional[type] = type(a)
    elif f == "ceil":
        want, want_type = math.ceil(fa), int
    elif f == "floor":
        want, want_type = math.floor(fa), int
    else:
        raise AssertionError(f)
    val, fails = _value(f, res)
    if fails:
        return fails
    return _num_result(f, feature, val, want_type, want)


def j_round(f: str, x: Any, args: list[Any], kw: dict[str, Any], res: Any, ctx: dict[str, Any]) -> list[Fail]:
    a = coerce(f, x, "input")
    if args:
        d = args[0]
        if isinstance(d, str) and _INT_RE.match(d):
            d = int(d)
        if not _is_int(d):
            raise Unspecified("round: number of digits that is not an integer (docs silent)")
        if d < 0:
            raise Unspecified("round: negative number of decimal places (docs silent)")
    else:
        d = 0
    fa = exact(a)
    scaled = fa * 10**d
    lo = math.floor(scaled)
    if scaled - lo == Fraction(1, 2):
        raise Unspecified("round: exact tie (rounding mode not documented)")
    nearest = Fraction(lo if scaled - lo < Fraction(1, 2) else lo + 1, 10**d)
    val, fails = _value(f, res)
    if fails:
        return fails
    feature = ("int" if isinstance(a, int) else "decimal") + (":digits" if d else "")
    if d == 0:
        return _num_result(f, feature, val, int, int(nearest))
    if isinstance(a, int):
        return _num_result(f, feature, val, None, a)
    return _num_result(f, feature, val, float, float(nearest))


# ---------------------------------------------------------------------------
# default
# ---------------------------------------------------------------------------
def j_default(f: str, x: Any, args: list[Any], kw: dict[str, Any], res: Any, ctx: dict[str, Any]) -> list[Fail]:
    arg = _arg(args, 0, "")
    allow_false = kw.get("allow_false", False)
    if isinstance(x, range) and len(x) == 0:
        raise Unspecified("default: empty range (docs name strings, arrays and objects)")
    if x is False:
        use_default, feature = (not allow_false), "false"
    elif x is None:
        use_default, feature = True, "nil"
    elif x is UNDEF:
        use_default, feature = True, "undefined"
    elif isinstance(x, (str, list, dict)) and len(x) == 0:
        use_default, feature = True, "empty:" + type(x).__name__
    else:
        use_default, feature = False, "other:" + type(x).__name__
    if allow_false:
        feature += ":allow_false"
    val, fails = _value(f, res)
    if fails:
        return fails
    if use_default:
        if arg is UNDEF:
            ok = _is_undefined(val)
        elif isinstance(arg, (list, dict)):
            ok = same(val, ctx["a_pristine"][0])
        else:
            ok = (val is None) if arg is None else same(val, arg)
        if not ok:
            return [("default:argument", feature, f"default: input {show(x)} should yield the argument {show(arg)} exactly, "
                     f"got {show(val)} ({type(val).__name__})")]
        return []
    if x is UNDEF:
        raise AssertionError("unreachable")
    if not same(val, ctx["x_pristine"]) or is_nil(val):
        return [("default:input", feature, f"default: input {show(x)} should be returned unchanged, got {show(val)}")]
    return []


JUDGES: dict[str, Callable[..., list[Fail]]] = {
    "size": j_size,
    **{name: j_str for name in STR_OPS},
    "split_join": j_split_join, "split": j_split, "join": j_join,
    "reverse": j_reverse, "reverse_text": j_reverse_text, "sort": j_sort, "sort_natural": j_sort,
    "uniq": j_uniq, "compact": j_compact, "concat": j_concat, "map": j_map,
    "where": j_where_reject, "reject": j_where_reject,
    "slice": j_slice, "first": j_first_last, "last": j_first_last,
    "truncate": j_truncate, "truncatewords": j_truncatewords,
    "plus": j_math_binary, "minus": j_math_binary, "times": j_math_binary, "divided_by": j_math_binary,
    "modulo": j_math_binary, "at_least": j_math_binary, "at_most": j_math_binary,
    "abs": j_math_unary, "ceil": j_math_unary, "floor": j_math_unary, "round": j_round,
    "default": j_default,
}


def judge(f: str, x: Any, args: list[Any], kw: dict[str, Any], res: Any, ctx: dict[str, Any]) -> list[Fail]:
    """Failures of the contract of ``f`` on this call; raises Unspecified for undecided cells.

    ``res`` is ("ok", value) or ("err", ExceptionClassName).  ``ctx`` carries
    ``x_pristine`` / ``a_pristine`` (independent copies of input and arguments made
    before the call) and ``text`` (rendered output of the result) where needed.
    """
    return JUDGES[f](f, x, args, kw, res, ctx)


# ---------------------------------------------------------------------------
# model self-check: the worked examples of docs/filter_reference.md (and a few
# deliberately wrong answers) -- run by the driver as its first shard; a failure here is
# a harness error (the model is wrong), never a verdict about the library.
# ---------------------------------------------------------------------------
def _ex(f: str, x: Any, args: list[Any], documented: Any, kw: Optional[dict[str, Any]] = None, text: Any = None) -> tuple[Any, ...]:
    return (f, x, args, kw or {}, documented, text)


DOC_EXAMPLES: list[tuple[Any, ...]] = [
    _ex("abs", -42, [], 42), _ex("abs", 7.5, [], 7.5), _ex("abs", "42.0", [], 42.0), _ex("abs", "hello", [], 0),
    _ex("abs", UNDEF, [], 0),
    _ex("at_least", -5.1, [8], 8), _ex("at_least", 8, ["5"], 8), _ex("at_least", "hello", [2], 2),
    _ex("at_least", "hello", [-2], 0), _ex("at_least", -1, ["abc"], 0),
    _ex("at_most", 5, [8], 5), _ex("at_most", "8", [5], 5), _ex("at_most", "hello", [2], 0),
    _ex("at_most", "hello", [-2], -2), _ex("at_most", -1, ["abc"], -1),
    _ex("capitalize", "heLLO, World!", [], "Hello, world!"), _ex("capitalize", 42, [], "42"),
    _ex("ceil", 5.1, [], 6), _ex("ceil", 5.0, [], 5), _ex("ceil", 5, [], 5), _ex("ceil", "5.4", [], 6),
    _ex("ceil", "hello", [], 0), _ex("ceil", UNDEF, [], 0),
    _ex("compact", [{"c": "b"}, {}, {"c": "l"}], ["c"], [{"c": "b"}, {"c": "l"}]),
    _ex("compact", ["b", None, "l"], [], ["b", "l"]),
    _ex("concat", ["a", "o"], [["c", "t"]], ["a", "o", "c", "t"]),
    _ex("concat", [["a", "x"], ["b", ["y", ["z"]]]], [["c", "d"]], ["a", "x", "b", "y", "z", "c", "d"]),
    _ex("default", UNDEF, [2.99], 2.99), _ex("default", "", [2.99], 2.99), _ex("default", 4.99, [2.99], 4.99),
    _ex("default", False, [True], False, {"allow_false": True}), _ex("default", UNDEF, [], ""),
    _ex("default", "", ["hello"], "hello"), _ex("default", 0, [99], 0),
    _ex("divided_by", 16, [4], 4), _ex("divided_by", 5, [3], 1), _ex("divided_by", 20, [7], 2),
    _ex("divided_by", 20, [7.0], 2.857142857142857), _ex("divided_by", "20", ["7"], 2), _ex("divided_by", "hello", [2], 0),
    _ex("downcase", "Hello, World!", [], "hello, world!"), _ex("downcase", 5, [], "5"), _ex("downcase", UNDEF, [], ""),
    _ex("first", ["Ground", "control"], [], "Ground"), _ex("first", [], [], None), _ex("first", UNDEF, [], None),
    _ex("floor", 1.2, [], 1), _ex("floor", 2.0, [], 2), _ex("floor", 183.357, [], 183), _ex("floor", -5.4, [], -6),
    _ex("floor", "3.5", [], 3),
    _ex("join", ["John", "Paul"], [" and "], "John and Paul"), _ex("join", ["John", "Paul"], [], "John Paul"),
    _ex("last", ["Major", "Tom."], [], "Tom."), _ex("last", "abc", [], None), _ex("last", 5, [], None),
    _ex("lstrip", "   So much   ", [], "So much   "),
    _ex("map", [{"category": "business"}, {}], ["category"], ["business", None]),
    _ex("minus", 4, [2], 2), _ex("minus", "16", [4], 12), _ex("minus", 183.357, [12.2], 171.157),
    _ex("minus", "hello", [10], -10),
    _ex("modulo", 3, [2], 1), _ex("modulo", "24", ["7"], 3), _ex("modulo", 183.357, [12], 3.357),
    _ex("plus", 4, [2], 6), _ex("plus", "16", ["4"], 20), _ex("plus", 183.357, [12], 195.357),
    _ex("reject", [{"t": "h", "a": True}, {"t": "k", "a": False}, {"t": "l", "a": True}], ["t", "k"],
        [{"t": "h", "a": True}, {"t": "l", "a": True}]),
    _ex("reject", [{"t": "h", "a": True}, {"t": "k", "a": False}], ["a"], [{"t": "k", "a": False}]),
    _ex("reverse", ["a", "o", "p"], [], ["p", "o", "a"]),
    _ex("reverse_text", "abc", [], ["abc"], None, "abc"),
    _ex("round", 1.2, [], 1), _ex("round", 2.7, [], 3), _ex("round", 183.357, [2], 183.36),
    _ex("rstrip", "   So much   ", [], "   So much"),
    _ex("size", "Ground control to Major Tom.", [], 28), _ex("size", ["a", "o", "p", "q"], [], 4),
    _ex("slice", "Liquid", [0], "L"), _ex("slice", "Liquid", [2], "q"), _ex("slice", "Liquid", [2, 5], "quid"),
    _ex("slice", ["J", "P", "G", "R"], [1, 2], ["P", "G"]), _ex("slice", "Liquid", [-3], "u"),
    _ex("slice", "Liquid", [-3, 2], "ui"), _ex("slice", ["J", "P", "G", "R"], [-2, 2], ["G", "R"]),
    _ex("sort", ["zebra", "octopus", "giraffe", "Sally Snake"], [], ["Sally Snake", "giraffe", "octopus", "zebra"]),
    _ex("sort", [{"p": "9.95"}, {"p": "0.50"}, {"p": "2.50"}], ["p"], [{"p": "0.50"}, {"p": "2.50"}, {"p": "9.95"}]),
    _ex("sort_natural", ["zebra", "octopus", "giraffe", "Sally Snake"], [], ["giraffe", "octopus", "Sally Snake", "zebra"]),
    _ex("sort_natural", [{"c": "Cool"}, {"c": "alpha"}, {"c": "Beta"}], ["c"], [{"c": "alpha"}, {"c": "Beta"}, {"c": "Cool"}]),
    _ex("split", "Hello there", [UNDEF], list("Hello there")),
    _ex("split_join", "John, Paul, George", [", "], "John, Paul, George"),
    _ex("squish", "    Hello, \n\t World! \r\n", [], "Hello, World!"),
    _ex("strip", "   So much   ", [], "So much"),
    _ex("strip_newlines", "\nHello\nthere\n", [], "Hellothere"),
    _ex("times", 3, [2], 6), _ex("times", "24", ["7"], 168), _ex("times", 183.357, [12], 2200.284),
    _ex("truncate", "Ground control to Major Tom.", [20], "Ground control to..."),
    _ex("truncate", "Ground control to Major Tom.", [25, ", and so on"], "Ground control, and so on"),
    _ex("truncate", "Ground control to Major Tom.", [20, ""], "Ground control to Ma"),
    _ex("truncatewords", "Ground control to Major Tom.", [3], "Ground control to..."),
    _ex("truncatewords", "Ground control to Major Tom.", [3, "--"], "Ground control to--"),
    _ex("truncatewords", "Ground control to Major Tom.", [3, ""], "Ground control to"),
    _ex("uniq", ["ants", "bugs", "bees", "bugs", "ants"], [], ["ants", "bugs", "bees"]),
    _ex("uniq", [{"t": 1, "c": "C"}, {"t": 2, "c": "a"}, {"t": 3, "c": "a"}, {"t": 4, "c": "B"}], ["c"],
        [{"t": 1, "c": "C"}, {"t": 2, "c": "a"}, {"t": 4, "c": "B"}]),
    _ex("upcase", "Hello, World!", [], "HELLO, WORLD!"),
    _ex("where", [{"t": "h", "a": True}, {"t": "k", "a": False}, {"t": "k", "a": True}], ["t", "k"],
        [{"t": "k", "a": False}, {"t": "k", "a": True}]),
    _ex("where", [{"t": "h", "a": True}, {"t": "k", "a": False}], ["a"], [{"t": "h", "a": True}]),
    _ex("where", [{"t": "h", "a": True}, {"t": "k", "a": False}], ["a", False], [{"t": "k", "a": False}]),
]

# answers the model must REJECT (guards against a vacuous oracle)
WRONG_ANSWERS: list[tuple[Any, ...]] = [
    _ex("truncate", "abc", [3], "..."), _ex("truncate", "abcdef", [2], "abcde..."), _ex("truncate", "abcdef", [5], "abc..."),
    _ex("truncatewords", "a b c", [2], "a b c..."), _ex("truncatewords", "a b c", [2], "b c..."),
    _ex("plus", 1, [2], 3.0), _ex("plus", 0.1, [0.2], 0.30000000000000004), _ex("times", 183.357, [12], 2200.2839999999997),
    _ex("divided_by", -7, [2], -3), _ex("ceil", 5.0, [], 5.0), _ex("round", 2.7, [], 2),
    _ex("uniq", [1, 2, 1], [], [2, 1]), _ex("sort", [2, 1], [], [2, 1]), _ex("reverse", [1, 2], [], [1, 2]),
    _ex("compact", [None, False], [], []), _ex("where", [{"k": 0}], ["k"], []), _ex("reject", [{"k": 0}], ["k"], [{"k": 0}]),
    _ex("size", 5, [], 1), _ex("size", "ab", [], 0), _ex("upcase", "aB", [], "ab"), _ex("split_join", "a,b", [","], "a b"),
    _ex("slice", "Liquid", [-3, 2], "qu"), _ex("first", "abc", [], "a"), _ex("default", [], [[1]], []),
    _ex("default", 0, [9], 9), _ex("default", False, [9], 9, {"allow_false": True}), _ex("concat", [[1]], [[[2]]], [1, 2]),
    _ex("map", [{"k": 1}, {}], ["k"], [1]), _ex("at_least", 1, [2.5], 2), _ex("abs", -2, [], 2.0),
    _ex("where", [{"k": 0}, {"k": 1}, {"k": None}], ["k", 0], [{"k": 0}, {"k": 1}]),
    _ex("where", [{"k": ""}, {"k": "a"}], ["k", ""], [{"k": ""}, {"k": "a"}]),
    _ex("reject", [{"k": 0}, {"k": 1}, {"k": None}], ["k", 0], [{"k": None}]),
    _ex("reject", [{"k": False}, {"k": True}, {"k": None}], ["k", False], [{"k": False}, {"k": None}]),
]


def self_check() -> list[str]:
    """Problems of the *model* (must be empty)."""
    import copy

    problems: list[str] = []
    for table, expect_clean in ((DOC_EXAMPLES, True), (WRONG_ANSWERS, False)):
        for f, x, args, kw, documented, text in table:
            ctx = {"x_pristine": copy.deepcopy(x), "a_pristine": copy.deepcopy(args), "text": text}
            try:
                fails = judge(f, x, args, kw, ("ok", documented), ctx)
            except Unspecified as u:
                problems.append(f"{f}({show(x)}, {show(args)}): unexpectedly unspecified: {u.reason}")
                continue
            if expect_clean and fails:
                problems.append(f"documented example rejected: {f}({show(x)}, {show(args)}) -> {show(documented)}: {fails}")
            if not expect_clean and not fails:
                problems.append(f"wrong answer accepted: {f}({show(x)}, {show(args)}) -> {show(documented)}")
    return problems
