"""C14 reference scope model: abstract binding programs, their Liquid source, and what every probe must print.

A *program* is a forest of binding ops over the names ``NAMES[0]`` / ``NAMES[1]`` (default ``v`` / ``w``):

    leaf ops    A assign            C capture (literal body)     I increment      D decrement
    block ops   F for               T tablerow                   W with (extra tag)
                Xw include..with..as  Xk include, name: value    Xf include..for..as   X include (no binding)
                IF if true (no scope) M macro + immediate call (extra tags)  CB capture whose body holds ops

Every op binds a value that names the op (``a3`` = assign of op #3, ``w1`` = with of op #1, for/tablerow
items are the integers ``(k+1)*10+1`` and ``+2`` ...), the four global layers bind ``R<name>``, ``M<name>``,
``T<name>``, ``E<name>``, so the winner of every lookup can be read off the rendered text.  A probe
``[<id>:{{ v }}|{{ w }}]`` stands before the first op, at the start of every block body (also inside the
included partial / macro body) and after every op; ``increment`` / ``decrement`` print as ``<k:N>``.

The reference interpreter is a literal transcription of the property statement (docs cited per clause):

    block scopes, innermost first  >  assigned / captured locals  >  render arguments  >  front matter
    >  template globals  >  environment globals  >  built-in now/today  >  counters  >  undefined

* assign / capture write the top-level scope of the template (docs/render_context.md "Template local
  variables"; statement), whatever block or included partial they stand in; ``include`` shares the
  caller's scope (docs/tag_reference.md#include); names bound by for / tablerow / with / include
  arguments vanish after the block (statement; tag_reference.md#include "then go out of scope").
* render arguments > matter > template globals > environment globals: docs/render_context.md.
* counters have their own namespace, looked up last; the tags print the counter whatever else is bound
  (docs/render_context.md, tag_reference.md#increment / #decrement).
* a macro body "has its own scope including its arguments and template global variables, just like the
  render tag" (docs/optional_tags.md#macro-and-call): fresh locals, the parameter, the global layers.
  Not fixed by statement/docs and therefore *excluded*: a parameter name re-assigned inside the macro
  body, and whether counters of the caller are visible inside a macro.
"""

from __future__ import annotations

import re
from typing import Any
from typing import Iterator
from typing import Optional

LAYERS = ("R", "M", "T", "E")
LAYER_CLAUSE = {"R": "render-arg", "M": "matter", "T": "template-global", "E": "env-global"}
BUILTINS = ("now", "today")

LEAF = ("A", "C", "I", "D", "B", "K")
NAMED_BLOCK = ("F", "T", "W", "Xw", "Xk", "Xf", "M", "CB")
UNNAMED_BLOCK = ("X", "IF")
INCLUDES = ("Xw", "Xk", "Xf", "X")
KIND_WORD = {
    "A": "assign", "C": "capture", "I": "increment", "D": "decrement", "F": "for", "T": "tablerow", "W": "with",
    "Xw": "include-with", "Xk": "include-kwarg", "Xf": "include-for", "X": "include", "IF": "if", "M": "macro",
    "CB": "capture-block", "B": "break", "K": "continue",
}

Tree = tuple  # (kind, name_index or None, children: tuple[Tree, ...])
Forest = tuple

# name -> list of (kind, name index); order fixes the enumeration order
ALPHABETS: dict[str, list[tuple[str, Optional[int]]]] = {}


def _alphabet(kinds: tuple[str, ...], names: tuple[int, ...]) -> list[tuple[str, Optional[int]]]:
    out: list[tuple[str, Optional[int]]] = []
    for k in kinds:
        if k in UNNAMED_BLOCK or k in ("B", "K"):
            out.append((k, None))
        else:
            out.extend((k, n) for n in names)
    return out


ALL_KINDS = ("A", "C", "I", "D") + ("F", "T", "W", "Xw", "Xk", "Xf", "X", "IF", "M", "CB")
ALPHABETS["one"] = _alphabet(tuple(k for k in ALL_KINDS if k != "Xf"), (0,))  # 13 symbols
ALPHABETS["onef"] = _alphabet(ALL_KINDS, (0,))  # 14 symbols
ALPHABETS["two"] = _alphabet(ALL_KINDS, (0, 1))  # 26 symbols
# 4-op quick alphabet: every mechanism once (local write, counter, loop scope, tablerow scope, pushed scope,
# include with / without a pushed scope, macro = copied context, capture buffer); capture ~ assign,
# decrement ~ increment, include..with / include..for ~ include kwarg and `if` are left to the <=3-op forests
ALPHABETS["core"] = _alphabet(("A", "I", "F", "T", "W", "Xk", "X", "M", "CB"), (0,))  # 9 symbols
ALPHABETS["core2"] = _alphabet(("A", "I", "F", "T", "W", "Xk", "X", "M", "CB"), (0, 1))  # 17 symbols
# interrupts: break / continue leave pushed scopes through an exception (docs/tag_reference.md#break, #continue)
ALPHABETS["brk"] = _alphabet(("A", "B", "K", "F", "W", "IF"), (0,))  # 6 symbols
# interrupts raised inside an included partial (or a tablerow body) and caught by the caller's loop
ALPHABETS["xbrk"] = _alphabet(("A", "B", "K", "F", "T", "W", "Xw", "Xk", "X"), (0,))  # 9 symbols
XBRK_ALPHAS = ("xbrk",)
NIL_CAPABLE = ("A", "F", "T", "W", "Xw", "Xk", "Xf", "M")


def allowed(kind: str, in_macro: bool, in_capture: bool, in_for: bool = False) -> bool:
    """Domain restrictions of the generator (each one is listed in the driver's assumptions)."""
    if kind in ("B", "K") and not in_for:
        # break / continue only directly inside a for body or inside with / if blocks of that body
        return False
    if in_macro and (kind in INCLUDES or kind in ("I", "D", "M")):
        # include is a disabled tag inside a macro; counters inside a macro and nested macros: not specified
        return False
    if in_capture and kind == "T":
        # the exact whitespace of tablerow's HTML is not documented, so it must not end up in a value
        return False
    return True


_FOREST_MEMO: dict[tuple[str, int, bool, bool, bool], list[Forest]] = {}


def forests(alpha: str, n: int, in_macro: bool = False, in_capture: bool = False, in_for: bool = False) -> list[Forest]:
    """Every forest with exactly ``n`` ops over the alphabet, in a fixed order."""
    key = (alpha, n, in_macro, in_capture, in_for)
    memo = _FOREST_MEMO.get(key)
    if memo is not None:
        return memo
    out: list[Forest] = []
    if n == 0:
        out.append(())
    else:
        for k in range(1, n + 1):
            firsts = trees(alpha, k, in_macro, in_capture, in_for)
            rests = forests(alpha, n - k, in_macro, in_capture, in_for)
            for t in firsts:
                for r in rests:
                    out.append((t,) + r)
    _FOREST_MEMO[key] = out
    return out


_TREE_MEMO: dict[tuple[str, int, bool, bool, bool], list[Tree]] = {}


def trees(alpha: str, k: int, in_macro: bool, in_capture: bool, in_for: bool = False) -> list[Tree]:
    key = (alpha, k, in_macro, in_capture, in_for)
    memo = _TREE_MEMO.get(key)
    if memo is not None:
        return memo
    out: list[Tree] = []
    for kind, name in ALPHABETS[alpha]:
        if not allowed(kind, in_macro, in_capture, in_for):
            continue
        if kind in LEAF:
            if k == 1:
                out.append((kind, name, ()))
        else:
            if kind == "F" or (kind == "T" and alpha in XBRK_ALPHAS):
                kid_for = True
            elif kind in ("W", "IF") or (kind in INCLUDES and alpha in XBRK_ALPHAS):
                kid_for = in_for
            else:
                kid_for = False
            for kids in forests(alpha, k - 1, in_macro or kind == "M", in_capture or kind == "CB", kid_for):
                out.append((kind, name, kids))
    _TREE_MEMO[key] = out
    return out


def forest_size(f: Forest) -> int:
    return sum(1 + forest_size(t[2]) for t in f)


def forest_depth(f: Forest) -> int:
    return max((1 + forest_depth(t[2]) for t in f), default=0)


def interrupt_crosses(f: Forest, crossed: Optional[bool] = None) -> bool:
    """True iff some break / continue reaches its loop through an include, or its loop is a tablerow.

    Whether and how such an interrupt ends the loop is not documented, so for these programs only renders
    whose probe sequence equals the model's (the interrupt did end the iteration) are compared."""
    for kind, _, kids in f:
        if kind in ("B", "K"):
            if crossed:
                return True
            continue
        if kind == "F":
            sub: Optional[bool] = False
        elif kind == "T":
            sub = True
        elif kind in INCLUDES:
            sub = True if crossed is not None else None
        elif kind in ("W", "IF"):
            sub = crossed
        else:
            sub = None
        if interrupt_crosses(kids, sub):
            return True
    return False


def nil_positions(f: Forest) -> list[int]:
    """Preorder indexes of the ops that can bind nil."""
    return [k for k, t in enumerate(iter_nodes(f)) if t[0] in NIL_CAPABLE]


def to_forest(o: Any) -> Forest:
    """JSON lists -> the tuple form."""
    return tuple((t[0], t[1], to_forest(t[2])) for t in o)


# ---------------------------------------------------------------------------
# compile: forest -> source text, partial sources, numbered tree
# ---------------------------------------------------------------------------
def zz_global(max_ops: int = 6) -> dict[str, Any]:
    """Helper values for include..with / include..for (the tag wants a path, not a literal)."""
    d: dict[str, Any] = {}
    for k in range(max_ops):
        d[f"i{k}"] = f"i{k}"
        d[f"f{k}"] = [f"f{k}a", f"f{k}b"]
        d[f"n{k}"] = [None, (k + 1) * 10 + 2]  # nil first item for a for / tablerow
        d[f"g{k}"] = [None, f"f{k}b"]  # nil first item for include..for
    d["none"] = None
    return d


class Compiled:
    __slots__ = ("source", "partials", "body", "probe_ctx", "n_ops", "names")

    def __init__(self) -> None:
        self.source = ""
        self.partials: dict[str, str] = {}
        self.body: Any = None
        self.probe_ctx: dict[int, str] = {}
        self.n_ops = 0
        self.names: tuple[str, str] = ("v", "w")


def compile_program(forest: Forest, names: tuple[str, str] = ("v", "w"), nil_ops: frozenset = frozenset()) -> Compiled:
    """``nil_ops``: preorder indexes of ops that bind nil instead of their marker (first item for loops)."""
    c = Compiled()
    c.names = names
    counter = {"k": 0, "pid": 0}

    def probe(chain: tuple[str, ...], noprobe: bool) -> tuple[Optional[int], str]:
        if noprobe:
            return None, ""
        pid = counter["pid"]
        counter["pid"] += 1
        c.probe_ctx[pid] = ">".join(chain) or "top"
        return pid, f"[{pid}:{{{{ {names[0]} }}}}|{{{{ {names[1]} }}}}]"

    def body(kids: Forest, chain: tuple[str, ...], noprobe: bool) -> tuple[str, Any]:
        pid0, src = probe(chain, noprobe)
        items = []
        for t in kids:
            node, s = op(t, chain, noprobe)
            pid, ps = probe(chain, noprobe)
            src += s + ps
            items.append((node, pid))
        return src, (pid0, items)

    def op(t: Tree, chain: tuple[str, ...], noprobe: bool) -> tuple[Any, str]:
        kind, ni, kids = t
        k = counter["k"]
        counter["k"] += 1
        n = names[ni] if ni is not None else None
        sub = chain + (KIND_WORD[kind],)
        nil = k in nil_ops and kind in NIL_CAPABLE
        if kind == "A":
            return (kind, n, k, None, nil), f"{{% assign {n} = nil %}}" if nil else f"{{% assign {n} = 'a{k}' %}}"
        if kind == "C":
            return (kind, n, k, None, False), f"{{% capture {n} %}}c{k}{{% endcapture %}}"
        if kind == "I":
            return (kind, n, k, None, False), f"<{k}:{{% increment {n} %}}>"
        if kind == "D":
            return (kind, n, k, None, False), f"<{k}:{{% decrement {n} %}}>"
        if kind == "B":
            return (kind, n, k, None, False), "{% break %}"
        if kind == "K":
            return (kind, n, k, None, False), "{% continue %}"
        if kind == "CB":
            s, b = body(kids, sub, True)
            return (kind, n, k, b, False), f"{{% capture {n} %}}{s}c{k}{{% endcapture %}}"
        s, b = body(kids, sub, noprobe)
        node = (kind, n, k, b, nil)
        lo = (k + 1) * 10 + 1
        items = f"zz.n{k}" if nil else f"({lo}..{lo + 1})"
        if kind == "F":
            return node, f"{{% for {n} in {items} %}}{s}{{% endfor %}}"
        if kind == "T":
            return node, f"{{% tablerow {n} in {items} %}}{s}{{% endtablerow %}}"
        if kind == "W":
            return node, f"{{% with {n}: {'nil' if nil else repr('w' + str(k))} %}}{s}{{% endwith %}}"
        if kind == "IF":
            return node, f"{{% if true %}}{s}{{% endif %}}"
        if kind == "M":
            return node, f"{{% macro m{k} {n} %}}{s}{{% endmacro %}}{{% call m{k} {'nil' if nil else repr('m' + str(k))} %}}"
        c.partials[f"p{k}"] = s
        if kind == "Xw":
            return node, f"{{% include 'p{k}' with zz.{'none' if nil else 'i' + str(k)} as {n} %}}"
        if kind == "Xk":
            return node, f"{{% include 'p{k}', {n}: {'nil' if nil else repr('k' + str(k))} %}}"
        if kind == "Xf":
            return node, f"{{% include 'p{k}' for zz.{'g' if nil else 'f'}{k} as {n} %}}"
        if kind == "X":
            return node, f"{{% include 'p{k}' %}}"
        raise AssertionError(kind)

    c.source, c.body = body(forest, (), False)
    c.n_ops = counter["k"]
    return c


# ---------------------------------------------------------------------------
# the reference interpreter
# ---------------------------------------------------------------------------
class Ctx:
    """One template-level scope (the root template, or one macro call)."""

    __slots__ = ("blocks", "locals", "params", "counters", "is_macro", "caller_counters")

    def __init__(self, is_macro: bool = False, params: Optional[dict[str, str]] = None,
                 caller_counters: Optional[dict[str, int]] = None) -> None:
        self.blocks: list[dict[str, Any]] = []
        self.locals: dict[str, str] = {}
        self.params: dict[str, str] = params or {}
        self.counters: dict[str, int] = {}
        self.is_macro = is_macro
        self.caller_counters = caller_counters or {}


# an expected value: (kind, text, clause, n_live_bindings) with kind "=" | "builtin" | "unspec"
Expected = tuple


def txt(v: Any) -> str:
    """nil renders as the empty string (a binding to nil is still a binding)."""
    return "" if v is None else str(v)


def resolve(ctx: Ctx, name: str, layers: dict[str, dict[str, str]], undef: str) -> Expected:
    live = sum(1 for b in ctx.blocks if name in b) + (name in ctx.locals) + (name in ctx.params) + sum(
        1 for ly in LAYERS if name in layers[ly]) + (name in BUILTINS) + (name in ctx.counters)
    for b in reversed(ctx.blocks):
        if name in b:
            if b[name] is LOOPOBJ:
                return ("loopobj", None, "block", live)
            if b[name] is UNSPEC_LOOPOBJ:
                return ("unspec", None, "forloop-inside-include-for", 0)
            return ("=", txt(b[name]), "block", live)
    if ctx.is_macro and name in ctx.params and name in ctx.locals:
        return ("unspec", None, "macro-parameter-reassigned-in-body", 0)
    if name in ctx.locals:
        return ("=", txt(ctx.locals[name]), "local", live)
    if name in ctx.params:
        return ("=", txt(ctx.params[name]), "macro-param", live)
    for ly in LAYERS:
        if name in layers[ly]:
            return ("=", txt(layers[ly][name]), LAYER_CLAUSE[ly], live)
    if name in BUILTINS:
        return ("builtin", None, "builtin", live)
    if name in ctx.counters:
        return ("=", str(ctx.counters[name]), "counter", live)
    if ctx.is_macro and name in ctx.caller_counters:
        return ("unspec", None, "caller-counter-inside-macro", 0)
    return ("=", undef, "undefined", live)


class _Break(Exception):
    pass


class _Continue(Exception):
    pass


LOOPOBJ = object()  # the forloop / tablerowloop drop (docs/tag_reference.md#forloop, #tablerowloop)
UNSPEC_LOOPOBJ = object()  # docs do not say whether include..for provides a forloop


class Sink:
    """Top-level output: a token list.  Inside a capture: plain text."""

    def __init__(self, text_only: bool) -> None:
        self.text_only = text_only
        self.tokens: list[tuple[Any, ...]] = []
        self.text = ""

    def counter(self, k: int, val: int) -> None:
        if self.text_only:
            self.text += f"<{k}:{val}>"
        else:
            self.tokens.append(("ctr", k, val))

    def probe(self, pid: int, vals: tuple[Expected, Expected]) -> None:
        assert not self.text_only
        self.tokens.append(("probe", pid, vals))


def interpret(c: Compiled, layers: dict[str, dict[str, str]], undef: str) -> list[tuple[Any, ...]]:
    """Expected token list of the compiled program under the given global layers."""
    names = c.names
    root = Ctx()

    def run_body(b: Any, ctx: Ctx, out: Sink) -> None:
        pid0, items = b

        def probe(pid: Optional[int]) -> None:
            if pid is not None:
                out.probe(pid, (resolve(ctx, names[0], layers, undef), resolve(ctx, names[1], layers, undef)))

        probe(pid0)
        for node, pid in items:
            run_op(node, ctx, out)
            probe(pid)

    def scoped(ctx: Ctx, ns: dict[str, Any], b: Any, out: Sink) -> None:
        ctx.blocks.append(ns)
        try:
            run_body(b, ctx, out)
        finally:
            ctx.blocks.pop()

    def run_op(node: Any, ctx: Ctx, out: Sink) -> None:
        kind, n, k, b, nil = node
        if kind == "A":
            ctx.locals[n] = None if nil else f"a{k}"
        elif kind == "C":
            ctx.locals[n] = f"c{k}"
        elif kind == "B":
            raise _Break
        elif kind == "K":
            raise _Continue
        elif kind == "I":
            val = ctx.counters.get(n, 0)
            out.counter(k, val)
            ctx.counters[n] = val + 1
        elif kind == "D":
            val = ctx.counters.get(n, 0) - 1
            ctx.counters[n] = val
            out.counter(k, val)
        elif kind in ("F", "T"):
            lo = (k + 1) * 10 + 1
            loopname = "forloop" if kind == "F" else "tablerowloop"
            for item in (None if nil else lo, lo + 1):
                try:
                    scoped(ctx, {loopname: LOOPOBJ, n: item}, b, out)
                except _Continue:
                    continue
                except _Break:
                    break
        elif kind == "W":
            scoped(ctx, {n: None if nil else f"w{k}"}, b, out)
        elif kind == "Xw":
            scoped(ctx, {n: None if nil else f"i{k}"}, b, out)
        elif kind == "Xk":
            scoped(ctx, {n: None if nil else f"k{k}"}, b, out)
        elif kind == "Xf":
            for item in (None if nil else f"f{k}a", f"f{k}b"):
                scoped(ctx, {"forloop": UNSPEC_LOOPOBJ, n: item}, b, out)
        elif kind in ("X", "IF"):
            run_body(b, ctx, out)
        elif kind == "M":
            run_body(b, Ctx(True, {n: None if nil else f"m{k}"}, dict(ctx.counters)), out)
        elif kind == "CB":
            sub = Sink(True)
            run_body(b, ctx, sub)
            ctx.locals[n] = sub.text + f"c{k}"
        else:
            raise AssertionError(kind)

    out = Sink(False)
    run_body(c.body, root, out)
    return out.tokens


# ---------------------------------------------------------------------------
# reading the rendered text back
# ---------------------------------------------------------------------------
RE_TOKEN = re.compile(r"\[(\d+):([^|\]]*)\|([^|\]]*)\]|<(\d+):(-?\d+)>", re.DOTALL)


def parse_output(text: str) -> list[tuple[Any, ...]]:
    out: list[tuple[Any, ...]] = []
    for m in RE_TOKEN.finditer(text):
        if m.group(1) is not None:
            out.append(("probe", int(m.group(1)), (m.group(2), m.group(3))))
        else:
            out.append(("ctr", int(m.group(4)), int(m.group(5))))
    return out


_RE_CLASS = [
    (re.compile(r"R\w+"), "render-arg"), (re.compile(r"M\w+"), "matter"), (re.compile(r"T\w+"), "template-global"),
    (re.compile(r"E\w+"), "env-global"), (re.compile(r"a\d+"), "assign"), (re.compile(r"(<\d+:-?\d+>)*c\d+"), "capture"),
    (re.compile(r"w\d+"), "with"), (re.compile(r"i\d+"), "include-with"), (re.compile(r"k\d+"), "include-kwarg"),
    (re.compile(r"f\d+[ab]"), "include-for"), (re.compile(r"m\d+"), "macro-param"),
    (re.compile(r"[1-9][12]"), "loop-item"), (re.compile(r"-?\d+"), "counter"),
    (re.compile(r"\d{4}-\d\d-\d\d.*"), "builtin"),
]


def classify(text: str, undef: str) -> str:
    """Which binding a rendered value came from (used for violation signatures only)."""
    if text == undef:
        return "undefined"
    if text == "":
        return "empty"
    for rx, label in _RE_CLASS:
        if rx.fullmatch(text):
            return label
    return "other"


def looks_builtin(text: str, undef: str) -> bool:
    """now/today are not compared (time dependent): only 'is not any other binding of the program'."""
    return classify(text, undef) in ("builtin", "other")


def compare(expected: list[tuple[Any, ...]], actual_text: str, names: tuple[str, str], undef: str,
            probe_ctx: dict[int, str]) -> tuple[list[tuple[str, str, str, str]], dict[str, int]]:
    """-> ([(clause, observed, ctx, text)], stats).  One deviation per (clause, observed, ctx)."""
    stats = {"compared": 0, "unspec": 0, "builtin": 0, "shadowed": 0, "nil_shadows": 0}
    got = parse_output(actual_text)
    if [(t[0], t[1]) for t in got] != [(t[0], t[1]) for t in expected]:
        return [("output-shape", "tokens", "-", f"rendered {len(got)} probe/counter tokens in "
                 f"{actual_text[:120]!r}, expected {len(expected)}")], stats
    bads: list[tuple[str, str, str, str]] = []
    seen: set[tuple[str, str, str]] = set()
    for e, g in zip(expected, got):
        if e[0] == "ctr":
            stats["compared"] += 1
            if e[2] != g[2]:
                key = ("counter-tag-output", str(g[2]), "-")
                if key not in seen:
                    seen.add(key)
                    bads.append(key + (f"counter tag of op #{e[1]} printed {g[2]}, expected {e[2]}",))
            continue
        pid = e[1]
        for j in (0, 1):
            ev, gv = e[2][j], g[2][j]
            if ev[0] == "unspec":
                stats["unspec"] += 1
                continue
            if ev[3] > 1:
                stats["shadowed"] += 1
                if ev[0] == "=" and ev[1] == "" and ev[2] != "undefined":
                    stats["nil_shadows"] += 1
            clause = ev[2]
            if ev[0] == "builtin":
                stats["builtin"] += 1
                ok = looks_builtin(gv, undef)
                want = "<the built-in>"
            elif ev[0] == "loopobj":
                stats["builtin"] += 1
                ok = classify(gv, undef) == "other"
                want = "<the loop object>"
            else:
                stats["compared"] += 1
                ok = gv == ev[1]
                want = repr(ev[1])
            if not ok:
                key = (str(clause), classify(gv, undef), probe_ctx.get(pid, "?"))
                if key not in seen:
                    seen.add(key)
                    bads.append(key + (f"probe #{pid} ({probe_ctx.get(pid, '?')}): {names[j]} rendered {gv!r}, "
                                       f"expected {want} ({clause})",))
    return bads, stats


def layers_for(names: tuple[str, str], masks: tuple[int, int],
               nil_layer: Optional[tuple[int, str]] = None) -> dict[str, dict[str, Any]]:
    """masks: bit i of masks[j] set = layer LAYERS[i] binds names[j] (value '<layer><name>').
    ``nil_layer`` = (name index, layer): that layer binds the name to nil/None instead."""
    out: dict[str, dict[str, Any]] = {ly: {} for ly in LAYERS}
    for j, n in enumerate(names):
        for i, ly in enumerate(LAYERS):
            if masks[j] >> i & 1:
                out[ly][n] = None if nil_layer == (j, ly) else f"{ly}{n}"
    return out


def clauses_of(expected: list[tuple[Any, ...]]) -> set[str]:
    out: set[str] = set()
    for e in expected:
        if e[0] == "probe":
            for ev in e[2]:
                out.add("unspec" if ev[0] == "unspec" else ev[2])
        else:
            out.add("ctr")
    return out


def iter_nodes(f: Forest) -> Iterator[Tree]:
    for t in f:
        yield t
        yield from iter_nodes(t[2])
