"""C04 menus: construct instances, expression menus and the bounded enumerators.

Everything here is *input generation* for the round-trip oracle (no expected values are
derived in this module).  Vocabulary:

* ``Comp``  a component = (kind, feature, probe).  ``probe`` is a minimal template that
  exhibits the component alone (the host tag with a neutral expression, the expression in
  a plain output statement, a minimal boolean pattern ...).  Components exist only to give
  a violation a *narrow signature*: a failing template is attributed to the first of its
  components whose probe fails on its own; every probe is itself part of the enumerated
  singles, so attribution never hides a component-level failure.
* ``Inst``  a construct instance = source text (with a ``{B}`` body slot when it is a block),
  an instance-level (kind, feature) and its components.

Variables used by the sources: p q r (truth atoms), x y a v b g h n s c, the key "a b".
"""

from __future__ import annotations

import itertools
from typing import Any
from typing import Iterator
from typing import NamedTuple
from typing import Optional

NL = "\n"
BS = "\\"


class Comp(NamedTuple):
    kind: str
    feature: str
    probe: str


class Inst(NamedTuple):
    src: str
    kind: str
    feature: str
    comps: tuple[Comp, ...]
    block: bool = False
    core: bool = False  # member of the core menu used for pairs / nesting
    pairable: bool = True  # thorough: combined with every core instance (False: only checked alone)

    def fill(self, body: str) -> str:
        return self.src.replace("{B}", body)


DEFAULT_BODY = "({{ v }})"


def leaf(src: str, kind: str, feature: str, *, core: bool = True, probe: Optional[str] = None) -> Inst:
    return Inst(src, kind, feature, (Comp(kind, feature, probe or src),), False, core)


def block(src: str, kind: str, feature: str, *, core: bool = True) -> Inst:
    assert "{B}" in src
    return Inst(src, kind, feature, (Comp(kind, feature, src.replace("{B}", DEFAULT_BODY)),), True, core)


# ---------------------------------------------------------------------------
# primitive expression menu:  (source, kind, feature)
# ---------------------------------------------------------------------------
PRIMS: list[tuple[str, str, str]] = [
    # string literals
    ("'a'", "string-literal", "single-quoted"),
    ('"a"', "string-literal", "double-quoted"),
    ("'it\"s'", "string-literal", "contains-double-quote"),
    ('"it\'s"', "string-literal", "contains-single-quote"),
    ("'a" + BS + "b'", "string-literal", "backslash"),
    ("'a" + NL + "b'", "string-literal", "newline"),
    ("''", "string-literal", "empty"),
    ("'a b'", "string-literal", "space"),
    ("'{{ x }}'", "string-literal", "output-markup-like"),
    ("'{% x %}'", "string-literal", "tag-markup-like"),
    # integers / floats
    ("0", "integer-literal", "zero"),
    ("7", "integer-literal", "positive"),
    ("-1", "integer-literal", "negative"),
    ("1.5", "float-literal", "plain"),
    ("1.0", "float-literal", "integral"),
    ("-2.5", "float-literal", "negative"),
    ("1.", "float-literal", "trailing-dot"),
    ("0.00001", "float-literal", "small(repr-uses-exponent)"),
    ("100000000000000000000.0", "float-literal", "large(repr-uses-exponent)"),
    # keywords
    ("true", "keyword-literal", "true"),
    ("false", "keyword-literal", "false"),
    ("nil", "keyword-literal", "nil"),
    ("null", "keyword-literal", "null"),
    ("empty", "keyword-literal", "empty"),
    ("blank", "keyword-literal", "blank"),
    # paths
    ("x", "path", "word"),
    ("y.a", "path", "dotted"),
    ("a[0]", "path", "index"),
    ("a[-1]", "path", "negative-index"),
    ("y['a']", "path", "quoted-segment"),
    ('y["a b"]', "path", "quoted-segment-with-space"),
    ('y["it\'s"]', "path", "quoted-segment-with-quote"),
    ("y['a" + BS + "b']", "path", "quoted-segment-with-backslash"),
    ("a[b.c]", "path", "nested-path-segment"),
    ("y[x]", "path", "nested-word-segment"),
    ("a.b-c", "path", "hyphenated-segment"),
    ("y.b.first", "path", "three-segments"),
    ("a[0].k", "path", "index-then-dot"),
    ("a.size", "path", "size"),
    ("nosuch", "path", "undefined"),
    ("[x]", "path", "bracketed-root"),
    ("[x].a", "path", "bracketed-root"),
    ("[y.a]", "path", "bracketed-root"),
    ('["a b"].c', "path", "quoted-root-with-space"),
    ('["a b"]', "path", "quoted-root-with-space"),
    ("['x']", "path", "quoted-root-word"),
    ("['y'].a", "path", "quoted-root-word-then-dot"),
    # ranges
    ("(1..3)", "range", "literal-ends"),
    ("(x..5)", "range", "variable-start"),
    ("(1..y.a)", "range", "path-stop"),
    ("(x..y.a)", "range", "variable-ends"),
    ("(a[0]..a.size)", "range", "path-ends"),
]
PRIM_INDEX = {p[0]: i for i, p in enumerate(PRIMS)}


def prim_comp(p: tuple[Any, ...]) -> Comp:
    return Comp(p[1], p[2], "{{ " + p[0] + " }}")


# ---------------------------------------------------------------------------
# hosts with one primitive slot {E}:  (template, kind, feature, neutral expression)
# ---------------------------------------------------------------------------
HOSTS: list[tuple[str, str, str, str]] = [
    ("{{ {E} }}", "output", "primitive", "x"),
    ("{% echo {E} %}", "echo", "primitive", "x"),
    ("{% assign s = {E} %}[{{ s }}]", "assign", "primitive", "x"),
    ("{% if {E} %}T{% else %}F{% endif %}", "if", "truthy-operand", "x"),
    ("{% if {E} == 1 %}T{% else %}F{% endif %}", "if", "eq-left-operand", "x"),
    ("{% if x == {E} %}T{% else %}F{% endif %}", "if", "eq-right-operand", "1"),
    ("{% if a contains {E} %}T{% else %}F{% endif %}", "if", "contains-right-operand", "1"),
    ("{% if x %}I{% elsif {E} != x %}T{% else %}F{% endif %}", "if", "elsif-ne-left-operand", "v"),
    ("{% unless {E} %}U{% else %}E{% endunless %}", "unless", "truthy-operand", "x"),
    ("{% case {E} %}{% when 1 %}A{% when 'a' %}B{% else %}C{% endcase %}", "case", "subject", "x"),
    ("{% case x %}{% when {E} %}W{% else %}C{% endcase %}", "case", "when-value", "1"),
    ("{% case x %}{% when 2, {E} %}W{% when {E} or 3 %}V{% endcase %}", "case", "when-multiple-values", "1"),
    ("{% for v in {E} %}({{ v }}){% else %}E{% endfor %}", "for", "iterable", "a"),
    ("{% for v in a limit: {E} %}({{ v }}){% endfor %}", "for", "limit-value", "2"),
    ("{% for v in a offset: {E} %}({{ v }}){% endfor %}", "for", "offset-value", "1"),
    ("{% tablerow v in {E} %}{{ v }}{% endtablerow %}", "tablerow", "iterable", "a"),
    ("{% tablerow v in a cols: {E} %}{{ v }}{% endtablerow %}", "tablerow", "cols-value", "2"),
    ("{% cycle {E}, 'z' %}{% cycle {E}, 'z' %}", "cycle", "argument", "x"),
    ("{% cycle {E}: 'p', 'q' %}{% cycle h: 'p', 'q' %}", "cycle", "group", "g"),
    ("{{ x | default: {E} }}", "filter", "positional-argument", "'d'"),
    ("{{ x | append: 'k' | replace: {E}, 'r' }}", "filter", "first-of-two-positional-arguments", "'k'"),
    ("{{ x | default: 'd', allow_false: {E} }}", "filter", "keyword-argument", "true"),
    ("{% include 'p', v: {E} %}", "include", "keyword-argument", "x"),
    ("{% render 'p', v: {E}, x: 1 %}", "render", "keyword-argument", "x"),
    ("{% include {E} %}", "include", "name", "'p'"),
    ("{% include 'p' with {E} %}", "include", "with-variable", "x"),
    ("{% render 'p' with {E} as v %}", "render", "with-variable", "x"),
    ("{% render 'p' for {E} as v %}", "render", "for-variable", "a"),
    ("{{ ({E}..3) | join: ',' }}", "range", "start", "1"),
    ("{% for v in (1..{E}) %}{{ v }}{% endfor %}", "range", "stop", "3"),
    ("{{ {E} if p else 'n' }}", "ternary", "left", "x"),
    ("{{ 'y' if p else {E} }}", "ternary", "alternative", "x"),
    ("{{ 'y' if {E} else 'n' }}", "ternary", "condition-operand", "x"),
    ("{% liquid echo {E} %}", "liquid", "echo-line", "x"),
    ("{% capture s %}{{ {E} }}{% endcapture %}[{{ s }}]", "capture", "output-in-body", "x"),
]


_WORD_PRIMS = ("nil", "null", "empty", "blank")


def primitive_comps(src: str) -> tuple[Comp, ...]:
    """Components for the delicate primitives that occur inside a hand-written expression."""
    import re

    out = []
    for p in PRIMS:
        if p[0] in _WORD_PRIMS:
            if re.search(r"(?<![\w'\"\[.-])" + p[0] + r"(?![\w'\"\]-])", src):
                out.append(prim_comp(p))
        elif p[1] == "string-literal" and p[2] in ("backslash", "newline") and p[0] in src:
            out.append(prim_comp(p))
    return tuple(out)


def host_comp(h: tuple[str, str, str, str]) -> Comp:
    return Comp(h[1], h[2], h[0].replace("{E}", h[3]))


# Quoted names for bracketed segments/roots: the serialiser has to decide between shorthand
# (`a.b`) and bracket notation (`a['b']`) per name, and the shorthand is only right when the
# expression tokenizer reads the bare name back as ONE word that is not a keyword.
QUOTED_NAMES: list[tuple[str, str]] = [
    ("404", "all-digits"), ("9", "all-digits"), ("0", "all-digits"), ("007", "all-digits"),
    ("2-1", "digits-hyphen-digits"), ("2024-07", "digits-hyphen-digits"),
    ("4a", "digit-led-alphanumeric"), ("1e3", "digit-led-alphanumeric"), ("1-a", "digit-led-alphanumeric"),
    ("1.5", "float-like"), ("-1", "negative-integer-like"), ("-a", "leading-hyphen"), ("a-", "trailing-hyphen"),
    ("k-l", "hyphenated"), ("_k", "underscore-led"), ("k?", "trailing-question-mark"), ("k2", "letter-then-digit"),
    ("\u00e9t\u00e9", "unicode"), ("\u540d", "unicode"), ("k.l", "contains-dot"), ("k[0]", "contains-brackets"), ("", "empty-name"),
    ("and", "keyword"), ("or", "keyword"), ("not", "keyword"), ("contains", "keyword"), ("nil", "keyword"),
    ("null", "keyword"), ("true", "keyword"), ("false", "keyword"), ("empty", "keyword"), ("blank", "keyword"),
    ("in", "keyword"), ("if", "keyword"), ("else", "keyword"), ("with", "keyword"), ("for", "keyword"), ("as", "keyword"),
    ("limit", "keyword"), ("offset", "keyword"), ("reversed", "keyword"), ("cols", "keyword"), ("continue", "keyword"),
    ("required", "keyword"), ("size", "special-property"), ("first", "special-property"),
]
# (template with {N} = the quoted name, position label, root?)
NAME_POSITIONS: list[tuple[str, str, bool]] = [
    ("[{N}]", "root-only", True),
    ("[{N}].a", "root-then-dot", True),
    ("[{N}][0]", "root-then-index", True),
    ("y[{N}]", "last-segment", False),
    ("y[{N}].a", "middle-segment", False),
    ("y[{N}][{N}]", "two-consecutive-segments", False),
    ("y[x][{N}]", "after-nested-path", False),
    ("a[0][{N}]", "after-index", False),
    ("y[[{N}]]", "root-of-nested-path", True),
]


# every keyword is tried in the three hosts below; these ones in every host
_KEYWORD_REPRESENTATIVES = ("and", "contains", "nil", "true", "empty", "if", "limit", "with")
_FEW_HOSTS = {("output", "primitive"), ("if", "truthy-operand"), ("for", "iterable")}


def quoted_name_prims() -> list[tuple[str, str, str, bool]]:
    out = []
    for name, cls in QUOTED_NAMES:
        for tpl, pos, root in NAME_POSITIONS:
            for q in ("'", '"') if pos in ("root-only", "last-segment") else ("'",):
                out.append((tpl.replace("{N}", q + name + q), "path",
                            f"quoted-name:{cls}:{'root' if root else 'segment'}",
                            cls == "keyword" and name not in _KEYWORD_REPRESENTATIVES))
    return out


EXTRA_PRIMS = quoted_name_prims()


def host_prim_instances() -> list[Inst]:
    out: list[Inst] = []
    for h in HOSTS:
        for p in PRIMS:
            if h[1] == "liquid" and NL in p[0]:
                continue  # a newline ends the line statement: not the same program
            core = (h[0] == "{{ {E} }}") or (p[0] == h[3])
            out.append(
                Inst(h[0].replace("{E}", p[0]), h[1], f"{h[2]}:{p[1]}", (host_comp(h), prim_comp(p)), False, core)
            )
        for p in EXTRA_PRIMS:
            if p[3] and (h[1], h[2]) not in _FEW_HOSTS:
                continue
            # checked alone in every host; combined with the core menu (thorough) in the output host only
            out.append(Inst(h[0].replace("{E}", p[0]), h[1], f"{h[2]}:{p[1]}", (host_comp(h), prim_comp(p)), False,
                            False, h[0] == "{{ {E} }}"))
        # the neutral expression itself (may not be in PRIMS)
        if h[3] not in PRIM_INDEX:
            out.append(Inst(h[0].replace("{E}", h[3]), h[1], f"{h[2]}:neutral", (host_comp(h),), False, True))
    return out


# ---------------------------------------------------------------------------
# boolean trees
# ---------------------------------------------------------------------------
ATOMS = ("p", "q", "r")


def trees(depth: int, atoms: tuple[Any, ...] = ATOMS) -> list[Any]:
    """Every and/or/not tree of depth <= ``depth`` (an atom has depth 1)."""
    if depth <= 1:
        return list(atoms)
    sub = trees(depth - 1, atoms)
    out: list[Any] = list(atoms)
    out += [("not", t) for t in sub]
    for op in ("and", "or"):
        out += [(op, l, r) for l in sub for r in sub]
    return out


def tree_src(t: Any) -> str:
    """Fully parenthesised source: the parser's AST is exactly ``t``."""
    if isinstance(t, str):
        return t

    def wrap(c: Any) -> str:
        return tree_src(c) if isinstance(c, str) else "(" + tree_src(c) + ")"

    if t[0] == "not":
        return "not " + wrap(t[1])
    return f"{wrap(t[1])} {t[0]} {wrap(t[2])}"


def tree_depth(t: Any) -> int:
    if isinstance(t, str):
        return 1
    return 1 + max(tree_depth(c) for c in t[1:])


def tree_eval(t: Any, env: dict[str, bool]) -> bool:
    if isinstance(t, str):
        return env[t]
    if t[0] == "not":
        return not tree_eval(t[1], env)
    if t[0] == "and":
        return tree_eval(t[1], env) and tree_eval(t[2], env)
    return tree_eval(t[1], env) or tree_eval(t[2], env)


def tree_shape(t: Any) -> str:
    if isinstance(t, str):
        return "."
    return t[0] + "(" + ",".join(tree_shape(c) for c in t[1:]) + ")"


IF_HOST = "{% if {C} %}T{% else %}F{% endif %}"


def op_of(t: Any) -> str:
    return "atom" if isinstance(t, str) else t[0]


def pattern_probe(parent: str, side: str, child: str) -> str:
    """Minimal tree containing a compound ``child`` as the ``side`` operand of ``parent``."""
    c: Any = ("not", "p") if child == "not" else (child, "p", "q")
    if parent == "not":
        t: Any = ("not", c)
    elif side == "L":
        t = (parent, c, "r")
    else:
        t = (parent, "r", c)
    return IF_HOST.replace("{C}", tree_src(t))


def tree_patterns(t: Any) -> list[tuple[str, str, str]]:
    """(parent-op, side, child-op) for every compound child in ``t``; left operands first
    (they are the ones a right-associative grammar must parenthesise)."""
    found: list[tuple[str, str, str]] = []

    def walk(n: Any) -> None:
        if isinstance(n, str):
            return
        sides = ("O",) if n[0] == "not" else ("L", "R")
        for side, c in zip(sides, n[1:]):
            if not isinstance(c, str):
                pat = (n[0], side, c[0])
                if pat not in found:
                    found.append(pat)
            walk(c)

    walk(t)
    order = {"L": 0, "O": 1, "R": 2}
    return sorted(found, key=lambda p: (order[p[1]], p))


def tree_comps(t: Any) -> tuple[Comp, ...]:
    comps = []
    for parent, side, child in tree_patterns(t):
        name = {"L": "left", "R": "right", "O": "operand"}[side]
        comps.append(Comp("boolean", f"{child}-as-{name}-operand-of-{parent}", pattern_probe(parent, side, child)))
    return tuple(comps)


CORE_TREES: list[Any] = [
    "p", ("not", "p"), ("and", "p", "q"), ("or", "p", "q"),
    ("and", ("not", "p"), "q"), ("or", ("not", "p"), "q"), ("and", "p", ("not", "q")), ("not", ("and", "p", "q")),
    ("not", ("or", "p", "q")), ("not", ("not", "p")),
    ("or", ("and", "p", "q"), "r"), ("and", ("or", "p", "q"), "r"), ("and", "p", ("or", "q", "r")),
    ("or", "p", ("and", "q", "r")), ("and", ("and", "p", "q"), "r"), ("or", ("or", "p", "q"), "r"),
    ("and", ("or", "p", "q"), ("or", "q", "r")), ("or", ("and", "p", "q"), ("and", "q", "r")),
]

COND_HOSTS: list[tuple[str, str, str]] = [
    (IF_HOST, "if", "condition"),
    ("{% unless {C} %}T{% else %}F{% endunless %}", "unless", "condition"),
    ("{% if nosuch %}N{% elsif {C} %}T{% else %}F{% endif %}", "if", "elsif-condition"),
    ("{{ 'T' if {C} else 'F' }}", "ternary", "condition"),
    ("{% assign s = 'T' if {C} %}[{{ s }}]", "ternary", "condition-no-else"),
    ("{% liquid if {C}\necho 'T'\nelse\necho 'F'\nendif %}", "liquid", "if-condition"),
]

# unparenthesised source forms (their ASTs are right-nested trees already in the menu)
BARE_CONDITIONS = [
    "p and q or r", "p or q and r", "not p and q", "not p or q", "p and not q or r", "not p and not q",
    "p or q or r", "p and q and r", "not not p", "(p)", "((p and q))", "not (p) and q",
]
COMPARISON_ATOMS = ("x == 1", "a contains 2", "y.a")
COMPARISONS = [
    "x == 1", "x != 1", "x <> 1", "x < 2", "x > 0", "x <= 1", "x >= 1", "a contains 2", "x == 'a b'", "y.a == x",
    "x == empty", "a == empty", "x == blank", "x != nil", "nil == x", "x == true", "x == false", "1.5 > x",
    "x contains 'a'", "a.size > 2", "(1..3) contains x", "x == (1..3)",
]
GROUPED_COMPARISONS = [
    ("(p and q) == r", "logical-group-as-left-operand"),
    ("(p or q) != r", "logical-group-as-left-operand"),
    ("(not p) == q", "logical-group-as-left-operand"),
    ("p == (q or r)", "logical-group-as-right-operand"),
    ("p == (not q)", "logical-group-as-right-operand"),
    ("(x == 1) == p", "comparison-group-as-left-operand"),
    ("p == (x == 1)", "comparison-group-as-right-operand"),
    ("(x < 2) and p", "comparison-group-under-and"),
    ("not (x == 1)", "comparison-group-under-not"),
    ("not x == 1", "comparison-under-not"),
    ("(a contains 2) or p", "membership-group-under-or"),
]


CMP_OPS = ("==", "!=", "<", ">", "<=", ">=", "contains")


def grouped_operand_comparisons() -> list[tuple[str, str]]:
    """A comparison whose left / right / both operands are parenthesised groups: every
    (outer operator, inner operator) pair and every logical group, on each side."""
    out: list[tuple[str, str]] = []
    for outer in CMP_OPS:
        for inner in CMP_OPS:
            out.append((f"(u {inner} w) {outer} z", f"({inner})-group-as-left-operand-of-({outer})"))
            out.append((f"u {outer} (w {inner} z)", f"({inner})-group-as-right-operand-of-({outer})"))
        out.append((f"(u == w) {outer} (w != z)", f"comparison-groups-as-both-operands-of-({outer})"))
        out.append((f"u {outer} (w == (z == p))", f"nested-comparison-groups-as-right-operand-of-({outer})"))
        out.append((f"((u == w) == z) {outer} p", f"nested-comparison-groups-as-left-operand-of-({outer})"))
        for grp, name in (("p and q", "and"), ("p or q", "or"), ("not p", "not")):
            out.append((f"({grp}) {outer} z", f"({name})-group-as-left-operand-of-({outer})"))
            out.append((f"u {outer} ({grp})", f"({name})-group-as-right-operand-of-({outer})"))
    return out


def boolean_instances(tier: str) -> list[Inst]:
    out: list[Inst] = []
    core_set = {repr(t) for t in CORE_TREES}
    for t in trees(3):
        out.append(Inst(IF_HOST.replace("{C}", tree_src(t)), "boolean", tree_shape(t),
                        (Comp("if", "condition", IF_HOST.replace("{C}", "p")),) + tree_comps(t), False,
                        repr(t) in core_set, repr(t) in core_set or tree_depth(t) <= 2))
    for host, hk, hf in COND_HOSTS[1:]:
        deep = tier != "quick" and hk in ("unless", "ternary") and hf == "condition"
        for t in trees(3) if deep else trees(2):
            out.append(Inst(host.replace("{C}", tree_src(t)), "boolean", tree_shape(t),
                            (Comp(hk, hf, host.replace("{C}", "p")),) + tree_comps(t), False, False,
                            tree_depth(t) <= 2))
    for host, hk, hf in COND_HOSTS:
        hc = Comp(hk, hf, host.replace("{C}", "p"))
        for c in BARE_CONDITIONS:
            out.append(Inst(host.replace("{C}", c), "boolean", "bare:" + c,
                            (hc, Comp("boolean", "bare:" + c, IF_HOST.replace("{C}", c))), False, host == IF_HOST))
        for c in COMPARISONS:
            out.append(Inst(host.replace("{C}", c), "comparison", c,
                            (hc,) + primitive_comps(c) + (Comp("comparison", c, IF_HOST.replace("{C}", c)),), False,
                            host == IF_HOST and c in ("x == 1", "a contains 2", "x == empty", "x != nil")))
        for c, feat in GROUPED_COMPARISONS:
            out.append(Inst(host.replace("{C}", c), "comparison", feat,
                            (hc, Comp("comparison", feat, IF_HOST.replace("{C}", c))), False,
                            host == IF_HOST and c in ("(p and q) == r",)))
        for c, feat in grouped_operand_comparisons():
            out.append(Inst(host.replace("{C}", c), "comparison", feat,
                            (hc, Comp("comparison", feat, IF_HOST.replace("{C}", c))), False, False,
                            host == IF_HOST))
    # trees over comparison atoms (depth <= 2)
    for t in trees(2, COMPARISON_ATOMS):
        if isinstance(t, str):
            continue
        src = tree_src(t)
        out.append(Inst(IF_HOST.replace("{C}", src), "boolean", "over-comparisons:" + tree_shape(t),
                        (Comp("if", "condition", IF_HOST.replace("{C}", "p")),) + tree_comps(t), False, False))
        # the same without the redundant parentheses around right operands / atoms
        bare = src.replace("(", "").replace(")", "") if op_of(t) != "not" and all(isinstance(c, str) for c in t[1:]) else None
        if bare and bare != src:
            out.append(leaf(IF_HOST.replace("{C}", bare), "boolean", "over-comparisons-bare:" + tree_shape(t), core=False))
    return out


# ---------------------------------------------------------------------------
# filtered / ternary expressions
# ---------------------------------------------------------------------------
FILTERED: list[tuple[str, str, str]] = [
    ("x | upcase", "filtered", "one-filter"),
    ("x | default: 'd'", "filtered", "positional-argument"),
    ("x | default: 'd', allow_false: true", "filtered", "positional+keyword-argument"),
    ("x | default: allow_false: true, 'd'", "filtered", "keyword-before-positional"),
    ("x | append: v | upcase", "filtered", "two-filters"),
    ("a | join: ', ' | upcase | size", "filtered", "three-filters"),
    ("a | slice: 1, 2 | join: '-'", "filtered", "two-positional-arguments"),
    ("x | replace: 'a', \"b\"", "filtered", "mixed-quote-arguments"),
    ("a | map: 'k' | join: \"it's\"", "filtered", "argument-contains-quote"),
    ("x | plus: 1.5 | times: -2", "filtered", "numeric-arguments"),
    ("a | where: 'k', 2 | size", "filtered", "where"),
    ("x | append: y.a | append: a[0] | append: y['a b']", "filtered", "path-arguments"),
    ("(1..x) | join: ','", "filtered", "range-left"),
    ("'a b' | split: ' ' | last", "filtered", "string-left"),
    ("x | default: (1..3) | join: '-'", "filtered", "range-argument"),
    ("x | default: nil", "filtered", "nil-argument"),
    ("x | append: 'a" + BS + "b'", "filtered", "backslash-argument"),
    ("x | default: 'd', allow_false: p", "filtered", "keyword-argument-variable"),
    ("1.5 | round", "filtered", "float-left"),
    # ternaries
    ("'T' if p", "ternary", "no-else"),
    ("'T' if p else 'F'", "ternary", "else"),
    ("x | upcase if p else v", "ternary", "filter-on-left"),
    ("x if p else v | upcase", "ternary", "filter-on-alternative"),
    ("x | upcase if p else v | downcase", "ternary", "filters-on-both"),
    ("x if p else v || append: '!'", "ternary", "tail-filter"),
    ("x | upcase if p else v | downcase || append: '!' | prepend: '<'", "ternary", "all-filter-positions"),
    ("x if p || upcase", "ternary", "tail-filter-no-else"),
    ("x if p and q else v", "ternary", "and-condition"),
    ("x if not p else v", "ternary", "not-condition"),
    ("x if x == 1 else v", "ternary", "comparison-condition"),
    ("x | default: 'd', allow_false: true if p else y.a | append: 'k', z: 1 || slice: 0, 1", "ternary", "arguments-everywhere"),
    ("(1..3) if p else a | join: ','", "ternary", "range-left"),
]
FILTER_HOSTS: list[tuple[str, str, str]] = [
    ("{{ {F} }}", "output", "filtered"),
    ("{% echo {F} %}", "echo", "filtered"),
    ("{% assign s = {F} %}[{{ s }}]", "assign", "filtered"),
    ("{% liquid echo {F} %}", "liquid", "echo-filtered"),
    ("{% liquid assign s = {F}\necho s %}", "liquid", "assign-filtered"),
]


def filtered_instances() -> list[Inst]:
    out: list[Inst] = []
    for host, hk, hf in FILTER_HOSTS:
        hc = Comp(hk, hf, host.replace("{F}", "x | upcase"))
        for src, k, f in FILTERED:
            out.append(Inst(host.replace("{F}", src), hk, f"{hf}:{k}:{f}",
                            (hc,) + primitive_comps(src) + (Comp(k, f, "{{ " + src + " }}"),), False,
                            host == "{{ {F} }}"))
    return out


# ---------------------------------------------------------------------------
# structural instances
# ---------------------------------------------------------------------------
def loop_args(tablerow: bool) -> list[tuple[str, str]]:
    """Every combination of the loop arguments (source text, feature label)."""
    opts: list[tuple[str, str]] = [("limit: 2", "limit"), ("offset: 1", "offset")]
    if tablerow:
        opts.append(("cols: 2", "cols"))
    opts.append(("reversed", "reversed"))
    out: list[tuple[str, str]] = []
    for mask in range(1 << len(opts)):
        chosen = [o for i, o in enumerate(opts) if mask >> i & 1]
        out.append((" ".join(c[0] for c in chosen), "+".join(c[1] for c in chosen) or "no-arguments"))
    return out


def structural_instances() -> list[Inst]:
    L: list[Inst] = []
    # -- text
    L += [
        leaf("a ", "content", "plain-text"),
        leaf(" \n\t", "content", "whitespace"),
        leaf("a } b { c", "content", "single-braces"),
        leaf("}} %} ]", "content", "closing-delimiters"),
        leaf("x\n  y\n", "content", "newlines"),
    ]
    # -- if / unless
    L += [
        block("{% if x %}{B}{% endif %}", "if", "plain"),
        block("{% if x %}{B}{% else %}E{% endif %}", "if", "else(body-in-consequence)"),
        block("{% if x %}I{% else %}{B}{% endif %}", "if", "else(body-in-else)"),
        block("{% if x == 1 %}I{% elsif v %}{B}{% else %}E{% endif %}", "if", "elsif+else"),
        block("{% if x == 1 %}I{% elsif v %}J{% elsif y %}{B}{% endif %}", "if", "two-elsif"),
        leaf("{% if x %}{% endif %}", "if", "empty-body"),
        leaf("{% if x %}{% else %}{% endif %}", "if", "empty-bodies-with-else"),
        leaf("{% if x %} {% else %}\n{% endif %}", "if", "blank-bodies"),
        block("{% unless x %}{B}{% endunless %}", "unless", "plain"),
        block("{% unless x %}U{% else %}{B}{% endunless %}", "unless", "else"),
        block("{% unless x %}U{% elsif v %}{B}{% else %}E{% endunless %}", "unless", "elsif+else"),
    ]
    # -- case
    L += [
        block("{% case x %}{% when 1 %}{B}{% when 'a', 2 %}W{% else %}E{% endcase %}", "case", "when+multi-when+else"),
        block("{% case x %}{% when 'z' %}W{% else %}{B}{% endcase %}", "case", "body-in-else"),
        block("{% case x %}{% when 1 or 'a b' %}{B}{% endcase %}", "case", "when-or"),
        leaf("{% case x %}{% endcase %}", "case", "no-when"),
        leaf("{% case x %}{% else %}E{% endcase %}", "case", "only-else"),
        leaf("{% case x %}\n  {% when 1 %}\n  A\n  {% else %}\n  E\n{% endcase %}", "case", "whitespace-layout"),
        leaf("{% case x %}junk{% when 1 %}A{% endcase %}", "case", "text-before-first-when"),
        leaf("{% case y.a %}{% when x %}A{% when a[0], y.b.first %}B{% endcase %}", "case", "path-operands"),
        leaf("{% case x %}{% when 1 %}A{% else %}E{% when 'a b' %}B{% endcase %}", "case", "when-after-else"),
    ]
    # -- for / tablerow, every argument combination, with and without else
    for args, feat in loop_args(False):
        sp = " " if args else ""
        L.append(block("{% for v in a" + sp + args + " %}{B}{% endfor %}", "for", feat))
        L.append(block("{% for v in a" + sp + args + " %}{B}{% else %}E{% endfor %}", "for", feat + "+else", core=False))
    L += [
        block("{% for v in x %}I{% else %}{B}{% endfor %}", "for", "body-in-else"),
        block("{% for v in a offset: continue %}{B}{% endfor %}", "for", "offset-continue"),
        leaf("{% for v in a limit: 1 %}{{ v }}{% endfor %}{% for v in a offset: continue limit: 1 %}{{ v }}{% endfor %}"
             "{% for v in a offset: continue %}{{ v }}{% endfor %}", "for", "offset-continue-sequence"),
        block("{% for v in a limit: n offset: y.a %}{B}{% endfor %}", "for", "variable-limit-offset"),
        block("{% for v in (1..3) reversed %}{B}{% endfor %}", "for", "range-reversed"),
        block("{% for v in (x..y.a) %}{B}{% endfor %}", "for", "range-variable-ends"),
        block("{% for v in y %}{B}{% endfor %}", "for", "hash-iterable"),
        block("{% for v in a reversed limit: 2 %}{B}{% endfor %}", "for", "reversed-before-limit"),
        block("{% for v in a, limit: 2, offset: 1 %}{B}{% endfor %}", "for", "comma-separated-arguments"),
        leaf("{% for v in a %}{{ forloop.index }}{{ forloop.first }}{{ forloop.length }}{% endfor %}", "for", "forloop-drop"),
        leaf("{% for v in a %}{% if v == 2 %}{% break %}{% endif %}{{ v }}{% endfor %}", "for", "break"),
        leaf("{% for v in a %}{% if v == 2 %}{% continue %}{% endif %}{{ v }}{% endfor %}", "for", "continue"),
        leaf("{% for v in a %}{% for w in a limit: 2 %}{{ v }}{{ w }}{{ forloop.parentloop.index }}{% endfor %}{% endfor %}",
             "for", "nested-parentloop"),
        leaf("{% for v in a %}{% endfor %}", "for", "empty-body"),
    ]
    for args, feat in loop_args(True):
        sp = " " if args else ""
        L.append(block("{% tablerow v in a" + sp + args + " %}{B}{% endtablerow %}", "tablerow", feat,
                       core=feat in ("no-arguments", "cols", "limit+offset+cols+reversed")))
    L += [
        leaf("{% tablerow v in (1..4) cols: 2 %}{{ tablerowloop.col }}{{ v }}{% endtablerow %}", "tablerow", "range+drop"),
        leaf("{% tablerow v in a cols: n limit: y.a %}{{ v }}{% endtablerow %}", "tablerow", "variable-arguments", core=False),
    ]
    # -- capture / assign / echo
    L += [
        block("{% capture s %}{B}{% endcapture %}[{{ s }}]", "capture", "plain"),
        leaf("{% capture s %}{% endcapture %}[{{ s }}]", "capture", "empty-body"),
        block("{% capture s %}a{% capture t %}{B}{% endcapture %}{{ t }}{% endcapture %}[{{ s }}{{ t }}]", "capture", "nested"),
        leaf("{% capture s-t %}a{% endcapture %}[{{ s-t }}]", "capture", "hyphenated-name"),
        leaf("{% assign s = 'z' %}[{{ s }}]", "assign", "string"),
        leaf("{% assign x = a | first %}[{{ x }}]", "assign", "rebinds-x"),
        leaf("{% assign v = x %}", "assign", "rebinds-v"),
        leaf("{% assign s-t = 1 %}[{{ s-t }}]", "assign", "hyphenated-name"),
        leaf("{% echo x %}", "echo", "variable"),
        leaf("{% echo %}", "echo", "no-expression"),
        leaf("{{ s }}", "output", "reads-s"),
        leaf("{{ c }}", "output", "reads-c"),
        leaf("{{ v }}", "output", "reads-v"),
        leaf("{{x}}", "output", "no-spaces"),
        leaf("{{  x\n}}", "output", "odd-spacing"),
    ]
    # -- cycle
    two = "{% cycle 'zz': 'p', 'q' %}"
    L += [
        leaf("{% cycle 'p', 'q' %}", "cycle", "no-group:strings"),
        leaf("{% cycle 1, 2, 3 %}{% cycle 1, 2, 3 %}", "cycle", "no-group:integers"),
        leaf("{% cycle x, v %}", "cycle", "no-group:variables"),
        leaf("{% cycle 'p', x, 1.5, nosuch %}", "cycle", "no-group:mixed"),
        leaf("{% cycle 'p' %}", "cycle", "no-group:one-item"),
        leaf("{% cycle g: 'p', 'q' %}", "cycle", "group:identifier", probe="{% cycle g: 'p', 'q' %}{% cycle h: 'p', 'q' %}"),
        leaf("{% cycle h: 'p', 'q' %}", "cycle", "group:identifier", probe="{% cycle g: 'p', 'q' %}{% cycle h: 'p', 'q' %}"),
        leaf("{% cycle 'g': 'p', 'q' %}", "cycle", "group:string-literal", probe="{% cycle 'g': 'p', 'q' %}" + two),
        leaf('{% cycle "h": \'p\', \'q\' %}', "cycle", "group:string-literal", probe='{% cycle "h": \'p\', \'q\' %}' + two),
        leaf("{% cycle 'a b': 'p', 'q' %}", "cycle", "group:string-literal", probe="{% cycle 'a b': 'p', 'q' %}" + two),
        leaf("{% cycle 1: 'p', 'q' %}", "cycle", "group:integer", probe="{% cycle 1: 'p', 'q' %}{% cycle 2: 'p', 'q' %}"),
    ]
    cyc_str = Comp("cycle", "group:string-literal", "{% cycle 'g': 'p', 'q' %}" + two)
    for src, feat in (
        ("{% cycle 'g': 'p', 'q' %}{% cycle 'h': 'p', 'q' %}{% cycle 'g': 'p', 'q' %}", "three-string-literal-groups"),
        ("{% cycle g: x, v %}{% cycle 'g': x, v %}{% cycle x, v %}", "group:identifier+string-literal+none"),
    ):
        L.append(Inst(src, "cycle", feat, (cyc_str, Comp("cycle", feat, src)), False, False))
    # -- increment / decrement / ifchanged
    L += [
        leaf("{% increment c %}", "increment", "plain"),
        leaf("{% decrement c %}", "decrement", "plain"),
        leaf("{% increment x %}{{ x }}", "increment", "name-shadows-data"),
        leaf("{% increment c %}{% increment c %}{% decrement c %}{{ c }}", "increment", "sequence"),
        block("{% ifchanged %}{B}{% endifchanged %}", "ifchanged", "plain"),
        leaf("{% ifchanged %}{{ x }}{% endifchanged %}{% ifchanged %}{{ x }}{% endifchanged %}", "ifchanged", "twice"),
        leaf("{% ifchanged %}{% endifchanged %}", "ifchanged", "empty-body"),
    ]
    # -- include / render
    L += [
        leaf("{% include 'p' %}", "include", "name"),
        leaf("{% include 'p' with x %}", "include", "with"),
        leaf("{% include 'p' with y.a as v %}", "include", "with-as"),
        leaf("{% include 'p' for a %}", "include", "for"),
        leaf("{% include 'p' for a as v %}", "include", "for-as"),
        leaf("{% include 'p', v: x %}", "include", "kwargs"),
        leaf("{% include 'p', v: x, x: 'k' %}", "include", "two-kwargs"),
        leaf("{% include 'p' with a[0] as v, x: 'k' %}", "include", "with-as+kwargs"),
        leaf("{% include 'p' for a as v, x: y.a %}", "include", "for-as+kwargs"),
        leaf("{% include 'p' v: x %}", "include", "kwargs-no-comma"),
        leaf("{% include y.n %}", "include", "name-from-path"),
        leaf('{% include "sub/p.liquid" with x %}', "include", "name-with-slash+with"),
        leaf("{% include 'r' %}", "include", "partial-includes-partial"),
        leaf("{% render 'p' %}", "render", "name"),
        leaf("{% render 'p' with x %}", "render", "with"),
        leaf("{% render 'p' with x as v %}", "render", "with-as"),
        leaf("{% render 'p' for a %}", "render", "for"),
        leaf("{% render 'p' for a as v %}", "render", "for-as"),
        leaf("{% render 'p', v: x %}", "render", "kwargs"),
        leaf("{% render 'p', v: x, x: 'k' %}", "render", "two-kwargs"),
        leaf("{% render 'p' with a[0] as v, x: 'k' %}", "render", "with-as+kwargs"),
        leaf("{% render 'p' for a as v, x: y.a %}", "render", "for-as+kwargs"),
        leaf("{% render 'p' for a as v x: 1 %}", "render", "for-as+kwargs-no-comma", core=False),
        leaf('{% render "q" %}', "render", "partial-with-loop-and-render"),
        leaf("{% render 'fl' for a as v %}", "render", "for+forloop-drop"),
    ]
    # -- liquid
    L += [
        leaf("{% liquid assign s = x\necho s %}", "liquid", "two-lines"),
        leaf("{% liquid echo x %}", "liquid", "one-line"),
        Inst("{% liquid %}", "liquid", "empty",
             (Comp("liquid", "empty", "{% liquid %}"),
              Comp("liquid", "empty-tag-followed-by-a-tag", "{% liquid %}{% echo x %}b")), False, True),
        Inst("{% liquid\n%}", "liquid", "empty-with-newline",
             (Comp("liquid", "empty-with-newline", "{% liquid\n%}"),
              Comp("liquid", "empty-tag-followed-by-a-tag", "{% liquid %}{% echo x %}b")), False, False),
        leaf("{% liquid\n  if x\n    echo 'L'\n  else\n    echo 'M'\n  endif\n%}", "liquid", "if-block-indented"),
        leaf("{% liquid for v in a limit: 2 reversed\necho v\nendfor %}", "liquid", "for-block"),
        leaf("{% liquid # a comment\necho x\n# another %}", "liquid", "comment-lines"),
        leaf("{% liquid echo x\n\n\necho v\n\n%}", "liquid", "blank-lines"),
        leaf("{% liquid cycle 'g': 'p', 'q'\ncycle 'h': 'p', 'q' %}", "liquid", "cycle-groups"),
        leaf("{% liquid tablerow v in a cols: 2\necho v\nendtablerow %}", "liquid", "tablerow-block"),
        leaf("{% liquid case x\nwhen 1\necho 'A'\nelse\necho 'E'\nendcase %}", "liquid", "case-block"),
        leaf("{% liquid assign s = 'a" + BS + "b'\necho s %}", "liquid", "backslash-string"),
        leaf("{% liquid capture s\necho x\nendcapture\necho s %}", "liquid", "capture-block"),
        leaf("{% liquid increment c\nrender 'p', v: x\ninclude 'p' %}", "liquid", "increment-render-include"),
        leaf("{% liquid liquid echo x %}", "liquid", "nested-liquid"),
    ]
    # -- comments
    L += [
        leaf("{% comment %} plain {% endcomment %}", "comment", "block:text"),
        leaf("{% comment %}{% endcomment %}", "comment", "block:empty"),
        leaf("{% comment %} {{ x }} {% if %} {% endcomment %}", "comment", "block:markup-like-text"),
        leaf("{% comment %}a{% comment %}b{% endcomment %}c{% endcomment %}", "comment", "block:nested"),
        leaf("{% comment %}{% raw %}{% endcomment %}{% endraw %}{% endcomment %}", "comment", "block:raw-inside"),
        leaf("{% # inline {{ x }} %}", "comment", "inline:text"),
        leaf("{% # a\n   # b %}", "comment", "inline:two-lines"),
        leaf("{% # %}", "comment", "inline:empty"),
        leaf("{%# tight %}", "comment", "inline:no-space"),
        leaf("{% ## double %}", "comment", "inline:double-hash"),
    ]
    # -- raw
    L += [
        leaf("{% raw %}plain{% endraw %}", "raw", "body:plain-text"),
        leaf("{% raw %}{% endraw %}", "raw", "body:empty"),
        leaf("{% raw %} \n{% endraw %}", "raw", "body:whitespace"),
        leaf("{% raw %}{{ x }}{% endraw %}", "raw", "body:output-markup"),
        leaf("{% raw %}{% assign x = 'R' %}{% endraw %}", "raw", "body:tag-markup"),
        leaf("{% raw %}{% if x %}{% endraw %}", "raw", "body:unbalanced-tag-markup"),
        leaf("{% raw %}{{ {% endraw %}", "raw", "body:unclosed-output-markup"),
        leaf("{% raw %}{% comment %}{% endraw %}", "raw", "body:unclosed-comment-markup"),
        leaf("{% raw %}a } b { c }} d %}{% endraw %}", "raw", "body:stray-delimiters"),
        leaf("{% raw %}{% # c %}{% endraw %}", "raw", "body:inline-comment-markup"),
    ]
    return L


# ---------------------------------------------------------------------------
# assembled menus
# ---------------------------------------------------------------------------
_CACHE: dict[str, Any] = {}


def singles(tier: str) -> list[Inst]:
    key = "singles:" + tier
    if key not in _CACHE:
        seen: set[str] = set()
        out: list[Inst] = []
        for inst in structural_instances() + host_prim_instances() + boolean_instances(tier) + filtered_instances():
            if inst.src in seen:
                continue
            seen.add(inst.src)
            out.append(inst)
        # every probe is itself an enumerated single
        for inst in list(out):
            for comp in inst.comps:
                if comp.probe not in seen:
                    seen.add(comp.probe)
                    out.append(Inst(comp.probe, comp.kind, comp.feature, (comp,), False, False))
        _CACHE[key] = out
    return _CACHE[key]


def core_menu(tier: str) -> list[Inst]:
    key = "core:" + tier
    if key not in _CACHE:
        _CACHE[key] = [i for i in singles(tier) if i.core]
    return _CACHE[key]


def reduced_menu(tier: str) -> list[Inst]:
    """One instance per instance-level kind plus the known-delicate ones: used for triples."""
    key = "reduced:" + tier
    if key not in _CACHE:
        want = [
            "a ", "{{ x }}", "{{ 'a' }}", "{{ x | default: 'd', allow_false: true }}", "{{ x if p else v || append: '!' }}",
            "{% assign s = 'z' %}[{{ s }}]", "{% assign v = x %}", "{% echo x %}", "{% cycle 'p', 'q' %}",
            "{% cycle 'g': 'p', 'q' %}", "{% cycle g: 'p', 'q' %}", "{% increment c %}", "{% decrement c %}", "{{ c }}",
            "{% include 'p' with x %}", "{% render 'p' for a as v %}", "{% liquid assign s = x\necho s %}",
            "{% comment %} plain {% endcomment %}", "{% # inline {{ x }} %}", "{% raw %}plain{% endraw %}",
            "{% raw %}{{ x }}{% endraw %}", "{% for v in a %}{% if v == 2 %}{% break %}{% endif %}{{ v }}{% endfor %}",
            "{% if x %}{B}{% endif %}", "{% if x %}I{% else %}{B}{% endif %}", "{% unless x %}{B}{% endunless %}",
            "{% case x %}{% when 1 %}{B}{% when 'a', 2 %}W{% else %}E{% endcase %}",
            "{% case x %}{% when 'z' %}W{% else %}{B}{% endcase %}", "{% for v in a %}{B}{% endfor %}",
            "{% for v in a limit: 2 offset: 1 reversed %}{B}{% endfor %}", "{% for v in a offset: continue %}{B}{% endfor %}",
            "{% for v in x %}I{% else %}{B}{% endfor %}", "{% tablerow v in a cols: 2 %}{B}{% endtablerow %}",
            "{% capture s %}{B}{% endcapture %}[{{ s }}]", "{% ifchanged %}{B}{% endifchanged %}",
            IF_HOST.replace("{C}", "(p and q) or r"), IF_HOST.replace("{C}", "p and (q or r)"),
        ]
        by_src = {i.src: i for i in singles(tier)}
        _CACHE[key] = [by_src[s] for s in want]
    return _CACHE[key]


class Case(NamedTuple):
    source: str
    shape: Any  # JSON-able identity
    insts: tuple[Inst, ...]


def pair_space(menu: list[Inst]) -> int:
    return len(menu) * len(menu)


def pair_case(menu: list[Inst], idx: int) -> Case:
    i, j = divmod(idx, len(menu))
    a, b = menu[i], menu[j]
    return Case(a.fill(DEFAULT_BODY) + b.fill(DEFAULT_BODY), ["P", a.src, b.src], (a, b))


def nest_space(menu: list[Inst]) -> tuple[list[Inst], int]:
    blocks = [m for m in menu if m.block]
    return blocks, len(blocks) * len(menu)


def nest_case(blocks: list[Inst], menu: list[Inst], idx: int) -> Case:
    i, j = divmod(idx, len(menu))
    outer, inner = blocks[i], menu[j]
    return Case(outer.fill(inner.fill(DEFAULT_BODY)), ["N", outer.src, inner.src], (outer, inner))


def triple_cases(menu: list[Inst]) -> Iterator[Case]:
    """Every program of exactly three instances over ``menu`` (sequence / nesting shapes):
    A B C,  A[B] C,  A B[C],  A[B C],  A[B[C]]."""
    blocks = [m for m in menu if m.block]
    D = DEFAULT_BODY
    for a, b, c in itertools.product(menu, repeat=3):
        yield Case(a.fill(D) + b.fill(D) + c.fill(D), ["T-seq", a.src, b.src, c.src], (a, b, c))
    for a in blocks:
        for b, c in itertools.product(menu, repeat=2):
            yield Case(a.fill(b.fill(D)) + c.fill(D), ["T-nest-then", a.src, b.src, c.src], (a, b, c))
            yield Case(c.fill(D) + a.fill(b.fill(D)), ["T-then-nest", c.src, a.src, b.src], (c, a, b))
            yield Case(a.fill(b.fill(D) + c.fill(D)), ["T-nest-two", a.src, b.src, c.src], (a, b, c))
    for a, b in itertools.product(blocks, repeat=2):
        for c in menu:
            yield Case(a.fill(b.fill(c.fill(D))), ["T-nest-nest", a.src, b.src, c.src], (a, b, c))


def triple_count(menu: list[Inst]) -> int:
    n = len(menu)
    nb = len([m for m in menu if m.block])
    return n**3 + 3 * nb * n * n + nb * nb * n


# ---------------------------------------------------------------------------
# data assignments and partials
# ---------------------------------------------------------------------------
PARTIALS: dict[str, str] = {
    "p": "<p:{{ v }}|{{ x }}|{{ p }}>",
    "q": "<q:{% assign s = 'qs' %}{% for v in a %}{{ v }}{% endfor %}{% render 'p', v: s %}>",
    "r": "<r:{% if x %}{{ y.a }}{% endif %}{% include 'p' %}{{ nosuch }}>",
    "sub/p.liquid": "<sp:{{ p }}|{{ x }}>",
    "fl": "<{{ forloop.index }}/{{ forloop.length }}:{{ v }}>",
    "a": "<a:{{ v }}>",
    "a b": "<a b:{{ v }}>",
    "it's": "<its>",
    'it"s': "<itds>",
    "1": "<one>",
}


def _base_sets() -> list[tuple[str, dict[str, Any]]]:
    return [
        ("D0", {"x": 1, "y": {"a": 1, "b": [1, 2], "a b": "y-ab", "it's": "y-its", "n": "p", "x": "yx"}, "a": [1, 2, 3],
                "v": "vv", "b": {"c": 1}, "g": "G1", "h": "G2", "n": 2, "a b": {"c": "ABC"}}),
        ("D1", {"x": "a b", "y": {}, "a": [], "v": "", "g": "same", "h": "same", "n": 0}),
        ("D2", {}),
        ("D3", {"x": None, "y": "str", "a": "abc", "v": 7, "g": "zz", "n": 1, "a b": "root-ab"}),
        ("D4", {"x": [3, 1, 2], "y": 3, "a": [{"k": "v"}, {"k": 2}, {"z": 0}], "v": "a", "b": {"c": 0}, "h": "zz", "n": 5}),
        ("D5", {"x": False, "y": {"a": [1], "b": "s", "a" + BS + "b": "y-bs", "a" + BS + BS + "b": "y-bsbs"},
                "a": range(2, 5), "v": None, "g": 1, "h": 1, "n": 2}),
        ("D6", {"x": "y", "y": {"y": "yy", "a": 2, "1": "y-one", "n": "a b"}, "a": ["y", "a b", 2, "a"], "v": "y",
                "b": {"c": -1}, "g": "g", "h": "h", "n": "1", "1": "root-one", "s": "data-s", "c": "data-c"}),
        ("D7", {"x": 0, "y": {"a": "a b", "b": [[1, 2], [3]]}, "a": [[1, 2], [3, 4]], "v": "v", "b": {"c": 1},
                "g": None, "n": 3, "a b": {"c": [1]}, "1e-05": "root-word-1e-05"}),
    ]


# operands of the grouped comparisons (u <op> w <op> z): collections holding booleans, numbers, strings
_UWZ: list[dict[str, Any]] = [
    {"u": [True], "w": 1, "z": 1},
    {"u": [False, 1], "w": 1, "z": 2},
    {},
    {"u": "true false", "w": "a", "z": "a"},
    {"u": [True, False], "w": 2, "z": 1},
    {"u": True, "w": True, "z": False},
    {"u": [1, 2], "w": 1, "z": True},
    {"u": False, "w": 0, "z": 0},
]


def _with_quoted_names(i: int, d: dict[str, Any]) -> dict[str, Any]:
    """Bind every QUOTED_NAMES name as a root variable and as a key of y / a[0] / y[x] in some assignments."""
    names = [n for n, _ in QUOTED_NAMES]
    if i == 0:
        d["y"] = dict(d["y"], **{n: {"a": f"y[{n}].a", n: f"y[{n}][{n}]"} for n in names})
        d.update({n: {"a": f"root[{n}].a"} for n in names})
    elif i == 4:
        d["a"] = [dict(d["a"][0], **{n: f"a[0][{n}]" for n in names})] + d["a"][1:]
        d.update({n: f"root[{n}]" for n in names})
    elif i == 6:
        d["y"] = dict(d["y"], y={n: f"y[x][{n}]" for n in names}, **{f"root[{n}][0]": f"y[[{n}]]" for n in names})
        d.update({n: [f"root[{n}][0]", 1] for n in names})
    return d


def data_sets() -> list[tuple[str, dict[str, Any]]]:
    """Eight assignments; (p, q, r) runs through all eight truth assignments."""
    out = []
    for i, (lab, d) in enumerate(_base_sets()):
        d = _with_quoted_names(i, dict(d))
        d.update(_UWZ[i])
        d["p"], d["q"], d["r"] = bool(i & 1), bool(i & 2), bool(i & 4)
        out.append((f"{lab}[p={int(d['p'])},q={int(d['q'])},r={int(d['r'])}]", d))
    return out
