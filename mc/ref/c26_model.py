"""Reference model for C26 (null translations leave message text intact).

Every rule carries its provenance:

* R-select   statement: "The plural form is chosen by count exactly as gettext's null
             translations choose it" -> ``gettext.NullTranslations().ngettext`` is called
             directly; with no plural text or no count there is nothing to choose and the
             singular (the message itself) is the message text.
* R-subst    statement: "output their message text unchanged except that %(name)s
             placeholders are replaced by the named variables"; docs/babel.md "Message
             variables": "All variables are converted to their string representation
             before substitution" and keyword arguments are "merged with the current
             render context".  One pass over the *message text*; a substituted value is
             not message text and is never re-scanned.
* R-missing  docs/variables_and_drops.md "Default undefined": an unresolvable variable
             "when rendered ... produces an empty string".
* R-tagvars  docs/babel.md: the translate tag "recognizes simplified Liquid output
             statements as translation message variables" -> in a tag body only
             ``{{ name }}`` is a placeholder, every other character (including a literal
             ``%(v)s``) is text.
* R-collapse statement: "the tag also collapses whitespace runs"; docs/babel.md "Message
             Extraction" shows the block text stripped.  How a run *without* a newline is
             treated is not settled, so two readings are accepted (collapse every run /
             collapse only runs that contain a newline); both strip the ends.
"""

from __future__ import annotations

import re
from gettext import NullTranslations
from typing import Any
from typing import Mapping
from typing import Optional

NULL = NullTranslations()

RE_PLACEHOLDER = re.compile(r"%\((\w+)\)s")
RE_TAG_VAR = re.compile(r"\{\{ (\w+) \}\}")
RE_WS_NEWLINE = re.compile(r"\s*\n\s*")
RE_WS_ANY = re.compile(r"\s+")


def select(singular: str, plural: Optional[str], count: Any, count_given: bool) -> tuple[str, bool]:
    """R-select.  Returns (chosen text, True iff the plural text was chosen)."""
    if plural is None or not count_given:
        return singular, False
    plural_chosen = NULL.ngettext("singular", "plural", count) == "plural"
    return (plural if plural_chosen else singular), plural_chosen


def form_unspecified(count: Any) -> bool:
    """True iff neither the statement nor the docs settle which form ``count`` selects.

    docs/optional_filters.md calls the count "a number used to determine if the singular or
    plural message should be used" and says nothing about conversion.  Unsettled therefore:
    a string that is not an integer numeral ("many"), a numeric string whose integer
    conversion selects another form than the raw string does ("1"), and a non-integral
    float (2.5: outside gettext's domain -- plural rules are defined on integers)."""
    if isinstance(count, float):
        return count != int(count)
    if not isinstance(count, str):
        return False
    try:
        n = int(count)
    except ValueError:
        return True
    return NULL.ngettext("singular", "plural", n) != NULL.ngettext("singular", "plural", count)


def stringify(v: Any) -> str:
    """String representation of the (str / int / float) values this check supplies."""
    assert isinstance(v, (str, int, float)) and not isinstance(v, bool)
    return str(v)


RE_PERCENT_RUN = re.compile(r"(%+)(?:\((\w+)\)s)?")


def format_filter(text: str, variables: Mapping[str, Any]) -> frozenset[str]:
    """R-subst + R-missing for a filter message (single pass over the message text; a
    substituted value is inserted verbatim and never re-scanned).  Returns the set of
    accepted outputs.

    R-digraph: the statement says "unchanged" (``%%`` stays ``%%``) while the placeholder
    syntax is documented as "percent-style formatting" (docs/babel.md), where ``%%`` is an
    escaped ``%``: both readings of the digraph are accepted, consistently per message.
    Where a run of k percent signs directly precedes ``(name)s`` the run can be paired up in
    two ways -- (a) left to right like printf, so for even k the ``(name)s`` is plain text,
    (b) the placeholder claims the adjacent ``%`` first and is always substituted; for odd k
    both agree that the placeholder is substituted.  Either pairing is accepted (consistently
    per message).  Without a ``%%`` in the message all four readings coincide.
    """

    def value(name: str) -> str:
        return stringify(variables[name]) if name in variables else ""

    out = set()
    for pairing in ("printf", "placeholder-first"):
        for pair_out in ("%%", "%"):

            def sub(mo: "re.Match[str]") -> str:
                k, name = len(mo.group(1)), mo.group(2)
                if name is None:
                    return pair_out * (k // 2) + "%" * (k % 2)
                if pairing == "printf" and k % 2 == 0:
                    return pair_out * (k // 2) + "(" + name + ")s"
                rest = k - 1
                return pair_out * (rest // 2) + "%" * (rest % 2) + value(name)

            out.add(RE_PERCENT_RUN.sub(sub, text))
    return frozenset(out)


def format_tag(body: str, variables: Mapping[str, Any]) -> frozenset[str]:
    """R-tagvars + R-collapse + R-subst for a translate-tag body given as template source
    (text tokens and ``{{ v }}`` placeholders).  Returns the set of accepted outputs."""
    marked = RE_TAG_VAR.sub(lambda mo: "\x00" + mo.group(1) + "\x01", body)
    out = set()
    for rx in (RE_WS_NEWLINE, RE_WS_ANY):
        msg = rx.sub(" ", marked.strip())
        out.add(
            re.sub(
                "\x00(\\w+)\x01",
                lambda mo: stringify(variables[mo.group(1)]) if mo.group(1) in variables else "",
                msg,
            )
        )
    return frozenset(out)


# -- input features (used for non-triviality and for finding signatures) ------------
def has_placeholder(text: str) -> bool:
    return RE_PLACEHOLDER.search(text) is not None


def has_percent_digraph(text: str) -> bool:
    return "%%" in text


def has_bare_percent(text: str) -> bool:
    """A ``%`` that is not part of a ``%(name)s`` placeholder."""
    return "%" in RE_PLACEHOLDER.sub("", text)


def has_tag_var(body: str) -> bool:
    return RE_TAG_VAR.search(body) is not None


def tag_ws_ambiguous(body: str) -> bool:
    marked = RE_TAG_VAR.sub("\x00", body).strip()
    return RE_WS_NEWLINE.sub(" ", marked) != RE_WS_ANY.sub(" ", marked)


def tag_collapses(body: str) -> bool:
    marked = RE_TAG_VAR.sub("\x00", body)
    return RE_WS_ANY.sub(" ", marked.strip()) != marked
