"""C15 generators: caller prefixes, call sites, partial/macro bodies, template assembly, output splitting.

No expected values live here: the oracle of C15 is differential (see mc/props/c15.py).  Every value a
caller op, a global or a body op can produce carries a distinct marker so that a deviation can be
attributed to the binding that leaked:

    caller   assign 'A<i><n>'   capture 'C<i><n>'   with 'W<i><n>'   for/tablerow items 'F1','F2'
             increment -> integers
    global   'Gv','Gw','Gp'     explicit argument x='X', arr=['a','b']
    body     assign 'B<n>'      capture 'K<n>'      include -> 'Q'

(<i> = position of the op in the caller prefix, <n> = variable name.)
"""

from __future__ import annotations

import itertools
import re
from typing import Any
from typing import Iterable
from typing import Optional

NAMES = ("v", "w", "p")

# ---------------------------------------------------------------------------
# caller prefixes
# ---------------------------------------------------------------------------
PKINDS = ("assign", "capture", "for", "with", "increment", "tablerow")
POPS: list[tuple[str, str]] = [(k, n) for k in PKINDS for n in NAMES]

Prefix = tuple[tuple[str, str], ...]


def prefixes(maxlen: int) -> list[Prefix]:
    out: list[Prefix] = []
    for n in range(maxlen + 1):
        out.extend(itertools.product(POPS, repeat=n))
    return out


def prefix_src(prefix: Iterable[tuple[str, str]]) -> tuple[str, str]:
    """(opening text, closing text); block ops wrap everything that follows them."""
    opens: list[str] = []
    closes: list[str] = []
    for i, (kind, n) in enumerate(prefix):
        if kind == "assign":
            opens.append(f"{{% assign {n} = 'A{i}{n}' %}}")
        elif kind == "capture":
            opens.append(f"{{% capture {n} %}}C{i}{n}{{% endcapture %}}")
        elif kind == "for":
            opens.append(f"{{% for {n} in farr %}}")
            closes.append("{% endfor %}")
        elif kind == "with":
            opens.append(f"{{% with {n}: 'W{i}{n}' %}}")
            closes.append("{% endwith %}")
        elif kind == "increment":
            opens.append(f"{{% increment {n} %}}")
        elif kind == "tablerow":
            opens.append(f"{{% tablerow {n} in farr %}}")
            closes.append("{% endtablerow %}")
        else:
            raise ValueError(kind)
    return "".join(opens), "".join(reversed(closes))


def prefix_binds(prefix: Iterable[tuple[str, str]]) -> set[str]:
    return {n for _, n in prefix}


def prefix_has_loop(prefix: Iterable[tuple[str, str]]) -> bool:
    return any(k in ("for", "tablerow") for k, _ in prefix)


# ---------------------------------------------------------------------------
# call sites
# ---------------------------------------------------------------------------
# id (one char, used in the sentinels), label, construct, source
SITES: list[tuple[str, str, str, str]] = [
    ("0", "render", "render", "{% render 'p' %}"),
    ("1", "render-kwarg", "render", "{% render 'p', v: x %}"),
    ("2", "render-with", "render", "{% render 'p' with x %}"),
    ("3", "render-with-as", "render", "{% render 'p' with x as v %}"),
    ("4", "render-for-as", "render", "{% render 'p' for arr as v %}"),
    ("5", "render-for", "render", "{% render 'p' for arr %}"),
    ("6", "call", "call", "{% call m0 %}"),
    ("7", "call-arg", "call", "{% call m1, x %}"),
    ("8", "call-unbound", "call", "{% call m1 %}"),
    ("s", "snippet", "snippet", "{% render s %}"),
    ("t", "snippet-kwarg", "snippet", "{% render s, v: x %}"),
    ("u", "snippet-for-as", "snippet", "{% render s for arr as v %}"),
]
# helper sites of the "iterations" family only: one `with` rendering per item of arr
ITEM_SITES: list[tuple[str, str, str, str]] = [
    ("a", "render-with-item0-as", "render", "{% render 'p' with arr[0] as v %}"),
    ("b", "render-with-item1-as", "render", "{% render 'p' with arr[1] as v %}"),
    ("c", "render-with-item0", "render", "{% render 'p' with arr[0] %}"),
    ("d", "render-with-item1", "render", "{% render 'p' with arr[1] %}"),
]
SITE_BY_ID = {s[0]: s for s in SITES + ITEM_SITES}
# `render ... for` site -> the `with` sites that render the same items one by one
ITERATION_RELATIONS: dict[str, tuple[str, str]] = {"4": ("a", "b"), "5": ("c", "d")}


def site_ids(snippets: bool) -> list[str]:
    return [s[0] for s in SITES if snippets or s[2] != "snippet"]


# ---------------------------------------------------------------------------
# partial / macro bodies
# ---------------------------------------------------------------------------
# op -> (source, names read, names written)
BODY_OPS: dict[str, tuple[str, tuple[str, ...], tuple[str, ...]]] = {
    "Rv": ("{{ v }}", ("v",), ()),
    "Rw": ("{{ w }}", ("w",), ()),
    "Rp": ("{{ p }}", ("p",), ()),
    "IFv": ("{% if v %}T{% else %}N{% endif %}", ("v",), ()),
    "IFw": ("{% if w %}T{% else %}N{% endif %}", ("w",), ()),
    "Av": ("{% assign v = 'Bv' %}", (), ("v",)),
    "Aw": ("{% assign w = 'Bw' %}", (), ("w",)),
    "Ap": ("{% assign p = 'Bp' %}", (), ("p",)),
    "Cv": ("{% capture v %}Kv{% endcapture %}", (), ("v",)),
    "Cw": ("{% capture w %}Kw{% endcapture %}", (), ("w",)),
    "Iv": ("{% increment v %}", ("v",), ("v",)),
    "Iw": ("{% increment w %}", ("w",), ("w",)),
    "Fv": ("{% for i in v %}({{ i }}){% endfor %}", ("v",), ()),
    "Fw": ("{% for i in w %}({{ i }}){% endfor %}", ("w",), ()),
    # the caller's loop objects: forloop of an enclosing for, parentloop seen from the body's own
    # loop (control), tablerowloop of an enclosing tablerow, and forloop.parentloop read at the top
    # level of the body (inside `render ... for` forloop is the render's own loop; its parentloop
    # must not be the caller's enclosing loop: "sees only its explicit arguments, its bound
    # variable and global data")
    "FL": (
        "{{ forloop.index }}{% for i in arr limit: 1 %}^{{ forloop.parentloop.index }}{% endfor %}"
        "{{ tablerowloop.col }}/{{ forloop.parentloop.index }}-{{ forloop.parentloop.length }}",
        ("forloop",),
        (),
    ),
}
BODY_OP_NAMES = tuple(BODY_OPS)

# include, directly / inside a block of the partial / in a partial rendered by the partial
INC_OPS: dict[str, str] = {
    "INC": "{% include 'q' %}",
    "INCB": "{% if x %}{% include 'q' %}{% endif %}",
    "INCR": "{% render 'r' %}",
}
EXTRA_PARTIALS = {"q": "Q", "r": "{% include 'q' %}"}

Body = tuple[str, ...]


# the quick tier leaves out the `if` on v and the loop over w (their twins IFw / Fv stay)
BODY_OP_NAMES_QUICK = tuple(o for o in BODY_OP_NAMES if o not in ("IFv", "Fw"))


def bodies(maxlen: int, ops: tuple[str, ...] = BODY_OP_NAMES) -> list[Body]:
    """Every sequence of <= maxlen non-include ops (the empty body first)."""
    out: list[Body] = []
    for n in range(maxlen + 1):
        out.extend(itertools.product(ops, repeat=n))
    return out


def include_bodies(maxlen: int, ops: tuple[str, ...] = BODY_OP_NAMES) -> list[Body]:
    """Every body of <= maxlen ops whose last op is an include variant (ops after the first
    include never run in strict mode, so bodies are cut there)."""
    out: list[Body] = []
    for n in range(maxlen):
        for pre in itertools.product(ops, repeat=n):
            for inc in INC_OPS:
                out.append((*pre, inc))
    return out


def body_src(body: Iterable[str]) -> str:
    return "".join(BODY_OPS[o][0] if o in BODY_OPS else INC_OPS[o] for o in body)


def body_reads(body: Iterable[str]) -> set[str]:
    return {n for o in body if o in BODY_OPS for n in BODY_OPS[o][1]}


def body_writes(body: Iterable[str]) -> set[str]:
    return {n for o in body if o in BODY_OPS for n in BODY_OPS[o][2]}


def body_has_include(body: Iterable[str]) -> bool:
    return any(o in INC_OPS for o in body)


# ---------------------------------------------------------------------------
# global data
# ---------------------------------------------------------------------------
BASE_DATA: dict[str, Any] = {"x": "X", "arr": ["a", "b"], "farr": ["F1", "F2"]}
GLOBAL_VALUES = {"v": "Gv", "w": "Gw", "p": "Gp"}

# name -> (environment globals, template globals, render arguments)
GCFGS: dict[str, tuple[dict[str, Any], dict[str, Any], dict[str, Any]]] = {
    # nothing global is called v, w or p
    "G0": ({}, {}, dict(BASE_DATA)),
    # v, w, p are render arguments
    "G1": ({}, {}, {**BASE_DATA, **GLOBAL_VALUES}),
    # one name per layer: environment globals / template globals / render arguments
    "G2": ({"w": "Gw"}, {"p": "Gp"}, {**BASE_DATA, "v": "Gv"}),
}


# ---------------------------------------------------------------------------
# templates
# ---------------------------------------------------------------------------
PROBE = "~[{{ v }}|{{ w }}|{{ p }}]~"
FINAL = PROBE + "#{% increment v %},{% increment w %},{% increment p %}#"


def header(body: Iterable[str], sites: Iterable[str]) -> str:
    """Macro / inline snippet definitions the sites need (the body is their block)."""
    src = body_src(body)
    constructs = {SITE_BY_ID[s][2] for s in sites}
    out = ""
    if "call" in constructs:
        out += "{% macro m0 %}" + src + "{% endmacro %}{% macro m1 v %}" + src + "{% endmacro %}"
    if "snippet" in constructs:
        out += "{% snippet s %}" + src + "{% endsnippet %}"
    return out


def caller_src(prefix: Iterable[tuple[str, str]], sites: Iterable[str], body: Iterable[str]) -> str:
    sites = list(sites)
    opn, cls = prefix_src(prefix)
    mid = "".join(f"@{s}:{SITE_BY_ID[s][3]}:{s}@" for s in sites)
    return header(body, sites) + opn + mid + PROBE + cls + FINAL


def partials(body: Iterable[str]) -> dict[str, str]:
    return {"p": body_src(body), **EXTRA_PARTIALS}


SEG_RE = re.compile(r"@(\w):(.*?):\1@", re.S)


def segments(out: str) -> dict[str, list[str]]:
    segs: dict[str, list[str]] = {}
    for m in SEG_RE.finditer(out):
        segs.setdefault(m.group(1), []).append(m.group(2))
    return segs


def skeleton(out: str) -> str:
    """The caller's own output: everything outside the partial's segments."""
    return SEG_RE.sub(lambda m: f"@{m.group(1)}@", out)


# ---------------------------------------------------------------------------
# attribution of a deviation (for signatures only, never for verdicts)
# ---------------------------------------------------------------------------
_MARK = re.compile(r"[ACW]\d[vwp]|F[12]|B[vwp]|K[vwp]|G[vwp]|Q|\d+")
_KIND = {"A": "assign", "C": "capture", "W": "with", "F": "loop-variable", "B": "assign", "K": "capture",
         "G": "global", "Q": "include"}


def leak_feature(got: str, want: str) -> str:
    """Which kind of binding shows in ``got`` but not in ``want``."""
    g, w = _MARK.findall(got), _MARK.findall(want)
    extra = [m for m in g if m not in w] or [m for m in w if m not in g]
    kinds = sorted({("number" if m[0].isdigit() else _KIND[m[0]]) for m in extra})
    return "+".join(kinds) if kinds else "other"


_SHAPE = re.compile(r"[ACW]\d[vwp]|F[12]|[BKG][vwp]|Q|X|T|N|\d+|[ab]")


def shape(seg: Optional[str]) -> str:
    """Coarse class of a segment for the outcome histogram (which kinds of values it shows)."""
    if seg is None:
        return "none"
    ks = sorted({("n" if m[0].isdigit() else "i" if m in "ab" else m[0]) for m in _SHAPE.findall(seg)})
    return "".join(ks) or "empty"
