"""C07 corpus: every template of <= n constructs over the alphabet the property names.

Alphabet (property statement: "templates mixing output, capture, ifchanged, include, render, cycle and
loops with multi-byte text"): literal text of 1-, 2-, 3- and 4-byte UTF-8 characters and of the line endings
"\\r", "\\r\\n", "\\n\\r" (also inside the partials, the captured text and the data), output statements,
assign (the tag the namespace limit is documented with), cycle, include, render (one and two partial
levels, with and without ``for``), and the blocks for / capture / ifchanged.  Enumeration is done by the
shared generator ``mc.gen.programs.programs`` (complete up to the size bound, simplest first).
"""

from __future__ import annotations

from typing import Any

from mc.gen.programs import programs

# -- leaves -----------------------------------------------------------------------------------------
TEXT = ["a", "é", "€", "\U0001d11e"]  # 1, 2, 3, 4 UTF-8 bytes
# carriage returns: a limited stream must not translate line endings ("\r\n" / "\r" -> "\n")
NEWLINES = ["\r", "\r\n", "\n\r"]
LEAVES_FULL: list[str] = TEXT + NEWLINES + [
    "{{ x }}",
    "{{ s }}",
    "{{ v }}",
    "{% assign s = x %}",
    "{% cycle 'é', 'bb' %}",
    "{% include 'p' %}",
    "{% include 'p' for a as v %}",
    "{% render 'q' %}",
    "{% render 'q' for a as v %}",
]
# reduced leaf menu (used for the largest size of the quick tier)
LEAVES_SMALL: list[str] = [
    "\U0001d11e",
    "{{ s }}",
    "{% assign s = x %}",
    "{% cycle 'é', 'bb' %}",
    "{% include 'p' %}",
    "{% render 'q' for a as v %}",
]
BLOCKS: list[str] = [
    "{% for v in a %}{B}{% endfor %}",
    "{% for v in (1..2) %}{B}{% endfor %}",
    "{% capture s %}{B}{% endcapture %}",
    "{% ifchanged %}{B}{% endifchanged %}",
]

# Partials.  p is included (shares the caller's namespace, captures into the caller's ``s``);
# q is rendered (own namespace: sizes must be carried) and itself renders r (two carried levels).
PARTIALS: dict[str, str] = {
    "p": "[{{ v }}é\r{% capture s %}€\r\n{{ x }}{% endcapture %}]",
    "q": "<\U0001d11e\n\r{% assign t = v %}{% capture u %}{{ t }}é\r{% endcapture %}{{ u }}{% render 'r', x: x %}>",
    "r": "({% assign w = x %}{{ w }}{% ifchanged %}€\r\n{% endifchanged %})",
}

DATA: list[tuple[str, dict[str, Any]]] = [
    ("M0", {"x": "é€", "a": ["a", "éé", "\U0001d11e"]}),
    ("M1", {"x": "\U0001d11e\r\nb\r", "a": [7, "€\n\r€"]}),
    ("M2", {}),
    ("M3", {"x": "é" * 20, "a": ["ab", "ab", "é€", 12345]}),
]


def data_sets(tier: str) -> list[tuple[str, dict[str, Any]]]:
    return DATA[:2] if tier == "quick" else DATA


def corpus(tier: str) -> list[str]:
    """Every template source of the tier's bound, in a stable order, without duplicates."""
    out: list[str] = []
    seen: set[str] = set()

    def add(it: Any) -> None:
        for p in it:
            if p.source not in seen:
                seen.add(p.source)
                out.append(p.source)

    if tier == "quick":
        add(programs(2, 2, leaves=LEAVES_FULL, blocks=BLOCKS))
        add(programs(3, 3, leaves=LEAVES_SMALL, blocks=BLOCKS))
    else:
        add(programs(3, 3, leaves=LEAVES_FULL, blocks=BLOCKS))
    return out


def uses_intermediate_buffer(source: str) -> bool:
    """True iff rendering can write into a capture/ifchanged buffer (directly or through a partial).

    Whether bytes written into such a buffer count against ``output_stream_limit`` is not documented, so
    'unlimited output fits the limit but the render aborted with OutputStreamLimitError' is only an
    oracle failure for templates where this returns False.
    """
    if "{% capture" in source or "{% ifchanged" in source:
        return True
    return any("'" + name + "'" in source for name in PARTIALS)  # p, q and r all capture or use ifchanged


def output_limits(u: int) -> list[int]:
    """Every integer in [0, 2U]: all of them up to 64, then U-2..U+2 and 2U."""
    vals = set(range(0, min(2 * u, 64) + 1)) | {u - 2, u - 1, u, u + 1, u + 2, 2 * u}
    return sorted(v for v in vals if v >= 0)


def namespace_limits(totals: list[int], cap: int = 12) -> list[int]:
    """{0, 1, S-1, S, S+1, 2S} plus T-1 and T for (the first ``cap`` distinct) totals T seen after an assign."""
    s = max(totals) if totals else 0
    vals = {0, 1, s - 1, s, s + 1, 2 * s}
    for t in sorted(set(totals))[:cap]:
        vals |= {t - 1, t}
    return sorted(v for v in vals if v >= 0)
