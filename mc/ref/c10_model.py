"""Reference lexer model for C10 (literal text, raw, comments, whitespace control).

Abstract items (JSON-able lists/tuples):

    ("T", s)                               literal text
    ("OUT", l, r)                          {{l 'v' r}}                       -> "v"
    ("TAG", name, l, r)                    {%l <SINGLE[name]> r%}            -> fixed output
    ("WRAP", name, l1, r1, l2, r2)         {%l1 <open> r1%} NEXT-ITEM {%l2 <end> r2%}
    ("RAW", l1, r1, body, l2, r2)          {%l1 raw r1%}body{%l2 endraw r2%} -> body
    ("COMMENT", l1, r1, body, l2, r2)      ... comment/endcomment            -> ""
    ("DOC", l1, r1, body, l2, r2)          ... doc/enddoc                    -> ""
    ("SHORT", l, body, r)                  {#l body r#}  (template_comments) -> ""

``l, r`` are "" or "-".  A WRAP item encloses exactly the next item of the sequence
(recursively; nothing if it is last).

Every oracle clause is a literal reading of the property statement:
 * text outside markup is output verbatim                       (statement, docs/syntax.md "Content")
 * raw body verbatim, comment/doc bodies never output            (statement, tag_reference.md)
 * hyphen on a closing delimiter lstrips the following text, hyphen on an opening
   delimiter rstrips the preceding text, for every markup kind; no hyphen, no strip
   (statement, docs/syntax.md "Whitespace control")
Not fixed by the statement, therefore accepted either way (and counted):
 * the effect of raw's INNER hyphens (``raw -%}``, ``{%- endraw``) on the raw body;
 * a control-flow block whose whole content renders to whitespace only
   (``suppress_blank_control_flow_blocks``: "don't render control flow blocks that
   contain only whitespace") may render its whitespace or nothing.
"""

from __future__ import annotations

from typing import Any
from typing import Optional
from typing import Sequence

SINGLE: dict[str, tuple[str, str]] = {
    # name -> (text between the delimiters, output)
    "assign": ("assign x = 1", ""),
    "inline": ("# c", ""),
    "inline_ml": ("\n  # c {{ x }}\n  # d\n", ""),
    "liquid": ("liquid echo 'w'", "w"),
    "liquid_ml": ("liquid\n  # c\n  echo 'w'\n", "w"),
    "echo": ("echo 'w'", "w"),
    "cycle": ("cycle 'w'", "w"),
}
WRAPS: dict[str, tuple[str, str]] = {
    "if": ("if true", "endif"),
    "unless": ("unless false", "endunless"),
    "for": ("for i in (1..1)", "endfor"),
}
BLOCKS = {"RAW": ("raw", "endraw"), "COMMENT": ("comment", "endcomment"), "DOC": ("doc", "enddoc")}


class Lex:
    """One lexical element of the flattened source."""

    __slots__ = ("kind", "src", "alts", "lh", "rh", "item", "role")

    def __init__(self, kind: str, src: str, alts: tuple[str, ...], lh: bool, rh: bool, item: Any, role: str = ""):
        self.kind = kind  # "T" or the markup kind (out, assign, raw, if, endif, ...)
        self.src = src
        self.alts = alts  # acceptable contributions (markup) / (text,) for T
        self.lh = lh  # its first delimiter carries a hyphen
        self.rh = rh  # its last delimiter carries a hyphen
        self.item = item
        self.role = role  # "open" / "close" for WRAP delimiters


def _tag(l: str, inner: str, r: str) -> str:
    return "{%" + l + " " + inner + " " + r + "%}"


def raw_body_alts(body: str, r1: str, l2: str) -> tuple[str, ...]:
    alts = [body]
    if r1:
        alts.append(body.lstrip())
    if l2:
        alts.append(body.rstrip())
    if r1 and l2:
        alts.append(body.strip())
    out: list[str] = []
    for a in alts:
        if a not in out:
            out.append(a)
    return tuple(out)


def flatten(items: Sequence[Any]) -> list[Lex]:
    """Abstract item sequence -> lexical elements (WRAP encloses the next item)."""
    out: list[Lex] = []
    i = 0
    n = len(items)

    def one() -> None:
        nonlocal i
        it = items[i]
        i += 1
        k = it[0]
        if k == "T":
            out.append(Lex("T", it[1], (it[1],), False, False, it))
        elif k == "OUT":
            _, l, r = it
            out.append(Lex("out", "{{" + l + " 'v' " + r + "}}", ("v",), bool(l), bool(r), it))
        elif k == "TAG":
            _, name, l, r = it
            inner, o = SINGLE[name]
            out.append(Lex(name, _tag(l, inner, r), (o,), bool(l), bool(r), it))
        elif k == "WRAP":
            _, name, l1, r1, l2, r2 = it
            op, end = WRAPS[name]
            out.append(Lex(name, _tag(l1, op, r1), ("",), bool(l1), bool(r1), it, "open"))
            if i < n:
                one()
            out.append(Lex(end, _tag(l2, end, r2), ("",), bool(l2), bool(r2), it, "close"))
        elif k in BLOCKS:
            _, l1, r1, body, l2, r2 = it
            a, b = BLOCKS[k]
            src = _tag(l1, a, r1) + body + _tag(l2, b, r2)
            alts = raw_body_alts(body, r1, l2) if k == "RAW" else ("",)
            out.append(Lex(k.lower(), src, alts, bool(l1), bool(r2), it))
        elif k == "SHORT":
            _, l, body, r = it
            out.append(Lex("short", "{#" + l + body + r + "#}", ("",), bool(l), bool(r), it))
        else:
            raise AssertionError(it)

    while i < n:
        one()
    return out


def source(lex: Sequence[Lex]) -> str:
    return "".join(e.src for e in lex)


class Run:
    """A maximal run of adjacent text elements, with the model's strip decisions."""

    __slots__ = ("text", "left", "right", "ls", "rs", "pos")

    def __init__(self, text: str, left: Optional[Lex], right: Optional[Lex], pos: int):
        self.text = text
        self.left = left  # nearest markup element to the left (None = start of template)
        self.right = right
        self.ls = bool(left is not None and left.rh)
        self.rs = bool(right is not None and right.lh)
        self.pos = pos

    def rendered(self, ls: Optional[bool] = None, rs: Optional[bool] = None) -> str:
        t = self.text
        if self.ls if ls is None else ls:
            t = t.lstrip()
        if self.rs if rs is None else rs:
            t = t.rstrip()
        return t


def merge(lex: Sequence[Lex]) -> list[Any]:
    """Lexical elements with adjacent text merged: list of Run | Lex (markup)."""
    seq: list[Any] = []
    buf: list[str] = []
    last_markup: Optional[Lex] = None
    pending_left: Optional[Lex] = None
    for e in lex:
        if e.kind == "T":
            if not buf:
                pending_left = last_markup
            buf.append(e.src)
        else:
            if buf:
                seq.append(Run("".join(buf), pending_left, e, len(seq)))
                buf = []
            seq.append(e)
            last_markup = e
    if buf:
        seq.append(Run("".join(buf), pending_left, None, len(seq)))
    return seq


def in_domain(seq: Sequence[Any], template_comments: bool) -> bool:
    """The item list is the unambiguous reading of the source: no start delimiter is
    formed inside (or at the right edge of) a text run."""
    starts = ("{{", "{%", "{#") if template_comments else ("{{", "{%")
    for x in seq:
        if isinstance(x, Run):
            t = x.text + ("{" if x.right is not None else "")
            for s in starts:
                if s in t:
                    return False
    return True


def expected(seq: Sequence[Any], overrides: Optional[dict[tuple[int, str], bool]] = None,
             drop_final_newline: bool = False, blank_either: bool = True,
             text_alts: Optional[dict[int, set[str]]] = None) -> tuple[set[str], dict[str, int]]:
    """Set of acceptable outputs + which 'either' rules contributed alternatives.

    ``overrides`` maps (run position, "l"|"r") -> forced strip decision (diagnosis only).
    """
    info = {"raw_inner_either": 0, "blank_block_either": 0}
    ov = overrides or {}
    last_run = None
    if drop_final_newline and seq and isinstance(seq[-1], Run):
        last_run = seq[-1]

    def piece(x: Any) -> set[str]:
        if isinstance(x, Run):
            if text_alts is not None and x.pos in text_alts:
                return set(text_alts[x.pos])  # diagnosis only
            t = x.rendered(ov.get((x.pos, "l")), ov.get((x.pos, "r")))
            if x is last_run and t.endswith("\n"):
                t = t[:-1]
            return {t}
        if len(x.alts) > 1:
            info["raw_inner_either"] += 1
        return set(x.alts)

    def cat(a: set[str], b: set[str]) -> set[str]:
        if len(a) == 1 and len(b) == 1:
            return {next(iter(a)) + next(iter(b))}
        return {p + q for p in a for q in b}

    def walk(i: int, stop_at_close: bool) -> tuple[set[str], int]:
        acc = {""}
        while i < len(seq):
            x = seq[i]
            if isinstance(x, Lex) and x.role == "close":
                if stop_at_close:
                    return acc, i
                raise AssertionError("unbalanced close")
            if isinstance(x, Lex) and x.role == "open":
                inner, j = walk(i + 1, True)
                if blank_either:
                    blank = {s for s in inner if s and s.isspace()}
                    if blank:
                        info["blank_block_either"] += 1
                        inner = inner | {""}
                acc = cat(acc, inner)
                i = j + 1
                continue
            acc = cat(acc, piece(x))
            i += 1
        if stop_at_close:
            raise AssertionError("unbalanced open")
        return acc, i

    res, _ = walk(0, False)
    return res, info


def observable_decisions(seq: Sequence[Any]) -> tuple[int, int, int, int]:
    """(lstrip applied, lstrip withheld, rstrip applied, rstrip withheld) counted only where the
    decision is observable: the run has whitespace on that edge and a markup neighbour there."""
    la = lw = ra = rw = 0
    for x in seq:
        if not isinstance(x, Run):
            continue
        t = x.text
        if x.left is not None and t[:1].isspace():
            if x.ls:
                la += 1
            else:
                lw += 1
        if x.right is not None and t[-1:].isspace():
            if x.rs:
                ra += 1
            else:
                rw += 1
    return la, lw, ra, rw


# ---------------------------------------------------------------------------
# attribution of a mismatch (never part of the verdict)
# ---------------------------------------------------------------------------
def instrumented(lex: Sequence[Lex]) -> tuple[str, list[Any]]:
    """Variant source in which text run i becomes [" "]<i>["\\t"] (edge whitespace kept iff
    the original had whitespace on that edge) and raw bodies become "R": every strip decision
    is then individually visible in the output."""
    seq = merge(lex)
    parts: list[str] = []
    for x in seq:
        if isinstance(x, Run):
            t = x.text
            lead = " " if t[:1].isspace() else ""
            trail = "\t" if t[-1:].isspace() else ""
            parts.append(f"{lead}<{x.pos}>{trail}")
        elif x.kind == "raw":
            _, l1, r1, _body, l2, r2 = x.item
            parts.append(_tag(l1, "raw", r1) + "R" + _tag(l2, "endraw", r2))
        else:
            parts.append(x.src)
    return "".join(parts), seq


def decode_instrumented(seq: Sequence[Any], actual: str) -> Optional[dict[tuple[int, str], bool]]:
    """Observed strip decisions {(pos, side): stripped?} or None if the output is not decodable."""
    got: dict[tuple[int, str], bool] = {}
    for x in seq:
        if not isinstance(x, Run):
            continue
        mark = f"<{x.pos}>"
        k = actual.find(mark)
        if k < 0 or actual.count(mark) != 1:
            return None
        if x.text[:1].isspace():
            got[(x.pos, "l")] = not (k > 0 and actual[k - 1] == " ")
        if x.text[-1:].isspace():
            e = k + len(mark)
            got[(x.pos, "r")] = not (e < len(actual) and actual[e] == "\t")
    return got


def partial_strip_alts(run: Run) -> dict[str, tuple[str, str]]:
    """Diagnosis only: renderings of a run in which a stripped edge keeps part of its whitespace.
    rendering -> (leading whitespace kept, trailing whitespace kept)."""
    t = run.text
    core = t.strip()
    lead = t[: len(t) - len(t.lstrip())]
    trail = t[len(t.rstrip()):] if core else ""
    if not core:  # whitespace-only run: whatever survives was kept
        cands = [t[i:] for i in range(len(t) + 1)] if run.ls else []
        cands += [t[:i] for i in range(len(t), -1, -1)] if run.rs else []
        return {c: (c, "") for c in cands}
    leads = [lead[i:] for i in range(len(lead) + 1)] if run.ls else [lead]
    trails = [trail[:i] for i in range(len(trail), -1, -1)] if run.rs else [trail]
    out: dict[str, tuple[str, str]] = {}
    for a in leads:
        for b in trails:
            out.setdefault(a + core + b, (a if run.ls else "", b if run.rs else ""))
    return out


def describe_neighbour(e: Optional[Lex], side: str) -> dict[str, Any]:
    """Signature fields describing the markup element next to a text run."""
    if e is None:
        return {"neighbour": "start-of-template" if side == "l" else "end-of-template"}
    d: dict[str, Any] = {"neighbour": e.kind}
    it = e.item
    if it[0] in BLOCKS:
        _, l1, r1, _body, l2, r2 = it
        d.update({"open_l": l1, "open_r": r1, "close_l": l2, "close_r": r2})
        if side == "l":
            d["got_follows"] = "opening-tag-hyphen" if r1 != r2 else "neither"
        else:
            d["got_follows"] = "closing-tag-hyphen" if l1 != l2 else "neither"
    return d
