"""C09 harness-side observers (nothing here lives in /repo).

1. ``StreamMonitor`` -- a deterministic STEP BUDGET for the parser.  It wraps, on the class
   ``liquid.stream.TokenStream``, the advancing methods ``next`` / ``next_token`` / ``__next__``
   and the accessors ``current`` / ``peek`` (properties).  Every call is counted.  A call after
   which the stream position is not greater than before is a *stall*; the stall counter is reset
   whenever any stream advances.  ``StepBudgetExceeded`` (a BaseException, so that the library's
   ``except Exception`` cannot swallow it) is raised when

       stalls in a row   >  STALL_LIMIT                      (constant), or
       total calls       >  TOTAL_C * (n + 1) ** 2 + 1000    (n = len(source) in characters,
                                                              an upper bound of the number of
                                                              tokens in any stream cut from it)

   If one of the wrapped (public) methods/properties is gone the monitor raises
   ``HarnessBindingLost`` -- the check then fails loudly instead of passing vacuously.

2. ``case_alarm`` -- a per-case CPU-time BACKSTOP (``setitimer(ITIMER_PROF)``) for code that
   hangs without touching a token stream.  CPU time, not wall-clock, so that a descheduled
   worker on a busy machine is not reported as a hang; independent of the runner's SIGALRM.
   A backstop firing is only a suspicion: the case is re-run alone in a forked child under a
   kernel CPU limit (``run_isolated``) and reported only if that child is killed by the limit.
   ``run_isolated`` is also how the regex/lexer blow-up family is executed, because a Python
   signal handler cannot interrupt a C-level regular-expression match.

3. ``run_at_fixed_depth`` -- run a callable on a dedicated thread so that the library is entered
   at a fixed, documented Python frame depth (``ENTRY_DEPTH``), independent of how deep the pool
   worker's own stack happens to be.  The default ``sys.getrecursionlimit()`` (1000) is kept.

4. ``CountingLoader`` -- a DictLoader that counts ``get_source`` calls; the render step budget
   (template loads) is enforced here.
"""

from __future__ import annotations

import ctypes
import queue
import signal
import sys
import threading
import time
from typing import Any
from typing import Callable
from typing import Optional

from liquid import CachingDictLoader
from liquid import CachingFileSystemLoader
from liquid import FileSystemLoader
from liquid import DictLoader
from liquid.stream import TokenStream


class HarnessBindingLost(RuntimeError):
    """A library attribute the monitor wraps no longer exists (harness must be updated)."""


class StepBudgetExceeded(BaseException):
    """The deterministic step budget was exceeded (the case is reported as non-terminating)."""

    def __init__(self, kind: str, detail: str):
        super().__init__(f"{kind}: {detail}")
        self.kind = kind
        self.detail = detail


class CaseHang(BaseException):
    """The CPU-time backstop fired."""


# ---------------------------------------------------------------------------
# 1. token stream step budget
# ---------------------------------------------------------------------------
STALL_LIMIT = 2000  # consecutive wrapped calls without any stream advancing
TOTAL_C = 8  # total calls <= TOTAL_C * (chars + 1) ** 2 + TOTAL_FLOOR
TOTAL_FLOOR = 1000
ADVANCERS = ("next", "next_token", "__next__")
ACCESSORS = ("current", "peek")


class _State:
    __slots__ = ("active", "calls", "stall", "budget", "max_stall", "tripped")

    def __init__(self) -> None:
        self.active = False
        self.calls = 0
        self.stall = 0
        self.budget = 0
        self.max_stall = 0
        self.tripped: Optional[str] = None


_ST = _State()
_ORIG: dict[str, Any] = {}


def _trip(kind: str) -> None:
    st = _ST
    detail = f"calls={st.calls} stall={st.stall} budget={st.budget}"
    st.tripped = kind
    st.active = False  # let the unwinding code run without tripping again
    raise StepBudgetExceeded(kind, detail)


def _wrap_advancer(orig: Callable[[Any], Any], current_fget: Callable[[Any], Any]) -> Callable[[Any], Any]:
    """Progress is observed through the stream's own ``current`` accessor (the token the stream points at is a
    different object after a real advance), not through any private position attribute, so that internal
    reorganisations of TokenStream do not break the monitor."""

    def advancer(self: Any) -> Any:
        st = _ST
        if not st.active:
            return orig(self)
        before = current_fget(self)
        tok = orig(self)
        st.calls += 1
        if current_fget(self) is not before:
            if st.stall > st.max_stall:
                st.max_stall = st.stall
            st.stall = 0
        else:
            st.stall += 1
            if st.stall > STALL_LIMIT:
                _trip("no-advance")
        if st.calls > st.budget:
            _trip("total-calls")
        return tok

    advancer.__name__ = getattr(orig, "__name__", "advancer")
    advancer.__c09_wrapped__ = True  # type: ignore[attr-defined]
    return advancer


def _wrap_accessor(prop: property) -> property:
    fget = prop.fget
    assert fget is not None

    def accessor(self: Any) -> Any:
        st = _ST
        if st.active:
            st.calls += 1
            st.stall += 1
            if st.stall > STALL_LIMIT:
                _trip("no-advance")
            if st.calls > st.budget:
                _trip("total-calls")
        return fget(self)

    p = property(accessor, prop.fset, prop.fdel, prop.__doc__)
    return p


def install_stream_monitor() -> None:
    """Wrap the TokenStream class once per process; verify the bindings first."""
    if _ORIG:
        verify_stream_monitor()
        return
    d = TokenStream.__dict__
    for name in ADVANCERS:
        if not callable(d.get(name)):
            raise HarnessBindingLost(f"harness binding lost: TokenStream.{name} is not a method any more")
    for name in ACCESSORS:
        if not isinstance(d.get(name), property):
            raise HarnessBindingLost(f"harness binding lost: TokenStream.{name} is not a property any more")
    # progress probe: after a real advance the stream must point at a different token object
    from liquid.token import Token

    cur = d["current"].fget
    probe = TokenStream(iter([Token("x", "x", 0, "x"), Token("y", "y", 1, "xy")]))
    t0 = cur(probe)
    probe.next_token()
    if cur(probe) is t0:
        raise HarnessBindingLost("harness binding lost: TokenStream.current does not change after next_token()")
    for name in ADVANCERS:
        _ORIG[name] = d[name]
        setattr(TokenStream, name, _wrap_advancer(d[name], cur))
    for name in ACCESSORS:
        _ORIG[name] = d[name]
        setattr(TokenStream, name, _wrap_accessor(d[name]))
    verify_stream_monitor()


def uninstall_stream_monitor() -> None:
    """Put the original class attributes back (render cases must not carry wrapper frames)."""
    for name, orig in list(_ORIG.items()):
        setattr(TokenStream, name, orig)
    _ORIG.clear()


def verify_stream_monitor() -> None:
    """The wrappers must still be the class attributes and must observe a parse."""
    from liquid.token import Token

    d = TokenStream.__dict__
    for name in ADVANCERS:
        if not getattr(d.get(name), "__c09_wrapped__", False):
            raise HarnessBindingLost(f"harness binding lost: TokenStream.{name} wrapper was replaced")
    begin_parse(10)
    try:
        s = TokenStream(iter([Token("x", "x", 0, "x")]))
        _ = s.current
        _ = s.peek
        next(s)
        s.next()
        calls = _ST.calls
    finally:
        end_parse()
    if calls < 5:
        raise HarnessBindingLost(f"harness binding lost: stream wrappers observed {calls} of 5 probe calls")


def begin_parse(nchars: int) -> None:
    st = _ST
    st.calls = 0
    st.stall = 0
    st.max_stall = 0
    st.tripped = None
    st.budget = TOTAL_C * (nchars + 1) ** 2 + TOTAL_FLOOR
    st.active = True


def end_parse() -> tuple[int, int]:
    """Stop counting; return (total calls, longest run of calls without an advance)."""
    st = _ST
    st.active = False
    if st.stall > st.max_stall:
        st.max_stall = st.stall
    return st.calls, st.max_stall


# ---------------------------------------------------------------------------
# 2. CPU-time backstop in the main thread of the worker (never a verdict by itself)
# ---------------------------------------------------------------------------
class _Armed:
    __slots__ = ("on", "since", "limit", "ignored")

    def __init__(self) -> None:
        self.on = False
        self.since = 0.0
        self.limit = 0.0
        self.ignored = 0


_ARMED = _Armed()


class case_alarm:
    """``with case_alarm() as arm:`` then ``arm(seconds)`` / ``arm(0)`` around each case.

    The timer is ITIMER_PROF (CPU time of this process), independent of the runner's SIGALRM.
    The handler raises CaseHang in the main thread ONLY when a window is armed and the process
    really consumed the armed amount of CPU since it was armed (``time.process_time``); a signal
    that arrives outside a window, or early (stale / mis-accounted timer), is counted in
    ``spurious_signals()`` and the timer is re-armed for the remainder.  A CaseHang is still
    only a *suspicion*: callers confirm it with ``run_isolated`` before reporting anything."""

    def __enter__(self) -> Callable[[float], None]:
        self.main = threading.current_thread() is threading.main_thread()
        if not self.main:  # no signal handlers outside the main thread: no backstop available
            return lambda seconds: None
        signal.setitimer(signal.ITIMER_PROF, 0)
        _ARMED.on = False
        self.old = signal.signal(signal.SIGPROF, self._fire)
        return self._arm

    @staticmethod
    def _fire(signum: int, frame: Any) -> None:
        a = _ARMED
        if not a.on:
            a.ignored += 1
            return
        used = time.process_time() - a.since
        if used < 0.9 * a.limit:
            a.ignored += 1
            signal.setitimer(signal.ITIMER_PROF, max(0.05, a.limit - used))
            return
        a.on = False
        raise CaseHang("cpu-time backstop")

    @staticmethod
    def _arm(seconds: float) -> None:
        a = _ARMED
        if seconds <= 0:
            a.on = False
            signal.setitimer(signal.ITIMER_PROF, 0)
            return
        a.since = time.process_time()
        a.limit = seconds
        a.on = True
        signal.setitimer(signal.ITIMER_PROF, seconds)

    def __exit__(self, *exc: Any) -> None:
        if not self.main:
            return
        _ARMED.on = False
        signal.setitimer(signal.ITIMER_PROF, 0)
        signal.signal(signal.SIGPROF, self.old)


def spurious_signals() -> int:
    """SIGPROF deliveries that were ignored (outside an armed window or before the CPU was used)."""
    n = _ARMED.ignored
    _ARMED.ignored = 0
    return n


# ---------------------------------------------------------------------------
# 2b. isolated execution in a forked child under a hard CPU limit
# ---------------------------------------------------------------------------
ISOLATED_CPU_S = 20  # RLIMIT_CPU of an isolated child (soft; hard = +2): the kernel kills it, whatever it runs


def run_isolated(work: Callable[[Callable[[Any], None]], None], cpu_s: int = ISOLATED_CPU_S) -> tuple[list[Any], Optional[int]]:
    """Run ``work(emit)`` in a forked child whose CPU time is capped by the kernel (RLIMIT_CPU).

    ``emit(obj)`` streams a JSON-able object to the parent at once (so a child that is killed in
    the middle of a C-level loop has already said what it was about to do).  Returns
    (objects emitted, None) when the child finished, or (objects emitted, signal number) when it
    was killed -- SIGXCPU/SIGKILL mean the CPU limit.  The child never returns into the caller:
    it leaves with os._exit.  This is the only place where C09 forks, and only for the
    regex/lexer family and to confirm a backstop suspicion -- never per ordinary case."""
    import json
    import os
    import resource

    rfd, wfd = os.pipe()
    pid = os.fork()
    if pid == 0:  # ---- child
        code = 0
        try:
            os.close(rfd)
            signal.setitimer(signal.ITIMER_PROF, 0)
            signal.setitimer(signal.ITIMER_REAL, 0)
            signal.signal(signal.SIGPROF, signal.SIG_IGN)
            signal.signal(signal.SIGALRM, signal.SIG_DFL)
            signal.signal(signal.SIGXCPU, signal.SIG_DFL)
            _ARMED.on = False
            resource.setrlimit(resource.RLIMIT_CPU, (cpu_s, cpu_s + 2))

            def emit(obj: Any) -> None:
                os.write(wfd, (json.dumps(obj) + "\n").encode())

            work(emit)
        except BaseException:  # noqa: BLE001
            code = 3
        finally:
            os._exit(code)
    # ---- parent
    os.close(wfd)
    chunks: list[bytes] = []
    while True:
        try:
            data = os.read(rfd, 65536)
        except InterruptedError:
            continue
        if not data:
            break
        chunks.append(data)
    os.close(rfd)
    _, status = os.waitpid(pid, 0)
    out: list[Any] = []
    for line in b"".join(chunks).split(b"\n"):
        if line.strip():
            try:
                out.append(json.loads(line))
            except ValueError:  # a line cut in half by the kill
                pass
    if os.WIFSIGNALED(status):
        return out, os.WTERMSIG(status)
    if os.WEXITSTATUS(status) != 0:
        raise RuntimeError(f"c09 harness: isolated child failed with exit status {os.WEXITSTATUS(status)}")
    return out, None


# ---------------------------------------------------------------------------
# 3. fixed entry depth
# ---------------------------------------------------------------------------
# Cases run on a dedicated "case thread" whose stack below the case callable is always
#   Thread._bootstrap -> Thread._bootstrap_inner -> Thread.run -> _CaseThread._c09_loop -> fn
# so ``fn`` executes at Python frame depth ENTRY_DEPTH, whatever the pool worker's own stack is.
# The thread is reused between cases (starting a thread per case costs a GIL switch interval);
# it is abandoned and replaced if a case hangs.
ENTRY_DEPTH = 5
THREAD_STACK_BYTES = 64 * 1024 * 1024  # C stack of the case thread (generous; not what is measured)


def frame_depth() -> int:
    """Number of Python frames on the calling thread's stack, including the caller's."""
    f = sys._getframe(1)
    n = 0
    while f is not None:
        n += 1
        f = f.f_back
    return n


class Hung:
    """Returned by run_at_fixed_depth when the callable did not finish within the backstop."""

    def __init__(self, killed: bool):
        self.killed = killed


class _Died:
    def __init__(self, exc: BaseException):
        self.exc = exc


class _CaseThread:
    def __init__(self) -> None:
        self.req: queue.SimpleQueue[Any] = queue.SimpleQueue()
        self.resp: queue.SimpleQueue[Any] = queue.SimpleQueue()
        old = threading.stack_size(THREAD_STACK_BYTES)
        try:
            self.thread = threading.Thread(target=self._c09_loop, daemon=True, name="c09-case-thread")
            self.thread.start()
        finally:
            threading.stack_size(old)

    def _c09_loop(self) -> None:
        req, resp = self.req, self.resp
        while True:
            fn = req.get()
            if fn is None:
                return
            try:
                r = fn()
            except BaseException as e:  # noqa: BLE001  fn classifies everything itself; this is a harness fault
                r = _Died(e)
            resp.put(r)


_CASE_THREAD: Optional[_CaseThread] = None
_CASE_THREAD_PID = 0


def run_at_fixed_depth(fn: Callable[[], Any], backstop_s: float = 10.0) -> Any:
    """Run ``fn()`` on the case thread; ``fn`` itself executes at frame depth ENTRY_DEPTH."""
    global _CASE_THREAD, _CASE_THREAD_PID
    import os

    if _CASE_THREAD is None or _CASE_THREAD_PID != os.getpid() or not _CASE_THREAD.thread.is_alive():
        _CASE_THREAD = _CaseThread()  # (threads do not survive the pool's fork)
        _CASE_THREAD_PID = os.getpid()
    ct = _CASE_THREAD
    cpu0 = time.process_time()
    ct.req.put(fn)
    r: Any = None
    hung = False
    while True:
        try:
            r = ct.resp.get(timeout=1.0)
            break
        except queue.Empty:
            # the backstop counts CPU time of this process (only the case thread is running)
            if time.process_time() - cpu0 > backstop_s:
                hung = True
                break
    if hung:
        # best effort: inject an exception so the runaway thread stops burning a core; abandon it
        _CASE_THREAD = None
        ident = ct.thread.ident
        killed = False
        if ident is not None:
            ctypes.pythonapi.PyThreadState_SetAsyncExc(ctypes.c_ulong(ident), ctypes.py_object(CaseHang))
            ct.req.put(None)
            ct.thread.join(2.0)
            killed = not ct.thread.is_alive()
        return Hung(killed)
    if isinstance(r, _Died):
        _CASE_THREAD = None
        if isinstance(r.exc, CaseHang):
            return Hung(True)
        raise RuntimeError(f"c09 harness: case callable leaked {r.exc!r}")
    return r


# ---------------------------------------------------------------------------
# 4. counting loader (render step budget = template loads)
# ---------------------------------------------------------------------------
class CountingLoader(DictLoader):
    """DictLoader that counts source look-ups and enforces a load budget."""

    def __init__(self, templates: dict[str, str]):
        super().__init__(templates)
        self.loads = 0
        self.budget = 1 << 60

    def get_source(self, env: Any, template_name: str, **kwargs: Any) -> Any:  # type: ignore[override]
        self.loads += 1
        if self.loads > self.budget:
            raise StepBudgetExceeded("template-loads", f"loads={self.loads} budget={self.budget}")
        return super().get_source(env, template_name, **kwargs)

    async def get_source_async(self, env: Any, template_name: str, **kwargs: Any) -> Any:  # type: ignore[override]
        return self.get_source(env, template_name, **kwargs)


class CountingCachingLoader(CachingDictLoader):
    """CachingDictLoader (every template is parsed once) that counts ``load`` calls.

    The override adds one harness frame only while a template is being looked up / parsed; it
    is gone again before the caller renders the template, so it is never on the recursion path."""

    def __init__(self, templates: dict[str, str]):
        super().__init__(templates)
        self.loads = 0
        self.budget = 1 << 60

    def load(self, env: Any, name: str, **kwargs: Any) -> Any:  # type: ignore[override]
        self.loads += 1
        if self.loads > self.budget:
            raise StepBudgetExceeded("template-loads", f"loads={self.loads} budget={self.budget}")
        return super().load(env, name, **kwargs)

    async def load_async(self, env: Any, name: str, **kwargs: Any) -> Any:  # type: ignore[override]
        self.loads += 1
        if self.loads > self.budget:
            raise StepBudgetExceeded("template-loads", f"loads={self.loads} budget={self.budget}")
        return await super().load_async(env, name, **kwargs)


class CountingFileSystemLoader(FileSystemLoader):
    """FileSystemLoader (templates get a real ``path`` below the search path, every include /
    render / extends re-reads and re-parses the file) that counts source look-ups."""

    def __init__(self, search_path: str):
        super().__init__(search_path)
        self.loads = 0
        self.budget = 1 << 60

    def _count(self) -> None:
        self.loads += 1
        if self.loads > self.budget:
            raise StepBudgetExceeded("template-loads", f"loads={self.loads} budget={self.budget}")

    def get_source(self, env: Any, template_name: str, **kwargs: Any) -> Any:  # type: ignore[override]
        self._count()
        return super().get_source(env, template_name, **kwargs)

    async def get_source_async(self, env: Any, template_name: str, **kwargs: Any) -> Any:  # type: ignore[override]
        self._count()
        return await super().get_source_async(env, template_name, **kwargs)


class CountingCachingFileSystemLoader(CachingFileSystemLoader):
    """CachingFileSystemLoader that counts ``load`` calls (harness frame only during the look-up)."""

    def __init__(self, search_path: str):
        super().__init__(search_path)
        self.loads = 0
        self.budget = 1 << 60

    def _count(self) -> None:
        self.loads += 1
        if self.loads > self.budget:
            raise StepBudgetExceeded("template-loads", f"loads={self.loads} budget={self.budget}")

    def load(self, env: Any, name: str, **kwargs: Any) -> Any:  # type: ignore[override]
        self._count()
        return super().load(env, name, **kwargs)

    async def load_async(self, env: Any, name: str, **kwargs: Any) -> Any:  # type: ignore[override]
        self._count()
        return await super().load_async(env, name, **kwargs)
