"""C09 generators: unterminated / unbalanced tag skeletons and recursive template families.

Everything is a plain enumeration (itertools.product over small alphabets); no sampling.
"""

from __future__ import annotations

import itertools
from typing import Any
from typing import Iterator
from typing import Optional

# ---------------------------------------------------------------------------
# (i) parsing: per-tag skeleton alphabets
# ---------------------------------------------------------------------------
# name -> (well-formed opener, [openers with a missing / broken expression], [inner tags], [end tags])
BLOCK_TAGS: dict[str, tuple[str, list[str], list[str], list[str]]] = {
    # builtin
    "if": ("{% if x %}", ["{% if %}"], ["{% elsif y %}", "{% elsif %}", "{% else %}"], ["{% endif %}"]),
    "unless": ("{% unless x %}", ["{% unless %}"], ["{% elsif y %}", "{% else %}", "{% else x %}"],
               ["{% endunless %}"]),
    "case": ("{% case x %}", ["{% case %}"], ["{% when 1 %}", "{% when %}", "{% when 1, %}", "{% else %}"],
             ["{% endcase %}"]),
    "for": ("{% for i in a %}", ["{% for %}", "{% for i %}"], ["{% else %}", "{% break %}"], ["{% endfor %}"]),
    "tablerow": ("{% tablerow i in a %}", ["{% tablerow %}"], ["{% else %}"], ["{% endtablerow %}"]),
    "capture": ("{% capture c %}", ["{% capture %}"], ["{{ c }}"], ["{% endcapture %}"]),
    "ifchanged": ("{% ifchanged %}", ["{% ifchanged x %}"], ["{% else %}"], ["{% endifchanged %}"]),
    "comment": ("{% comment %}", ["{% comment x %}", "{% comment"], ["{% if %}"], ["{% endcomment %}"]),
    "raw": ("{% raw %}", ["{% raw x %}", "{% raw"], ["{% if %}"], ["{% endraw %}"]),
    "doc": ("{% doc %}", ["{% doc x %}", "{% doc"], ["{% if %}"], ["{% enddoc %}"]),
    # extra
    "with": ("{% with k: 1 %}", ["{% with %}"], ["{% else %}"], ["{% endwith %}"]),
    "macro": ("{% macro m %}", ["{% macro %}"], ["{% call m %}", "{% call %}"], ["{% endmacro %}"]),
    "block": ("{% block b %}", ["{% block %}"], ["{{ block.super }}", "{% extends 'p' %}"],
              ["{% endblock %}", "{% endblock z %}"]),
    "snippet": ("{% snippet s %}", ["{% snippet %}"], ["{% render s %}"], ["{% endsnippet %}"]),
    "translate": ("{% translate %}", ["{% translate x %}"], ["{% plural %}", "{{ x }}"], ["{% endtranslate %}"]),
    # a tag nobody registered
    "unknown": ("{% foo x %}", ["{% foo %}"], ["{% else %}"], ["{% endfoo %}"]),
}
BUILTIN_TAGS = ("if", "unless", "case", "for", "tablerow", "capture", "ifchanged", "comment", "raw", "doc")
EXTRA_TAGS = ("with", "macro", "block", "snippet", "translate", "unknown")

# pieces every per-tag alphabet gets in addition: a foreign opener, a foreign end tag, an
# opener of the tag written as a line of a `liquid` tag, and a bare unterminated delimiter
FOREIGN = {
    "default": ["{% for j in a %}", "{% endfor %}"],
    "for": ["{% if y %}", "{% endif %}"],
    "tablerow": ["{% if y %}", "{% endif %}"],
}
LIQUID_OPEN = {
    "if": "if x", "unless": "unless x", "case": "case x", "for": "for i in a", "tablerow": "tablerow i in a",
    "capture": "capture c", "ifchanged": "ifchanged", "comment": "comment", "raw": "raw", "doc": "doc",
    "with": "with k: 1", "macro": "macro m", "block": "block b", "snippet": "snippet s",
    "translate": "translate", "unknown": "foo x",
}

JOINERS = ("", " j ")
TRAILERS = ("", " t")


def tag_alphabet(tag: str) -> list[str]:
    op, bad, inner, ends = BLOCK_TAGS[tag]
    fo = FOREIGN.get(tag, FOREIGN["default"])
    liq = ["{% liquid " + LIQUID_OPEN[tag] + "\n%}", "{%"]
    return [op, *bad, *inner, *ends, *fo, *liq]


def balanced(tag: str, seq: tuple[str, ...]) -> bool:
    """True iff the sequence is *not* an unterminated/unbalanced/malformed skeleton by the
    generator's own bracket discipline (only well-formed opener/inner/end pieces, properly nested).
    Used for the non-triviality rule only, never for a verdict."""
    op, bad, inner, ends = BLOCK_TAGS[tag]
    fo_open, fo_end = FOREIGN.get(tag, FOREIGN["default"])
    good_inner = {"if": {"{% elsif y %}", "{% else %}"}, "unless": {"{% elsif y %}", "{% else %}"},
                  "case": {"{% when 1 %}", "{% else %}"}, "for": {"{% else %}", "{% break %}"},
                  "translate": {"{% plural %}", "{{ x }}"}, "capture": {"{{ c }}"}}.get(tag, set())
    stack: list[str] = []
    for p in seq:
        if p == op:
            stack.append("T")
        elif p == fo_open:
            stack.append("F")
        elif p == ends[0]:
            if not stack or stack.pop() != "T":
                return False
        elif p == fo_end:
            if not stack or stack.pop() != "F":
                return False
        elif p in good_inner:
            if not stack or stack[-1] != "T":
                return False
        else:
            return False
    return not stack


def skeletons(tag: str, max_len: int, first: Optional[int] = None,
              joiner_max_len: int = 99) -> Iterator[tuple[tuple[int, ...], str, bool]]:
    """All sequences of 1..max_len pieces of the tag's alphabet x joiner x trailer.

    Yields (identity, source, is_unbalanced).  ``first`` restricts to one first piece (sharding);
    the "text between the tags" variant is only generated for sequences of <= joiner_max_len pieces."""
    alpha = tag_alphabet(tag)
    idx = range(len(alpha))
    firsts = idx if first is None else (first,)
    for n in range(1, max_len + 1):
        for f in firsts:
            for rest in itertools.product(idx, repeat=n - 1):
                combo = (f, *rest)
                pieces = tuple(alpha[i] for i in combo)
                unb = not balanced(tag, pieces)
                for ji, j in enumerate(JOINERS):
                    if ji and (n == 1 or n > joiner_max_len):
                        continue
                    body = j.join(pieces)
                    for ti, t in enumerate(TRAILERS):
                        yield (combo + (ji, ti)), body + t, unb


# lexer-level pieces: unterminated raw / comment / doc / delimiters / template comments
LEX_PIECES: list[str] = [
    "{% raw %}", "{% endraw %}", "{% raw", "{%- raw -%}", "{% comment %}", "{% endcomment %}", "{% comment",
    "{% doc %}", "{% enddoc %}", "{% doc", "{#", "#}", "{% # c %}", "{% #", "{% liquid", "{% liquid %}",
    "{%", "%}", "{{", "}}", "-%}", "x", "\n",
]


def lex_skeletons(max_len: int, first: Optional[int] = None) -> Iterator[tuple[tuple[int, ...], str, bool]]:
    idx = range(len(LEX_PIECES))
    firsts = idx if first is None else (first,)
    for n in range(1, max_len + 1):
        for f in firsts:
            for rest in itertools.product(idx, repeat=n - 1):
                combo = (f, *rest)
                for si, sep in enumerate(("", " ")):
                    if n == 1 and si:
                        continue
                    yield combo + (si,), sep.join(LEX_PIECES[i] for i in combo), True


# lines of a `liquid` tag
LIQUID_LINES: list[str] = [
    "if x", "elsif", "else", "endif", "case x", "when 1", "when", "endcase", "for i in a", "endfor", "echo 1",
    "comment", "endcomment", "raw", "liquid if x", "#", "", "unless", "capture c", "assign",
]
LIQUID_HEADS = ("{% liquid ", "{% liquid\n", "{%- liquid ")
LIQUID_TAILS = (" %}", "", "\n%}", "\n", " %} t", " %}{% endif %}")


def liquid_skeletons(max_len: int, first: Optional[int] = None) -> Iterator[tuple[tuple[int, ...], str, bool]]:
    idx = range(len(LIQUID_LINES))
    firsts = idx if first is None else (first,)
    for n in range(1, max_len + 1):
        for f in firsts:
            for rest in itertools.product(idx, repeat=n - 1):
                combo = (f, *rest)
                body = "\n".join(LIQUID_LINES[i] for i in combo)
                for hi, head in enumerate(LIQUID_HEADS):
                    if hi and n > 2:
                        continue
                    for ti, tail in enumerate(LIQUID_TAILS):
                        yield combo + (hi, ti), head + body + tail, True


# deep (non recursive) nesting -------------------------------------------------------------
WRAPPERS: dict[str, tuple[str, str]] = {
    # literals, not variables: a variable look-up inside 30 nested render contexts walks a 30-deep
    # chain map and would dominate the run time without adding anything to the property
    "if": ("{% if true %}", "{% endif %}"),
    "unless": ("{% unless false %}", "{% endunless %}"),
    "for": ("{% for i in (1..1) %}", "{% endfor %}"),
    "capture": ("{% capture c %}", "{% endcapture %}{{ c }}"),
    "with": ("{% with q: 1 %}", "{% endwith %}"),
    "case": ("{% case 1 %}{% when 1 %}", "{% endcase %}"),
    "block": ("{% block w@ %}", "{% endblock %}"),
}
WRAPPER_KINDS = ("if", "for", "capture", "with", "block", "case", "unless", "mixed")
_MIX = ("if", "for", "capture", "with", "block", "case", "unless")
DATA = {"t": True, "one": [1], "x": 1, "a": [1, 2]}


def wrap(kind: str, b: int, inner: str, salt: str = "") -> str:
    """``inner`` inside ``b`` nested blocks of ``kind`` ("mixed" rotates through all kinds)."""
    opens: list[str] = []
    closes: list[str] = []
    for lvl in range(b):
        k = _MIX[lvl % len(_MIX)] if kind == "mixed" else kind
        o, c = WRAPPERS[k]
        opens.append(o.replace("@", f"{salt}_{lvl}"))
        closes.append(c)
    return "".join(opens) + inner + "".join(reversed(closes))


def unterminated(kind: str, b: int, inner: str) -> str:
    """``b`` nested openers and no end tag at all."""
    full = wrap(kind, b, "\x00")
    return full.split("\x00")[0] + inner


# ---------------------------------------------------------------------------
# (ii) rendering: recursive families
# ---------------------------------------------------------------------------
LINK_KINDS_CORE = ("include", "render", "extends", "call")
LINK_KINDS_MORE = ("callbody", "snippet", "extendsin")
SIG_KIND = {"callbody": "call", "extendsin": "extends"}  # what the signature calls the link


def link_template(k: str, target: str, mark: str, wrapper: str, b: int, salt: str, in_block: bool) -> str:
    """One template that refers to ``target`` through a link of kind ``k`` placed inside ``b``
    nested ``wrapper`` blocks.  ``in_block``: the template is reached through `extends`, so its
    content must live in the inherited block to be rendered at all."""
    if k == "include":
        body = mark + wrap(wrapper, b, "{% include '" + target + "' %}", salt)
    elif k == "render":
        body = mark + wrap(wrapper, b, "{% render '" + target + "' %}", salt)
    elif k == "call":
        body = ("{% macro m %}" + mark + "{% render '" + target + "' %}{% endmacro %}"
                + wrap(wrapper, b, "{% call m %}", salt))
    elif k == "callbody":
        body = ("{% macro m %}" + mark + wrap(wrapper, b, "{% render '" + target + "' %}", salt)
                + "{% endmacro %}{% call m %}")
    elif k == "snippet":
        body = ("{% snippet s %}" + mark + "{% render '" + target + "' %}{% endsnippet %}"
                + wrap(wrapper, b, "{% render s %}", salt))
    elif k == "extends":
        return ("{% extends '" + target + "' %}{% block c %}" + mark
                + wrap(wrapper, b, "{{ block.super }}", salt) + "{% endblock %}")
    elif k == "extendsin":
        return (wrap(wrapper, b, "{% extends '" + target + "' %}", salt) + "{% block c %}" + mark
                + "{{ block.super }}{% endblock %}")
    else:  # pragma: no cover
        raise ValueError(k)
    if in_block:
        body = "{% block c %}" + body + "{% endblock %}"
    return body


def family_templates(kinds: tuple[str, ...], wrapper: str, b: int, tail: bool = False,
                     prefix: str = "") -> dict[str, str]:
    """Templates t0..t{n-1}; t_i refers to t_{(i+1) % n} through a link of kind kinds[i] that
    sits inside ``b`` nested ``wrapper`` blocks.  Rendering starts at t0 -- or, with ``tail``, at
    an extra template "e" outside the cycle that refers to t0 by a link of kind kinds[-1].
    ``prefix`` (e.g. "./") is put in front of every template name, in the links and in the keys."""
    n = len(kinds)
    out: dict[str, str] = {}
    for i, k in enumerate(kinds):
        pred = kinds[(i - 1) % n]
        out[f"{prefix}t{i}"] = link_template(k, f"{prefix}t{(i + 1) % n}", f"[{i}]", wrapper, b, f"w{i}",
                                             pred in ("extends", "extendsin"))
    if tail:
        out[f"{prefix}e"] = link_template(kinds[-1], f"{prefix}t0", "[e]", wrapper, b, "we", False)
    return out


def selfcall_templates(wrapper: str, b: int) -> dict[str, str]:
    """A macro whose body calls the macro's own name, and calls itself through a parameter."""
    return {
        "t0": "{% macro m n %}[m]" + wrap(wrapper, b, "{% call m n %}", "w0") + "{% endmacro %}{% call m 1 %}",
    }


def families(kind_sets: list[tuple[str, ...]]) -> list[tuple[str, ...]]:
    return list(kind_sets)


def all_cycles(kinds: tuple[str, ...], n: int) -> list[tuple[str, ...]]:
    return list(itertools.product(kinds, repeat=n))


# ---------------------------------------------------------------------------
# (iii) regex / lexer blow-up shapes (executed in a forked child under a kernel CPU limit)
# ---------------------------------------------------------------------------
# every expression position of the language, `@` is the hole
POSITIONS: list[tuple[str, str]] = [
    ("output", "{{ @ }}"),
    ("output-after-operand", "{{ x @ }}"),
    ("filter-arg", "{{ x | append: @ }}"),
    ("filter-2nd-arg", "{{ x | replace: 'a', @ }}"),
    ("filter-kwarg", "{{ x | default: y, allow_false: @ }}"),
    ("filter-name", "{{ x | @ }}"),
    ("assign", "{% assign v = @ %}"),
    ("assign-filter-arg", "{% assign v = x | append: @ | upcase %}"),
    ("echo", "{% echo @ %}"),
    ("if", "{% if @ %}a{% endif %}"),
    ("if-rhs", "{% if x == @ %}a{% endif %}"),
    ("if-and", "{% if x and y == @ or z %}a{% endif %}"),
    ("elsif", "{% if x %}a{% elsif x == @ %}b{% endif %}"),
    ("unless", "{% unless x == @ %}a{% endunless %}"),
    ("case", "{% case @ %}{% when 1 %}a{% endcase %}"),
    ("when", "{% case x %}{% when 1, @ %}a{% endcase %}"),
    ("for-iterable", "{% for i in @ %}a{% endfor %}"),
    ("for-arg", "{% for i in a limit: @ %}a{% endfor %}"),
    ("for-range", "{% for i in (1..@) %}a{% endfor %}"),
    ("tablerow-arg", "{% tablerow i in a cols: @ %}a{% endtablerow %}"),
    ("cycle", "{% cycle @, 1 %}"),
    ("capture-name", "{% capture @ %}a{% endcapture %}"),
    ("increment", "{% increment @ %}"),
    ("include-name", "{% include @ %}"),
    ("include-with", "{% include 'p' with @ as v %}"),
    ("include-arg", "{% include 'p', k: @ %}"),
    ("render-name", "{% render @ %}"),
    ("render-for", "{% render 'p' for @ as v %}"),
    ("render-arg", "{% render 'p', k: @, j: 1 %}"),
    ("liquid-line", "{% liquid echo @\nassign z = 1 %}"),
    ("liquid-if-line", "{% liquid if x == @\necho 1\nendif %}"),
    ("liquid-last-line", "{% liquid assign z = 1\necho @ %}"),
    ("with-arg", "{% with k: @ %}a{% endwith %}"),
    ("macro-default", "{% macro m a: @ %}a{% endmacro %}"),
    ("call-arg", "{% call m @ %}"),
    ("extends-name", "{% extends @ %}"),
    ("block-name", "{% block @ %}a{% endblock %}"),
    ("translate-arg", "{% translate k: @ %}a{% endtranslate %}"),
    ("unterminated-tag", "{% if x == @"),
    ("unterminated-output", "{{ x | append: @"),
    ("inside-unclosed-block", "{% for p in a %}{{ p.t | default: @ | upcase }}"),
    ("comment-body", "{% comment %} @ {% endcomment %}"),
    ("raw-body", "{% raw %} @ {% endraw %}"),
    ("top-level-text", "@"),
]

_WORDS = ("hello | append: name | upcase | strip | escape | downcase | default: title, allow_false: true "
          "| truncate: 20 | split: sep | first")
_OTHER = {'"': "'", "'": '"'}
TAIL_LENGTHS = (30, 40, 50, 60)
TAIL_KINDS = ("words", "letters", "other-quote", "spaces-digits")


def quote_tail(quote: str, kind: str, length: int) -> str:
    """An opening quote that is never closed, followed by ``length`` characters."""
    if kind == "words":
        tail = (_WORDS * 2)[:length]
    elif kind == "letters":
        tail = ("abcdefghij" * 10)[:length]
    elif kind == "other-quote":
        tail = (("it" + _OTHER[quote] + "s a long tail ") * 10)[:length]
    else:
        tail = ("12 34.5 " * 10)[:length]
    return quote + tail


RUN_FRAGMENTS: list[str] = [
    "(", ")", "[", "]", "|", ":", ",", " ", "-", "1", ".", "..", "{{", "{%", "}}", "%}", "=", "<", ">", "!",
    "a", "a.", "a[", "[0]", "a|", "|a:", "'", '"', "''", "not ", "and ", "x or ", "(1..", "\n", "\t", "#", "-%}{%-",
    "{% if x %}", "{{ x }}",
]
RUN_LENGTH = 200


def blowup_sources(position: int) -> list[tuple[list[Any], str]]:
    """(identity, source) for one expression position: every unterminated-quote tail and every
    run of RUN_LENGTH repetitions of one fragment."""
    name, tpl = POSITIONS[position]
    out: list[tuple[list[Any], str]] = []
    for n in reversed(TAIL_LENGTHS):  # longest tails first: a blow-up is then decided by the first source
        for q in ('"', "'"):
            for kind in TAIL_KINDS:
                out.append(([name, "quote", q, kind, n], tpl.replace("@", quote_tail(q, kind, n))))
    for frag in RUN_FRAGMENTS:
        out.append(([name, "run", frag, RUN_LENGTH], tpl.replace("@", frag * RUN_LENGTH)))
    return out
