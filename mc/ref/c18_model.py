"""C18 reference model: abstract inheritance programs, their printer and the resolver.

An abstract *program* is ``{"templates": {name: {"extends": [parent names], "nodes": [...]}},
"leaf": name}``.  A node is one of (lists or tuples, so that replay files round-trip)::

    ["text", s]                              literal text (no Liquid syntax in it)
    ["var"]                                  {{ x }}           (x is render data, DATA)
    ["loopvar"]                              {{ i }}           (the loop variable of an enclosing for)
    ["forindex"]                             {{ forloop.index }}
    ["withvar"]                              {{ w }}           (bound by an enclosing with)
    ["with", [nodes]]                        {% with w: 'W' %}...{% endwith %}
    ["super"]                                {{ block.super }}
    ["for", [nodes]]                         {% for i in (1..2) %}...{% endfor %}
    ["if", [nodes]]                          {% if true %}...{% endif %}            (always taken)
    ["unless", [nodes]]                      {% unless false %}...{% endunless %}   (always taken)
    ["case", [nodes]]                        {% case 1 %}{% when 1 %}...{% endcase %} (always taken)
    ["block", name, required, [nodes], endname]   endname None = bare {% endblock %}

The real engine only ever sees ``print_program(prog)``; the resolver below only ever sees
the abstract program.

Provenance of every clause (S = property statement C18, D = /repo/docs/optional_tags.md):

* output = root template with every block replaced by its most-derived definition (S; D "extends").
* ``block.super`` renders the next definition up the chain, which has its own super (S; D "Super blocks").
* blocks nested inside a rendered definition are resolved again to their most-derived definition (S).
* in a non-root template nothing outside blocks is rendered (S).
* a required block that no descendant overrides raises RequiredBlockError (S; D "block").
* circular extends raises TemplateInheritanceError (S).
* duplicate block names in one template / mismatched endblock name are rejected (S; D "block":
  "must have a name that is unique to the template", "the endblock name must match") -- "rejected" is
  read as "a LiquidError is raised instead of output"; the class is not fixed by S or D.
* render data is visible inside blocks (D: ``Hello, {{ you }}!`` in an overriding block); a ``for`` loop
  renders its body once per item, ``if true`` / ``unless false`` / ``case 1 when 1`` render their body
  (standard Liquid, tag_reference.md).  A block that sits alone inside such a tag is still "replaced by
  its most-derived definition" (S) -- whether the definition written in that template is empty says
  nothing about what is rendered there.

Unspecified (excluded and counted, never guessed):

* ``block.super`` in a definition that has no definition above it (D only defines it "if a block is
  overriding a parent block"), or outside any block;
* a template with two ``extends`` tags (S and D are silent);
* a required block that nobody overrides but that is never reached when the root is rendered
  (S says "raises", but also that nothing in a child renders except through blocks);
* names bound by ``for`` / ``with``: the output is the root "with every block replaced by its most-derived
  definition" (S; quantifier: "variables and loops inside blocks"), so a rendered definition -- selected or
  reached through super -- reads the loop variable, ``forloop.index`` (tag_reference.md: "a forloop object is
  available inside every for tag block") and ``with`` names (D "with": "extends the template namespace")
  of every construct that encloses the place where it is substituted; a name nothing binds there renders
  as the empty string (variables_and_drops.md, default Undefined).  Two corners stay excluded: a name that
  is bound only by a construct written around the definition in its own template but not in effect where
  the definition is substituted (e.g. a ``for`` around a block in a child, which is not rendered), and a
  name bound inside an overriding definition's own body and read by the parent definition through
  ``block.super`` (substitution says visible; nothing documents what the parent's body may see);
* resolution that re-enters a definition that is still being rendered (infinite by the statement's
  own rules: no output is defined);
* more than one error shape in one program;
* the exact output of a definition whose body is nothing but whitespace text, when that definition is the
  one rendered (selected or through super): S says "replaced by its definition" (the whitespace), the
  engine's ``suppress_blank_control_flow_blocks`` (environment.md lists the flag, nothing says whether an
  inheritance block counts) drops it.  Such definitions are generated as placeholders; cases that render
  one are excluded, cases that override it are judged.
"""

from __future__ import annotations

from typing import Any
from typing import Optional

DATA = {"x": "X"}
LOOP_ITEMS = ("1", "2")  # rendering of (1..2)
WRAPPERS = ("for", "if", "unless", "case", "with")  # tags whose body is a node list (conditions always true)


def whitespace_only(body: Any) -> bool:
    return len(body) > 0 and all(n[0] == "text" and n[1].isspace() for n in body)


# ---------------------------------------------------------------------------
# printer
# ---------------------------------------------------------------------------
def print_nodes(nodes: Any) -> str:
    out: list[str] = []
    for n in nodes:
        k = n[0]
        if k == "text":
            out.append(n[1])
        elif k == "var":
            out.append("{{ x }}")
        elif k == "loopvar":
            out.append("{{ i }}")
        elif k == "forindex":
            out.append("{{ forloop.index }}")
        elif k == "withvar":
            out.append("{{ w }}")
        elif k == "with":
            out.append("{% with w: 'W' %}" + print_nodes(n[1]) + "{% endwith %}")
        elif k == "super":
            out.append("{{ block.super }}")
        elif k == "for":
            out.append("{% for i in (1..2) %}" + print_nodes(n[1]) + "{% endfor %}")
        elif k == "if":
            out.append("{% if true %}" + print_nodes(n[1]) + "{% endif %}")
        elif k == "unless":
            out.append("{% unless false %}" + print_nodes(n[1]) + "{% endunless %}")
        elif k == "case":
            out.append("{% case 1 %}{% when 1 %}" + print_nodes(n[1]) + "{% endcase %}")
        elif k == "block":
            _, name, required, body, endname = n
            out.append(
                "{% block " + name + (" required" if required else "") + " %}"
                + print_nodes(body)
                + "{% endblock" + (" " + endname if endname else "") + " %}"
            )
        else:  # pragma: no cover
            raise AssertionError(n)
    return "".join(out)


def print_template(t: Any) -> str:
    return "".join("{% extends '" + p + "' %}" for p in t["extends"]) + print_nodes(t["nodes"])


def print_program(prog: Any) -> dict[str, str]:
    return {name: print_template(t) for name, t in prog["templates"].items()}


# ---------------------------------------------------------------------------
# resolver
# ---------------------------------------------------------------------------
def blocks_preorder(nodes: Any) -> list[Any]:
    out: list[Any] = []
    for n in nodes:
        if n[0] == "block":
            out.append(n)
            out.extend(blocks_preorder(n[3]))
        elif n[0] in WRAPPERS:
            out.extend(blocks_preorder(n[1]))
    return out


def has_super_outside_block(nodes: Any) -> bool:
    for n in nodes:
        if n[0] == "super":
            return True
        if n[0] in WRAPPERS and has_super_outside_block(n[1]):
            return True
    return False


BINDS = {"for": ("i", "fi"), "with": ("w",)}
READS = {"loopvar": "i", "forindex": "fi", "withvar": "w"}


def blocks_with_binders(nodes: Any, binders: frozenset[str] = frozenset()) -> list[tuple[Any, frozenset[str]]]:
    """Every block (preorder) with the names bound by the constructs written around it in its template."""
    out: list[tuple[Any, frozenset[str]]] = []
    for n in nodes:
        if n[0] == "block":
            out.append((n, binders))
            out.extend(blocks_with_binders(n[3], binders))
        elif n[0] in WRAPPERS:
            out.extend(blocks_with_binders(n[1], binders | frozenset(BINDS.get(n[0], ()))))
    return out


class _Resolver:
    def __init__(self, chain: list[Any]):
        # chain: templates root first.  defs[name] = definitions, most derived first.
        self.defs: dict[str, list[tuple[int, Any]]] = {}
        self.lexical: dict[tuple[str, int], frozenset[str]] = {}
        for level in range(len(chain) - 1, -1, -1):
            for b, binders in blocks_with_binders(chain[level]["nodes"]):
                self.defs.setdefault(b[1], []).append((level, b))
                self.lexical[(b[1], len(self.defs[b[1]]) - 1)] = binders
        self.frames = 0
        self.bound_reads = 0
        self.bound_reads_across_block = 0
        self.unspecified: list[str] = []
        self.required_hit: Optional[str] = None
        self.active: list[tuple[str, int]] = []
        self.max_super_depth = 0
        self.cross_level_nested = 0
        self.blocks_resolved = 0
        self.overridden_resolved = 0
        self.super_into_required = 0
        self.empty_rendered = 0

    # env: name -> (value, frame that bound it, tainted).  A frame is one rendering of one definition
    # body (0 = the root's top level).
    def render(self, nodes: Any, ctx: Optional[tuple[str, int]], env: dict[str, Any], frame: int, sdepth: int) -> str:
        out: list[str] = []
        for n in nodes:
            k = n[0]
            if k == "text":
                out.append(n[1])
            elif k == "var":
                out.append(DATA["x"])
            elif k in READS:
                b = env.get(READS[k])
                if b is None:
                    if ctx is not None and READS[k] in self.lexical[ctx]:
                        self.unspecified.append("name-bound-around-the-definition-but-not-where-it-is-rendered")
                    # else: nothing binds it: default Undefined renders as the empty string
                elif b[2]:
                    self.unspecified.append("name-bound-in-overriding-body-read-through-super")
                else:
                    self.bound_reads += 1
                    if b[1] != frame:
                        self.bound_reads_across_block += 1
                    out.append(b[0])
            elif k == "for":
                for idx, item in enumerate(LOOP_ITEMS):
                    e2 = dict(env)
                    e2["i"] = (item, frame, False)
                    e2["fi"] = (str(idx + 1), frame, False)
                    out.append(self.render(n[1], ctx, e2, frame, sdepth))
            elif k == "with":
                e2 = dict(env)
                e2["w"] = ("W", frame, False)
                out.append(self.render(n[1], ctx, e2, frame, sdepth))
            elif k in ("if", "unless", "case"):
                out.append(self.render(n[1], ctx, env, frame, sdepth))
            elif k == "block":
                out.append(self.block(n[1], ctx, env))
            elif k == "super":
                out.append(self.super(ctx, env, frame, sdepth))
            else:  # pragma: no cover
                raise AssertionError(n)
        return "".join(out)

    def enter(self, name: str, j: int, env: dict[str, Any], sdepth: int) -> str:
        key = (name, j)
        if key in self.active:
            self.unspecified.append("resolution-re-enters-active-definition")
            return ""
        body = self.defs[name][j][1][3]
        if whitespace_only(body):
            self.unspecified.append("whitespace-only-definition-rendered")
            return ""
        if not body:
            self.empty_rendered += 1
        self.active.append(key)
        self.frames += 1
        try:
            return self.render(body, key, env, self.frames, sdepth)
        finally:
            self.active.pop()

    def block(self, name: str, ctx: Optional[tuple[str, int]], env: dict[str, Any]) -> str:
        chain = self.defs[name]
        level, node = chain[0]
        self.blocks_resolved += 1
        if len(chain) > 1:
            self.overridden_resolved += 1
        if ctx is not None and self.defs[ctx[0]][ctx[1]][0] != level:
            self.cross_level_nested += 1
        if node[2]:
            if self.required_hit is None:
                self.required_hit = name
            return ""
        return self.enter(name, 0, env, 0)

    def super(self, ctx: Optional[tuple[str, int]], env: dict[str, Any], frame: int, sdepth: int) -> str:
        if ctx is None:
            self.unspecified.append("super-outside-block")
            return ""
        name, j = ctx
        if j + 1 >= len(self.defs[name]):
            self.unspecified.append("super-without-parent-definition")
            return ""
        self.max_super_depth = max(self.max_super_depth, sdepth + 1)
        if self.defs[name][j + 1][1][2]:
            self.super_into_required += 1
        # what the overriding body itself bound is not promised to the parent definition
        e2 = {k: ((v[0], v[1], True) if v[1] == frame else v) for k, v in env.items()}
        return self.enter(name, j + 1, e2, sdepth + 1)


def walk(prog: Any) -> tuple[list[str], bool]:
    """Template names from the leaf upwards (first extends), and whether the walk hit a cycle."""
    order: list[str] = []
    seen: set[str] = set()
    name = prog["leaf"]
    while True:
        if name in seen:
            return order, True
        seen.add(name)
        order.append(name)
        ext = prog["templates"][name]["extends"]
        if not ext:
            return order, False
        name = ext[0]


def expected(prog: Any) -> dict[str, Any]:
    """What the statement/docs prescribe for rendering ``prog['leaf']``.

    Returns {"kind": "ok", "output": s} | {"kind": "error", "cls": name} |
    {"kind": "reject", "why": ...} | {"kind": "unspecified", "why": ...}; plus "stats".
    """
    order, cyclic = walk(prog)
    T = prog["templates"]
    shapes: list[str] = []
    if cyclic:
        shapes.append("cycle")
    for name in order:
        t = T[name]
        if len(t["extends"]) > 1:
            shapes.append("two-extends")
        bl = blocks_preorder(t["nodes"])
        names = [b[1] for b in bl]
        if len(set(names)) != len(names):
            shapes.append("duplicate")
        if any(b[4] is not None and b[4] != b[1] for b in bl):
            shapes.append("endblock")
    stats: dict[str, Any] = {"chain_len": len(order), "shapes": shapes}
    if len(shapes) > 1:
        return {"kind": "unspecified", "why": "multiple-error-shapes", "stats": stats}
    if shapes == ["two-extends"]:
        return {"kind": "unspecified", "why": "two-extends", "stats": stats}
    if shapes == ["duplicate"]:
        return {"kind": "reject", "why": "duplicate", "stats": stats}
    if shapes == ["endblock"]:
        return {"kind": "reject", "why": "endblock", "stats": stats}
    if shapes == ["cycle"]:
        return {"kind": "error", "cls": "TemplateInheritanceError", "why": "cycle", "stats": stats}

    chain = [T[n] for n in reversed(order)]
    r = _Resolver(chain)
    out = r.render(chain[0]["nodes"], None, {}, 0, 0)
    stats.update(
        max_super_depth=r.max_super_depth,
        cross_level_nested=r.cross_level_nested,
        blocks_resolved=r.blocks_resolved,
        overridden_resolved=r.overridden_resolved,
        super_into_required=r.super_into_required,
        empty_rendered=r.empty_rendered,
        bound_reads=r.bound_reads,
        bound_reads_across_block=r.bound_reads_across_block,
        names_defined_twice=sum(1 for d in r.defs.values() if len(d) > 1),
    )
    if r.unspecified:
        return {"kind": "unspecified", "why": r.unspecified[0], "stats": stats}
    if r.required_hit is not None:
        return {"kind": "error", "cls": "RequiredBlockError", "why": "required", "stats": stats}
    for name, d in r.defs.items():
        if d[0][1][2]:
            return {"kind": "unspecified", "why": "required-not-overridden-but-unreached", "stats": stats}
    return {"kind": "ok", "output": out, "stats": stats}
