"""C03 helpers: observation of one source under STRICT / WARN / LAX and the four oracle clauses.

Nothing here predicts what the engine should output; the oracle is the differential relation
the property states (strict vs. warn vs. lax) plus "no LiquidError escapes in warn/lax".

Observation side effects:
* clause 3b ("each suppressed error is reported as a warning", literal): if STRICT raises a
  LiquidError for (source, data) and WARN does not raise, WARN must emit >= 1 warning; the signature
  carries the STRICT raise site (innermost library frame file:function) and the error class.
* ``install_sinks()`` wraps the two public error sinks ``liquid.Environment.error`` and
  ``liquid.context.RenderContext.error`` (class level) to count calls.  In STRICT every such
  call raises, so in LAX "calls to a sink" == "errors that strict mode would have raised at
  that point and that the mode suppressed".  If either attribute is missing, or a known
  malformed template no longer reaches a sink, ``HarnessBindingLost`` is raised: the check
  fails loudly instead of passing vacuously.
"""

from __future__ import annotations

import warnings
from collections import Counter
from typing import Any
from typing import Mapping
from typing import NamedTuple
from typing import Optional

from liquid import Environment
from liquid.context import RenderContext
from liquid.exceptions import LiquidError
from liquid.exceptions import LiquidWarning
from liquid.exceptions import ResourceLimitError
from liquid.exceptions import UndefinedError

from mc import util as U


class HarnessBindingLost(RuntimeError):
    pass


class _Sinks:
    installed = False
    calls = 0  # calls to either sink since the last reset
    kinds: list[str] = []


def install_sinks() -> None:
    if _Sinks.installed:
        return
    for cls, name in ((Environment, "error"), (RenderContext, "error")):
        orig = getattr(cls, name, None)
        if orig is None or not callable(orig):
            raise HarnessBindingLost(f"harness binding lost: {cls.__module__}.{cls.__name__}.{name} is gone")

        def make(orig: Any) -> Any:
            def counted(self: Any, *a: Any, **kw: Any) -> Any:
                _Sinks.calls += 1
                exc = a[0] if a else next(iter(kw.values()), None)
                _Sinks.kinds.append(exc.__name__ if isinstance(exc, type) else type(exc).__name__)
                return orig(self, *a, **kw)

            counted.__wrapped__ = orig  # type: ignore[attr-defined]
            return counted

        setattr(cls, name, make(orig))
    _Sinks.installed = True


def selfcheck_sinks(env_lax: Environment, env_warn: Environment) -> None:
    """The wrappers must still see the errors the engine suppresses (else the count is vacuous)."""
    install_sinks()
    probe = "{% if %}a{% endif %}{% nosuchtag %}"
    _Sinks.calls = 0
    _Sinks.kinds = []
    with warnings.catch_warnings(record=True) as w:
        warnings.simplefilter("always")
        try:
            env_lax.from_string(probe).render()
            n_lax = _Sinks.calls
            env_warn.from_string(probe).render()
        except LiquidError:
            # a genuine property violation, reported by the sweep itself; only the binding matters here
            return
    n_w = sum(1 for x in w if issubclass(x.category, LiquidWarning))
    if n_w >= 1 and n_lax == 0:
        raise HarnessBindingLost(
            "harness binding lost: warn mode emits warnings for a malformed probe but no call reached "
            "Environment.error / RenderContext.error in lax mode"
        )


class Phase(NamedTuple):
    status: str  # "ok" | "liquid" | "other" | "skipped"
    err: Optional[str]  # exception class name
    where: Any  # other: file:function string; liquid: the exception (see raise_site)
    limit: bool  # error is a ResourceLimitError / UndefinedError (not a tolerance matter)
    sinks: int
    sink_kinds: tuple[str, ...]
    lwarn: int  # LiquidWarning subclasses captured
    owarn: tuple[str, ...]  # other warnings captured (category:message)
    msg: str


class Obs(NamedTuple):
    parse: Phase
    render: Phase
    output: Optional[str]

    @property
    def clean(self) -> bool:
        return self.parse.status == "ok" and self.render.status == "ok"

    @property
    def other(self) -> bool:
        return self.parse.status == "other" or self.render.status == "other"

    @property
    def sinks(self) -> int:
        return self.parse.sinks + self.render.sinks

    @property
    def lwarn(self) -> int:
        return self.parse.lwarn + self.render.lwarn

    @property
    def owarn(self) -> tuple[str, ...]:
        return self.parse.owarn + self.render.owarn

    def label(self) -> str:
        if self.parse.status != "ok":
            return f"parse:{self.parse.err}"
        if self.render.status != "ok":
            return f"render:{self.render.err}"
        return "ok"


SKIPPED = Phase("skipped", None, None, False, 0, (), 0, (), "")


_REAL: dict[str, str] = {}


def raise_site(e: Any) -> str:
    """``relative/file.py:function`` of the innermost frame inside the library (cheap traceback walk)."""
    if not isinstance(e, BaseException):
        return str(e)
    import os

    best = "?"
    tb = e.__traceback__
    while tb is not None:
        code = tb.tb_frame.f_code
        fn = _REAL.get(code.co_filename)
        if fn is None:
            fn = _REAL[code.co_filename] = os.path.realpath(code.co_filename)
        if fn.startswith(U.REPO + os.sep) and os.sep + "liquid" + os.sep in fn:
            best = f"{os.path.relpath(fn, U.REPO)}:{code.co_name}"
        tb = tb.tb_next
    return best


def _safe_str(e: BaseException) -> str:
    """str(e) of a LiquidError formats the source position and may itself raise: never let that kill the harness."""
    try:
        return str(e)[:200]
    except Exception as e2:  # noqa: BLE001
        return f"<str() of {type(e).__name__} raised {type(e2).__name__}>"


def err_msg(ph: "Phase") -> str:
    return _safe_str(ph.where) if isinstance(ph.where, BaseException) else ph.msg


def _phase(fn: Any, wlist: list[Any]) -> tuple[Phase, Any]:
    _Sinks.calls = 0
    _Sinks.kinds = []
    w0 = len(wlist)
    status, err, where, limit, msg, value = "ok", None, None, False, "", None
    try:
        value = fn()
    except LiquidError as e:
        status, err = "liquid", type(e).__name__  # message: err_msg(), lazily
        where = e  # resolved lazily by raise_site() (only violations need it)
        limit = isinstance(e, (ResourceLimitError, UndefinedError))
    except RecursionError as e:
        status, err, where = "other", "RecursionError", U.innermost_repo_frame(e)
    except Exception as e:  # noqa: BLE001  classification is the point
        status, err, msg, where = "other", type(e).__name__, _safe_str(e), U.innermost_repo_frame(e)
    sinks, kinds = _Sinks.calls, tuple(_Sinks.kinds)
    new = wlist[w0:]
    lw = sum(1 for x in new if issubclass(x.category, LiquidWarning))
    ow = tuple(sorted(f"{x.category.__name__}:{str(x.message)[:80]}" for x in new
                      if not issubclass(x.category, LiquidWarning)))
    return Phase(status, err, where, limit, sinks, kinds, lw, ow, msg), value


def observe_parse(env: Environment, source: str, wlist: list[Any]) -> tuple[Phase, Any]:
    return _phase(lambda: env.from_string(source), wlist)


def observe_render(template: Any, data: Mapping[str, Any], wlist: list[Any]) -> tuple[Phase, Optional[str]]:
    d = dict(data)
    return _phase(lambda: template.render(**d), wlist)


def lexer_accepts(env: Environment, source: str) -> str:
    """'yes' | 'no' (LiquidError from the template lexer alone) | 'other:<Class>'."""
    try:
        list(env.tokenizer()(source))
    except LiquidError:
        return "no"
    except Exception as e:  # noqa: BLE001
        return "other:" + type(e).__name__
    return "yes"


# ---------------------------------------------------------------------------
# the oracle: returns (signature, what) pairs; never looks at what the output *is*
# ---------------------------------------------------------------------------
def _first_kind(o: Obs) -> str:
    ks = o.parse.sink_kinds + o.render.sink_kinds
    return ks[0] if ks else "-"


def attributable_warnings(o: Obs, baseline: Obs) -> int:
    """Liquid warnings plus any other warning that the baseline mode did not emit as well (so a
    warning that has nothing to do with the tolerance mode, e.g. a stdlib deprecation, never counts)."""
    extra = Counter(o.owarn) - Counter(baseline.owarn)
    return o.lwarn + sum(extra.values())


def judge(strict: Obs, warn: Obs, lax: Obs, counters: Any) -> list[tuple[dict[str, Any], str]]:
    out: list[tuple[dict[str, Any], str]] = []

    # non-Liquid exceptions are C02's business -- unless the tolerance mode itself makes the difference:
    # "warn mode behaves the same [as lax]": an exception in exactly one of the two is a C03 violation.
    if strict.other:
        counters("non_liquid_exception_c02_business")
        return out
    if warn.other or lax.other:
        def first_bad(o: Obs) -> Phase:
            return o.parse if o.parse.status != "ok" else o.render
        wb, lb = first_bad(warn), first_bad(lax)
        if warn.other and lax.other and wb.err == lb.err:
            counters("non_liquid_exception_c02_business")
            return out
        which, ph = ("warn", wb) if warn.other else ("lax", lb)
        other_mode = lax if which == "warn" else warn
        out.append((
            {"clause": "warn-differs-from-lax", "mode": which, "exc": ph.err, "site": ph.where},
            f"{which} mode raised {ph.err} at {ph.where} ({ph.msg[:80]}) but "
            f"{'lax' if which == 'warn' else 'warn'} mode {other_mode.label()}; strict: {strict.label()}",
        ))
        return out

    # ---- clause 1 / 2a: nothing Liquid escapes in LAX / WARN ----------------------
    usable = True
    for mode, o in (("lax", lax), ("warn", warn)):
        for phase_name, ph in (("parse", o.parse), ("render", o.render)):
            if ph.status == "liquid":
                usable = False
                if ph.limit:
                    counters("resource_limit_or_undefined_error_excluded")
                    continue
                out.append((
                    {"clause": f"{mode}-{phase_name}-raises", "exc": ph.err},
                    f"{phase_name} raised {ph.err} in {mode} mode: {err_msg(ph)[:120]}",
                ))
    if not usable:
        return out

    # ---- clause 2b: warn behaves the same as lax -----------------------------------
    if warn.output != lax.output:
        out.append((
            {"clause": "warn-output-differs-from-lax", "strict": strict.label()},
            f"output differs: warn {warn.output!r} vs lax {lax.output!r}",
        ))

    # ---- clause 3: each suppressed error is reported as a warning -------------------
    nwarn = attributable_warnings(warn, lax)
    if nwarn != lax.sinks:
        if (nwarn == 0) != (lax.sinks == 0):
            feature = "no-warning-for-suppressed-error" if nwarn == 0 else "warning-without-suppressed-error"
        else:
            feature = "count-mismatch"
        out.append((
            {"clause": "warning-per-suppressed-error", "feature": feature, "first_error": _first_kind(lax)},
            f"warn mode emitted {nwarn} warnings but lax mode suppressed {lax.sinks} errors "
            f"({', '.join(lax.parse.sink_kinds + lax.render.sink_kinds)[:120]})",
        ))
    # lax *ignores* (Environment.error docstring: "Raise, warn or ignore ... according to the current mode";
    # the statement's "except that" makes reporting the one difference between warn and lax)
    nlax = attributable_warnings(lax, strict if strict.clean else lax)
    if nlax:
        out.append((
            {"clause": "lax-emits-warnings"},
            f"lax mode emitted {nlax} warnings ({lax.sinks} suppressed errors)",
        ))

    # ---- clause 4: strict-clean templates are untouched by the mode -------------------
    if strict.clean:
        if lax.output != strict.output:
            out.append((
                {"clause": "strict-clean-output-differs", "mode": "lax"},
                f"strict renders {strict.output!r} without error but lax renders {lax.output!r}",
            ))
        if warn.output != strict.output:
            out.append((
                {"clause": "strict-clean-output-differs", "mode": "warn"},
                f"strict renders {strict.output!r} without error but warn renders {warn.output!r}",
            ))
        n4 = attributable_warnings(warn, strict)
        if n4:
            out.append((
                {"clause": "strict-clean-but-warn-warns"},
                f"strict parses and renders without error but warn mode emitted {n4} warnings",
            ))
        if lax.sinks:
            counters("strict_clean_but_lax_reached_error_sink")
    else:
        # ---- clause 3b: EACH suppressed error is reported: strict raises a Liquid error for this
        # (source, data), warn does not raise => warn must emit at least one warning.
        sph = strict.parse if strict.parse.status == "liquid" else strict.render
        if nwarn == 0 and sph.limit:
            counters("resource_limit_or_undefined_error_excluded")
        elif nwarn == 0:
            out.append((
                {"clause": "strict-error-not-warned", "site": raise_site(sph.where), "exc": sph.err},
                f"strict mode raises {sph.err} at {raise_site(sph.where)} ({(err_msg(sph).splitlines() or [''])[0][:90]}) "
                f"but warn mode suppresses it without any warning (lax reached {lax.sinks} error sinks)",
            ))
    return out
