"""C22 helper: the sandbox directory tree, the name alphabet and the containment oracle.

Nothing here imports the library under test; it only uses ``os`` to build a tree and to
answer "which real file has this content, and is that file inside a search directory?".

Tree (``SB`` = a fresh ``tempfile.mkdtemp()``; every regular file has a unique body, so a
returned template source identifies the real file that was read)::

    SB/{secret, secret.liquid, a, a.liquid, b, b.liquid}          decoys three levels up
    SB/p1/{...same six...}                                        decoys two levels up
    SB/p1/p2/{...same six..., sub/b.liquid}                       decoys one level up
    SB/p1/p2/root.outside/{secret, secret.liquid, a.liquid, sub/b.liquid}   decoys ("outside"; also the absolute decoy)
    SB/p1/p2/root/                                                search directory 1
        a.liquid  sub/b.liquid  sub/a.liquid
        link_in, link_in.liquid      -> sub/b.liquid              (symlink staying inside)
        link_out, link_out.liquid    -> ../root.outside/secret.liquid  (file symlink leaving)
        dirlink_out                  -> ../root.outside          (directory symlink leaving)
    SB/p1/p2/root2/{a.liquid, b.liquid, secret.liquid}            search directory 2
    SB/p1/p2/rootlink -> root                                     a search directory that is a symlink
    SB/pkgs/<pkg>/__init__.py                                     throw-away package
    SB/pkgs/<pkg>/{secret, secret.liquid, a.liquid}               decoys inside the package, outside package_path
    SB/pkgs/<pkg>/templates/   (same content layout as root, links point to SB/p1/p2/root.outside)
    SB/pkgs/<pkg>/templates2/  (same as root2)
"""

from __future__ import annotations

import os
import shutil
import tempfile
from typing import Any
from typing import Iterable
from typing import Optional

LONG = "L" * 300  # longer than NAME_MAX (255) on every common file system

# symbolic tokens -> concrete component (ABS is filled per sandbox)
TOK_ABS = "<ABS_OUTSIDE>"
TOK_LONG = "<LONG300>"
TOK_ABS_BS = "<ABS_OUTSIDE_WITH_BACKSLASHES>"  # the same absolute path spelled with "\\" for "/"

ALPHABET: list[str] = [
    "", ".", "..", "/", "\\", "a", "a.liquid", "sub", "b", "link_out", "dirlink_out", "secret",
    "\x00", "\n", "~", "é", "%2e%2e", TOK_ABS, "C:", TOK_LONG,
    "link_in",  # addition to DESIGN's alphabet: a symlink that stays inside (positive control)
]
# the eight components that decide where a path points (used for the length-4 layer of quick)
SIGNIFICANT: list[str] = ["", ".", "..", "sub", "dirlink_out", "link_out", "secret", TOK_ABS]
# Separator layer: names whose components are joined by "\\" or by a mix of "/" and "\\" (Windows
# spelling of a path: the quantifier's "names built from path separators").  Components: the
# path-significant ones plus the absolute prefix spelled with backslashes.
SEP_COMPONENTS: list[str] = SIGNIFICANT + [TOK_ABS_BS]
SEPARATORS = ("/", "\\")

# Look-alike layer: Unicode compatibility characters that NFKC-normalise to path syntax
# (the quantifier's "unicode" next to "path separators, '.', '..', absolute prefixes").
#   U+2025 TWO DOT LEADER -> "..", U+FF0E FULLWIDTH FULL STOP -> ".", U+FE52 SMALL FULL STOP -> ".",
#   U+FF0F FULLWIDTH SOLIDUS -> "/", U+FF3C FULLWIDTH REVERSE SOLIDUS -> "\\"
TOK_ABS_FW = "<ABS_OUTSIDE_WITH_FULLWIDTH_SOLIDUS>"  # the absolute path spelled with U+FF0F for "/"
LOOKALIKE_COMPONENTS: list[str] = [
    "", "..", "\u2025", "\uff0e", "\uff0e\uff0e", "\ufe52\ufe52", "sub", "dirlink_out", "secret", TOK_ABS, TOK_ABS_FW,
]
# the components used at length 3 (quick) -- every one of them at length <= 2
LOOKALIKE_CORE: list[str] = ["", "..", "\u2025", "\uff0e\uff0e", "sub", "dirlink_out", "secret"]
LOOKALIKE_SEPARATORS = ("/", "\uff0f", "\uff3c")


def readings(name: str) -> list[str]:
    """Every way a lenient resolver might read ``name`` (the name itself first).

    Closure under: backslash read as a separator, Unicode NFKC compatibility normalisation,
    percent-decoding.  Used only to (a) refuse the "a link below the search directory was
    followed" allowance to names that are absolute / climbing under some reading and (b) decide
    whether a case is non-trivial.
    """
    import unicodedata
    from urllib.parse import unquote

    out = [name]
    i = 0
    while i < len(out) and len(out) < 16:
        cur = out[i]
        i += 1
        for alt in (cur.replace("\\", "/"), unicodedata.normalize("NFKC", cur), unquote(cur)):
            if alt not in out:
                out.append(alt)
    return out


def join_sym(toks: Iterable[str], seps: Optional[str] = None) -> str:
    """Symbolic name: tokens joined by ``seps[i]`` (all "/" when seps is None)."""
    toks = list(toks)
    if not toks:
        return ""
    out = [toks[0]]
    for i, t in enumerate(toks[1:]):
        out.append(seps[i] if seps else "/")
        out.append(t)
    return "".join(out)


# components that are ordinary file / directory names (docs clause "a file that exists is found")
PLAIN = {"a", "a.liquid", "sub", "b", "secret", "link_in"}

DECOY_NAMES = ["secret", "secret.liquid", "a", "a.liquid", "b", "b.liquid"]


def _write(path: str, body: str) -> None:
    os.makedirs(os.path.dirname(path), exist_ok=True)
    with open(path, "w", encoding="utf-8") as fd:
        fd.write(body)


class Sandbox:
    """One tree on disk + the tables the oracle needs (built once, read many times)."""

    def __init__(self, pkg_name: str = "c22pkg") -> None:
        self.sb = os.path.realpath(tempfile.mkdtemp(prefix="c22_"))
        self.pkg_name = pkg_name
        j = os.path.join
        self.p2 = j(self.sb, "p1", "p2")
        self.root = j(self.p2, "root")
        self.root2 = j(self.p2, "root2")
        self.rootlink = j(self.p2, "rootlink")
        self.outside = j(self.p2, "root.outside")  # shares the search directory's name as a string prefix
        self.pkgs = j(self.sb, "pkgs")
        self.pkg = j(self.pkgs, pkg_name)
        self.tpl = j(self.pkg, "templates")
        self.tpl2 = j(self.pkg, "templates2")
        self._n = 0
        try:
            self._build()
        except BaseException:
            self.close()
            raise
        self._index()

    # -- construction ----------------------------------------------------------------
    def _body(self, kind: str, rel: str) -> str:
        self._n += 1
        # markup-free, single line, unique: "<kind> #<n> <relative path>"
        return f"{kind} #{self._n:03d} {rel} sentinel-{self._n * 7919 % 100003:05d}"

    def _file(self, kind: str, path: str) -> None:
        _write(path, self._body(kind, os.path.relpath(path, self.sb)))

    def _search_dir(self, d: str, kind: str) -> None:
        j = os.path.join
        self._file(kind, j(d, "a.liquid"))
        self._file(kind, j(d, "sub", "b.liquid"))
        self._file(kind, j(d, "sub", "a.liquid"))
        rel_out = os.path.relpath(self.outside, d)
        for ln in ("link_in", "link_in.liquid"):
            os.symlink(j("sub", "b.liquid"), j(d, ln))
        for ln in ("link_out", "link_out.liquid"):
            os.symlink(j(rel_out, "secret.liquid"), j(d, ln))
        os.symlink(rel_out, j(d, "dirlink_out"))

    def _search_dir2(self, d: str, kind: str) -> None:
        j = os.path.join
        for n in ("a.liquid", "b.liquid", "secret.liquid"):
            self._file(kind, j(d, n))

    def _build(self) -> None:
        j = os.path.join
        for up in (self.sb, j(self.sb, "p1"), self.p2):
            for n in DECOY_NAMES:
                self._file("DECOY", j(up, n))
        self._file("DECOY", j(self.p2, "sub", "b.liquid"))
        for n in ("secret", "secret.liquid", "a.liquid"):
            self._file("DECOY", j(self.outside, n))
        self._file("DECOY", j(self.outside, "sub", "b.liquid"))
        self._search_dir(self.root, "INSIDE")
        self._search_dir2(self.root2, "INSIDE")
        os.symlink("root", self.rootlink)
        # the package
        _write(j(self.pkg, "__init__.py"), "")
        for n in ("secret", "secret.liquid", "a.liquid"):
            self._file("DECOY", j(self.pkg, n))
        for n in ("secret", "secret.liquid", "a.liquid"):
            self._file("DECOY", j(self.pkgs, n))
        self._search_dir(self.tpl, "INSIDE")
        self._search_dir2(self.tpl2, "INSIDE")

    def _index(self) -> None:
        """content -> real file, for every regular file of the sandbox."""
        self.by_content: dict[str, str] = {}
        for dirpath, _dirs, files in os.walk(self.sb, followlinks=False):
            for fn in files:
                p = os.path.join(dirpath, fn)
                if os.path.islink(p) or fn == "__init__.py":
                    continue
                with open(p, encoding="utf-8") as fd:
                    body = fd.read()
                assert body not in self.by_content, "harness: bodies must be unique"
                self.by_content[body] = os.path.realpath(p)
        self._reach_cache: dict[str, frozenset[str]] = {}

    def close(self) -> None:
        shutil.rmtree(self.sb, ignore_errors=True)

    # -- names -------------------------------------------------------------------------
    def component(self, tok: str) -> str:
        if tok == TOK_ABS:
            return self.outside
        if tok == TOK_ABS_BS:
            return self.outside.replace("/", "\\")
        if tok == TOK_ABS_FW:
            return self.outside.replace("/", "\uff0f")
        if tok == TOK_LONG:
            return LONG
        return tok

    def name(self, toks: Iterable[str], seps: Optional[str] = None) -> str:
        return join_sym([self.component(t) for t in toks], seps)

    # -- oracle tables -------------------------------------------------------------------
    def lexical_reach(self, base: str) -> frozenset[str]:
        """Real paths of every file that has a *lexical* path inside ``base`` (links followed)."""
        got = self._reach_cache.get(base)
        if got is None:
            acc = set()
            for dirpath, _dirs, files in os.walk(base, followlinks=True):
                for fn in files:
                    p = os.path.join(dirpath, fn)
                    if os.path.isfile(p):
                        acc.add(os.path.realpath(p))
            got = self._reach_cache[base] = frozenset(acc)
        return got

    @staticmethod
    def really_inside(real_file: str, bases: Iterable[str]) -> bool:
        for b in bases:
            rb = os.path.realpath(b)
            if real_file.startswith(rb.rstrip(os.sep) + os.sep):
                return True
        return False

    @staticmethod
    def lexically_inside(name: str, bases: Iterable[str], exts: Iterable[Optional[str]]) -> bool:
        """Could ``name`` (or name+ext) denote a lexical path below one of ``bases``?

        Purely textual: relative, and stays below the base after collapsing "." / ".."
        components textually.  Deliberately generous (a superset of what any sane
        resolution accepts) because it only *permits* outcomes.
        """
        if "\x00" in name:
            return False
        # A backslash, a compatibility look-alike (U+2025, U+FF0E, U+FF0F ...) or a percent escape may
        # be an ordinary character or may be read as path syntax: the name must stay relative and
        # below the base under EVERY reading.
        rds = [r for r in readings(name) if "\x00" not in r]
        for b in bases:
            b = os.path.normpath(b)
            for e in exts:
                if all(
                    not os.path.isabs(r) and os.path.normpath(os.path.join(b, r + (e or ""))).startswith(b + os.sep)
                    for r in rds
                ):
                    return True
        return False

    def judge_source(self, text: str, name: str, bases: list[str], *, follow_links_ok: bool,
                     exts: Iterable[Optional[str]]) -> tuple[bool, str, Optional[str]]:
        """(allowed, label, real_file) for a returned template source."""
        real = self.by_content.get(text)
        if real is None:
            return False, "unknown-source", None
        if self.really_inside(real, bases):
            return True, "inside", real
        if follow_links_ok and self.lexically_inside(name, bases, exts):
            for b in bases:
                if real in self.lexical_reach(b):
                    return True, "inside-lexically(symlink followed)", real
        return False, "outside", real

    # -- docs clause: an existing plain file is found ---------------------------------------
    def expected_plain(self, toks: list[str], bases: list[str], ext: Optional[str]) -> Optional[str]:
        """Content that docs/loading_templates.md promises for a *plain* relative name, or None.

        Plain = every component is an ordinary name and the named file (with the default
        extension appended when the name has no suffix) is a regular file in a search
        directory, reached without traversing any symlink that leaves it.  Search
        directories are tried in order.  Anything less clear-cut returns None (no claim).
        """
        if not toks or any(t not in PLAIN for t in toks):
            return None
        rel = "/".join(toks)
        last = toks[-1]
        if "." not in last:
            if ext:
                rel += ext
        for b in bases:
            p = os.path.join(b, rel)
            if os.path.isfile(p):
                real = os.path.realpath(p)
                if not self.really_inside(real, [b]):
                    return None
                with open(real, encoding="utf-8") as fd:
                    return fd.read()
            if os.path.lexists(p):
                return None  # a directory or a dangling link: no claim
        return None


def name_feature(toks: list[str], seps: Optional[str] = None) -> str:
    """The discriminating input feature used in violation signatures (first match wins).

    Computed on the symbolic name, so it does not depend on where the sandbox lives.  Names
    that use a backslash as a separator, or compatibility look-alikes of path syntax, are
    classified by what they mean when read as path syntax, prefixed with "backslash-sep:" /
    "lookalike:".
    """
    import unicodedata

    raw = join_sym(toks, seps)
    if unicodedata.normalize("NFKC", raw) != raw or TOK_ABS_FW in toks:
        prefix = "lookalike:"
    elif (seps and "\\" in seps) or TOK_ABS_BS in toks:
        prefix = "backslash-sep:"
    else:
        return _feature(raw, toks)
    norm = [TOK_ABS if t in (TOK_ABS_BS, TOK_ABS_FW) else unicodedata.normalize("NFKC", t) for t in toks]
    sym = unicodedata.normalize("NFKC", join_sym(norm, seps)).replace("\\", "/")
    return prefix + _feature(sym, norm)
    return _feature(join_sym(toks, seps), toks)


def _feature(sym: str, toks: list[str]) -> str:
    comps = sym.split("/")
    if "\x00" in sym:
        return "nul"
    if TOK_LONG in toks:
        return "component>NAME_MAX"
    if all(c in ("", ".") for c in comps):
        return "empty-or-dot-name"
    if sym.startswith("/") or toks[0] == TOK_ABS:
        return "absolute-name"
    if ".." in comps:
        return "dotdot"
    if TOK_ABS in toks:
        return "embedded-absolute"
    if "dirlink_out" in comps:
        return "dir-symlink-out"
    if "link_out" in comps:
        return "file-symlink-out"
    if "link_in" in comps:
        return "symlink-in"
    if comps[-1] in ("", "."):
        return "trailing-slash-or-dot"
    if any(t in ("\n", "~", "é", "%2e%2e", "C:", "\\") for t in toks):
        return "odd-character"
    return "plain"


def describe(toks: list[str]) -> Any:
    return list(toks)
