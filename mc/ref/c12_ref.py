"""Reference model for C12 (conditions: truthiness, comparison table, and/or/not/paren trees).

Nothing in this file imports the library under test.  Every oracle rule carries a
provenance tag; a cell for which no rule applies is returned as ``(None, reason)`` and is
*excluded and counted* by the driver, never guessed.

Provenance abbreviations
    S      property statement of C12 (properties.jsonl)
    TR#ce  /repo/docs/tag_reference.md, section "Conditional expressions" (operator table,
           "Only false, nil/null and the special undefined object are falsy")
    TR#op  /repo/docs/tag_reference.md, section "Operator precedence"
    TR#case /repo/docs/tag_reference.md, section "case"
    TR#unless /repo/docs/tag_reference.md, section "unless"
    VD#types /repo/docs/variables_and_drops.md, primitive type table
    ENV#not / ENV#par / ENV#tern  /repo/docs/environment.md sections "Logical not operator",
           "Logical parentheses", "Ternary expressions"
"""

from __future__ import annotations

import os
from decimal import Decimal
from typing import Any
from typing import Iterator
from typing import Optional


# ---------------------------------------------------------------------------
# value lattice
# ---------------------------------------------------------------------------
class _Special:
    def __init__(self, name: str):
        self.name = name

    def __repr__(self) -> str:
        return f"<{self.name}>"


UNDEF = _Special("undefined")  # the variable is not passed to render
EMPTY = _Special("empty")  # the `empty` keyword (literal only)
BLANK = _Special("blank")  # the `blank` keyword (literal only)

# (label, value, literal source or None)
W_QUICK: list[tuple[str, Any, Optional[str]]] = [
    ("i0", 0, "0"), ("i1", 1, "1"), ("i-1", -1, "-1"), ("i2", 2, "2"), ("i7", 7, "7"),
    ("f1.0", 1.0, "1.0"), ("f1.5", 1.5, "1.5"), ("f-2.5", -2.5, "-2.5"),
    ("dec1.5", Decimal("1.5"), None), ("dec2", Decimal(2), None),
    ("true", True, "true"), ("false", False, "false"), ("nil", None, "nil"), ("undef", UNDEF, None),
    ("s_empty", "", "''"), ("s_space", " ", "' '"), ("s_a", "a", "'a'"), ("s_ab", "ab", "'ab'"), ("s_1", "1", "'1'"),
    ("l_empty", [], None), ("l_1", [1], None), ("l_a", ["a"], None), ("l_true", [True], None), ("l_1a", [1, "a"], None),
    ("d_empty", {}, None), ("d_a1", {"a": 1}, None),
    ("range", range(1, 4), "(1..3)"),
    ("empty", EMPTY, "empty"), ("blank", BLANK, "blank"),
]
W_EXTRA: list[tuple[str, Any, Optional[str]]] = [
    ("i10", 10, "10"), ("huge", 10**30, str(10**30)), ("f0.0", 0.0, "0.0"), ("f2.0", 2.0, "2.0"),
    ("dec0", Decimal(0), None),
    ("s_ws", " \t\n", None), ("s_b", "b", "'b'"), ("s_1.5", "1.5", "'1.5'"), ("s_true", "true", "'true'"),
    ("s_a_b", "a b", "'a b'"), ("s_dq", "a", '"a"'), ("null", None, "null"),
    ("l_nil", [None], None), ("l_nested", [[1]], None), ("l_ab_a", ["ab", "a"], None),
    ("l_1.0", [1.0], None), ("d_1a", {"1": "a"}, None), ("d_b_nil", {"b": None}, None),
    ("range25", range(2, 6), "(2..5)"),
]


def lattice(tier: str) -> list[tuple[str, Any, Optional[str]]]:
    return W_QUICK if tier == "quick" else W_QUICK + W_EXTRA


def kind(v: Any) -> str:
    if v is UNDEF:
        return "undef"
    if v is EMPTY:
        return "empty"
    if v is BLANK:
        return "blank"
    if v is None:
        return "nil"
    if isinstance(v, bool):
        return "bool"
    if isinstance(v, (int, float, Decimal)):
        return "number"
    if isinstance(v, str):
        return "string"
    if isinstance(v, (list, tuple)):
        return "array"
    if isinstance(v, dict):
        return "hash"
    if isinstance(v, range):
        return "range"
    raise AssertionError(f"value outside the lattice: {v!r}")


# ---------------------------------------------------------------------------
# provenance of every rule used as an oracle
# ---------------------------------------------------------------------------
RULES: dict[str, str] = {
    "TRUTHY": "S: 'only false and nil (including undefined values) are falsy'; TR#ce: 'Only false, nil/null and "
              "the special undefined object are falsy in Liquid'",
    "UNLESS": "TR#unless: 'renders its block if its expression evaluates to be falsy ... Otherwise unless behaves "
              "the same as if'",
    "ELSIF": "TR#if / TR#unless: 'Any number of elsif blocks can be given to add alternative conditions, and an "
             "else block is used as a default if no preceding conditions were truthy'",
    "TERNARY": "ENV#tern: '{{ <expression> if <expression> else <expression> }}', 'an alternative to the longer "
               "form {% if %} tag'",
    "CASE-EQ": "TR#case: 'evaluates an expression, matching the result against one or more when clauses. In the "
               "event of a match, the when block is rendered. The else clause is rendered if no when clauses match'; "
               "S: 'case/when' conditions use the equality table",
    "EQ-SAME": "TR#ce operator table ('==' Equals, '!=' Not equals) + S operand kinds: two values of the same kind "
               "(number, string, boolean, nil, array, hash, range) are equal iff they are the same value "
               "(numbers by numeric value, arrays/hashes element-wise)",
    "EQ-XKIND": "TR#ce ('==' Equals) + VD#types (boolean, nil, integer/float, string, range are distinct primitive "
                "types) + S operand kinds: values of different kinds are never equal (in particular a boolean never "
                "equals a number, nil never equals false)",
    "EQ-EMPTY": "S: 'empty ... give the documented result'; quantifier 'empty/blank-like strings, lists, dicts': "
                "`empty` equals exactly the empty string, empty array and empty hash; a non-empty "
                "string/array/hash/range, a number and a boolean are not empty",
    "EQ-BLANK": "S: 'blank ... give the documented result'; quantifier 'empty/blank-like strings'; why: 'blank vs "
                "whitespace': `blank` equals the empty string and a whitespace-only string; a string with a visible "
                "character, a non-empty array/hash/range, a number and true are not blank",
    "NE": "TR#ce operator table: '!=' Not equals = negation of '=='",
    "ORD-NUMBER": "TR#ce operator table ('<' Less than, '>' Greater than, '<=' ..., '>=' ...) on two numbers: "
                  "numeric order",
    "ORD-STRING": "TR#ce operator table on two strings (same type, hence not 'incompatible' in the sense of S): "
                  "lexicographic order (all usual string orders agree on the lattice's strings)",
    "ORD-OR-EQUAL": "TR#ce operator table: '<=' is 'Less than or equal to', '>=' is 'Greater than or equal to': two "
                    "operands of the same kind that are equal by EQ-SAME (nil/nil, true/true, false/false, equal "
                    "arrays, hashes, ranges; equal numbers and strings fall under ORD-NUMBER / ORD-STRING) satisfy "
                    "`<=` and `>=` -- true, no error",
    "ORD-INCOMPATIBLE": "S: 'ordering comparisons between incompatible types raise a Liquid type error' "
                        "(operands of different kinds among number, string, nil, array, hash, range)",
    "CONTAINS-SUBSTRING": "S: 'contains' with two strings, literal meaning: the right string occurs in the left one",
    "CONTAINS-ARRAY": "S: 'contains' with an array on the left, literal meaning: some element equals the right "
                      "operand (equality as in EQ-SAME / EQ-XKIND)",
    "CONTAINS-HASH-ABSENT": "S: 'contains' with a hash on the left: an operand equal to none of its keys and none of "
                            "its values is not contained under any reading",
    "CONTAINS-RANGE-INT": "S: 'contains' with a range on the left and an integer on the right (why: 'contains on "
                          "ranges'), literal meaning: start <= n <= stop",
    "AND-OR-RIGHT": "S: '`and` and `or` have equal precedence and group from the right unless parentheses say "
                    "otherwise'; TR#op: 'and and or operators are right associative ... true and false and false or "
                    "true is equivalent to (true and (false and (false or true)))'",
    "PARENS": "S: 'unless parentheses say otherwise'; ENV#par: 'Set logical_parentheses to True to enable grouping "
              "terms with parentheses'",
    "NOT": "ENV#not: 'Set logical_not_operator to True to enable `not` inside {% if %}, {% unless %} and ternary "
           "expressions' (logical negation of the truthiness of its operand)",
    "NOT-SCOPE-tight": "NOT in /repo/docs or S (DESIGN.md section 3 assumption): `not` negates only the next operand "
                       "(`not a and b` = `(not a) and b`); used only when c12_ref.NOT_SCOPE == 'tight'",
    "NOT-SCOPE-loose": "NOT in /repo/docs or S: `not` negates the whole rest of its and/or chain (`not a and b` = "
                       "`not (a and b)`); used only when c12_ref.NOT_SCOPE == 'loose'",
    "NOT-DISABLED": "ENV#not: 'The logical `not` operator is disabled by default' (a condition using it is a Liquid "
                    "error, no branch is rendered)",
    "PARENS-DISABLED": "ENV#par: 'By default, terms in {% if %} tag expressions can not be grouped' (a grouped "
                       "condition in an if/elsif is a Liquid error, no branch is rendered)",
}

Verdict = tuple[Any, str]  # (True | False | "LiquidTypeError" | None, rule id or exclusion reason)


def truthy(v: Any) -> Verdict:
    k = kind(v)
    if k in ("empty", "blank"):
        return None, "truthiness-of-empty/blank-keyword"
    return (not (v is None or v is False or v is UNDEF)), "TRUTHY"


def _num_eq(a: Any, b: Any) -> bool:
    return bool(a == b)  # exact for int / float / Decimal in Python


def _deep_eq(l: Any, r: Any) -> Optional[bool]:
    """Equality inside containers / for membership.  None = not fixed by statement or docs."""
    kl, kr = kind(l), kind(r)
    if {kl, kr} == {"bool", "number"}:
        return None  # `[true] contains 1`, `[1] == [true]`: host-language equality leaks in; docs silent
    if "undef" in (kl, kr) or "empty" in (kl, kr) or "blank" in (kl, kr):
        return None
    if kl != kr:
        return False
    if kl == "number":
        return _num_eq(l, r)
    if kl in ("string", "bool"):
        return bool(l == r)
    if kl == "nil":
        return True
    if kl == "range":
        return (l.start, l.stop, l.step) == (r.start, r.stop, r.step)
    if kl == "array":
        if len(l) != len(r):
            return False
        res: Optional[bool] = True
        for a, b in zip(l, r):
            e = _deep_eq(a, b)
            if e is False:
                return False
            if e is None:
                res = None
        return res
    if kl == "hash":
        if set(l) != set(r):
            return False
        res = True
        for key in l:
            e = _deep_eq(l[key], r[key])
            if e is False:
                return False
            if e is None:
                res = None
        return res
    raise AssertionError(kl)


def ref_eq(l: Any, r: Any) -> Verdict:
    kl, kr = kind(l), kind(r)
    if "undef" in (kl, kr):
        return None, "eq:undefined-operand"
    specials = [k for k in (kl, kr) if k in ("empty", "blank")]
    if len(specials) == 2:
        return None, "eq:empty/blank-vs-empty/blank"
    if specials:
        sp = specials[0]
        o = r if kl == sp else l
        ko = kind(o)
        if ko == "nil":
            return None, f"eq:nil-vs-{sp}"
        if sp == "empty":
            if ko in ("string", "array", "hash"):
                return len(o) == 0, "EQ-EMPTY"
            if ko == "range":
                return (False, "EQ-EMPTY") if len(o) else (None, "eq:empty-range-vs-empty")
            return False, "EQ-EMPTY"  # number, bool
        # blank
        if ko == "string":
            return o.strip(" \t\n\r\f\v") == "", "EQ-BLANK"
        if ko in ("array", "hash"):
            return (False, "EQ-BLANK") if len(o) else (None, "eq:empty-container-vs-blank")
        if ko == "range":
            return (False, "EQ-BLANK") if len(o) else (None, "eq:empty-range-vs-blank")
        if ko == "bool":
            return (False, "EQ-BLANK") if o is True else (None, "eq:false-vs-blank")
        return False, "EQ-BLANK"  # number
    if kl != kr:
        return False, "EQ-XKIND"
    e = _deep_eq(l, r)
    if e is None:
        return None, "eq:bool-vs-number-inside-container"
    return e, "EQ-SAME"


def ref_order(op: str, l: Any, r: Any) -> Verdict:
    kl, kr = kind(l), kind(r)
    if op in ("<=", ">=") and kl == kr and kl in ("bool", "nil", "array", "hash", "range") and _deep_eq(l, r) is True:
        return True, "ORD-OR-EQUAL"
    for k in (kl, kr):
        if k in ("empty", "blank"):
            return None, "order:empty/blank-operand"
        if k == "undef":
            return None, "order:undefined-operand"
        if k == "bool":
            return None, "order:boolean-operand"
    if kl != kr:
        return "LiquidTypeError", "ORD-INCOMPATIBLE"
    if kl in ("number", "string"):
        if kl == "number" and any(isinstance(x, float) and x != x for x in (l, r)):
            return None, "order:nan"
        res = {"<": l < r, ">": l > r, "<=": l <= r, ">=": l >= r}[op]
        return bool(res), ("ORD-NUMBER" if kl == "number" else "ORD-STRING")
    return None, f"order:two-{kl}s"


def ref_contains(l: Any, r: Any) -> Verdict:
    kl, kr = kind(l), kind(r)
    for k in (kl, kr):
        if k in ("empty", "blank"):
            return None, "contains:empty/blank-operand"
        if k in ("nil", "undef"):
            return None, "contains:nil/undefined-operand"
    if kl == "string":
        if kr != "string":
            return None, "contains:string-left-nonstring-right"
        if r == "":
            return None, "contains:empty-substring"
        return (r in l), "CONTAINS-SUBSTRING"
    if kl == "array":
        unknown = False
        for e in l:
            q = _deep_eq(e, r)
            if q is True:
                return True, "CONTAINS-ARRAY"
            if q is None:
                unknown = True
        if unknown:
            return None, "contains:bool-vs-number-membership"
        return False, "CONTAINS-ARRAY"
    if kl == "hash":
        for e in list(l.keys()) + list(l.values()):
            if _deep_eq(e, r) is not False:
                return None, "contains:hash-key-or-value-present"
        return False, "CONTAINS-HASH-ABSENT"
    if kl == "range":
        if kr == "number" and isinstance(r, int):
            return (l.start <= r < l.stop), "CONTAINS-RANGE-INT"
        return None, "contains:range-left-noninteger-right"
    return None, f"contains:{kl}-left"


OPS_CHECKED = ("==", "!=", "<", ">", "<=", ">=", "contains")
OPS_UNSPECIFIED = ("<>",)  # not in the TR#ce operator table, not named by S


def ref_compare(op: str, l: Any, r: Any) -> Verdict:
    if op == "==":
        return ref_eq(l, r)
    if op == "!=":
        v, why = ref_eq(l, r)
        return (None, why) if v is None else ((not v), why + "+NE")
    if op in ("<", ">", "<=", ">="):
        return ref_order(op, l, r)
    if op == "contains":
        return ref_contains(l, r)
    return None, f"operator-{op}-undocumented"


# ---------------------------------------------------------------------------
# and / or / not / parenthesis trees (concrete syntax)
#   expr := unit (("and"|"or") unit)*          -- a flat chain
#   unit := leaf | "not" unit | "(" expr ")"
# JSON-able encoding: expr = ["chain", [unit...], [op...]];
#                     unit = ["leaf", sym] | ["not", unit] | ["par", expr]
# ---------------------------------------------------------------------------
LEAF_SYMS = ("true", "false", "nil", "x")


def _compositions(n: int) -> Iterator[tuple[int, ...]]:
    if n == 0:
        yield ()
        return
    for first in range(1, n + 1):
        for rest in _compositions(n - first):
            yield (first,) + rest


def _units(n: int, d: int, syms: tuple[str, ...] = LEAF_SYMS) -> Iterator[Any]:
    if n == 1:
        for s in syms:
            yield ["leaf", s]
    if d > 0:
        for u in _units(n, d - 1, syms):
            yield ["not", u]
        for e in _exprs(n, d - 1, syms):
            yield ["par", e]


def _product(seqs: list[list[Any]]) -> Iterator[list[Any]]:
    if not seqs:
        yield []
        return
    for head in seqs[0]:
        for tail in _product(seqs[1:]):
            yield [head] + tail


def _exprs(n: int, d: int, syms: tuple[str, ...] = LEAF_SYMS) -> Iterator[Any]:
    """Every expression with exactly ``n`` leaves (drawn from ``syms``) and not/paren nesting depth <= d."""
    for comp in _compositions(n):
        pools = [list(_units(k, d, syms)) for k in comp]
        nops = len(comp) - 1
        for units in _product(pools):
            for bits in range(1 << nops):
                ops = ["and" if (bits >> i) & 1 else "or" for i in range(nops)]
                yield ["chain", units, ops]


def trees(max_leaves: int, depth: int) -> list[Any]:
    out: list[Any] = []
    for n in range(1, max_leaves + 1):
        out.extend(_exprs(n, depth))
    return out


def tree_source(e: Any) -> str:
    tag = e[0]
    if tag == "chain":
        parts = [tree_source(e[1][0])]
        for op, u in zip(e[2], e[1][1:]):
            parts.append(op)
            parts.append(tree_source(u))
        return " ".join(parts)
    if tag == "leaf":
        return e[1]
    if tag == "not":
        return "not " + tree_source(e[1])
    if tag == "par":
        return "(" + tree_source(e[1]) + ")"
    raise AssertionError(e)


def tree_features(e: Any) -> dict[str, int]:
    f = {"leaves": 0, "not": 0, "par": 0, "and": 0, "or": 0}

    def walk(t: Any) -> None:
        if t[0] == "chain":
            for u in t[1]:
                walk(u)
            for op in t[2]:
                f[op] += 1
        elif t[0] == "leaf":
            f["leaves"] += 1
        elif t[0] == "not":
            f["not"] += 1
            walk(t[1])
        else:
            f["par"] += 1
            walk(t[1])

    walk(e)
    return f


def _leaf_truth(sym: str, x_truthy: bool) -> bool:
    return {"true": True, "false": False, "nil": False, "x": x_truthy}[sym]


def tree_eval(e: Any, x_truthy: bool, not_scope: str = "tight") -> bool:
    """Truth value of a tree.

    ``and``/``or``: equal precedence, grouping from the right (AND-OR-RIGHT); parentheses
    override (PARENS).  ``not_scope`` chooses how far a ``not`` reaches inside a chain:
    "tight" -- it negates the single following unit (``not a and b`` = ``(not a) and b``);
    "loose" -- it negates the whole rest of its chain (``not a and b`` = ``not (a and b)``).
    Neither the statement nor /repo/docs fixes this, so the driver only uses valuations on
    which both readings agree.
    """

    def chain(units: list[Any], ops: list[str], i: int) -> bool:
        u = units[i]
        last = i == len(units) - 1
        if u[0] == "not" and not_scope == "loose" and not last:
            # `not` swallows the remainder of the chain
            inner = ["chain", [u[1]] + units[i + 1:], ops[i:]]
            return not chain(inner[1], inner[2], 0)
        left = unit(u)
        if last:
            return left
        right = chain(units, ops, i + 1)
        return (left and right) if ops[i] == "and" else (left or right)

    def unit(u: Any) -> bool:
        if u[0] == "leaf":
            return _leaf_truth(u[1], x_truthy)
        if u[0] == "not":
            return not unit(u[1])
        return chain(u[1][1], u[1][2], 0)

    return chain(e[1], e[2], 0)


# How far `not` reaches inside an and/or chain.  "unspecified" (the default): neither S nor
# /repo/docs say, so only valuations on which both readings agree are oracles.  Setting this
# to "tight" or "loose" (or C12_NOT_SCOPE in the environment, for experiments) turns the
# chosen reading into a checked clause, reported under the clause id NOT-SCOPE-<reading>.
NOT_SCOPE = os.environ.get("C12_NOT_SCOPE", "unspecified")


def tree_verdict(e: Any, x_truthy: bool) -> Verdict:
    t = tree_eval(e, x_truthy, "tight")
    l = tree_eval(e, x_truthy, "loose")
    if t != l:
        if NOT_SCOPE in ("tight", "loose"):
            return (t if NOT_SCOPE == "tight" else l), "NOT-SCOPE-" + NOT_SCOPE
        return None, "tree:scope-of-not-inside-a-chain"
    f = tree_features(e)
    rule = "AND-OR-RIGHT" if (f["and"] + f["or"]) else "TRUTHY"
    if f["par"]:
        rule += "+PARENS"
    if f["not"]:
        rule += "+NOT"
    return t, rule


def self_test() -> None:
    """Unit checks of the model against the examples in /repo/docs."""
    # TR#op: `true and false and false or true` == (true and (false and (false or true))) == false
    ex = ["chain", [["leaf", "true"], ["leaf", "false"], ["leaf", "false"], ["leaf", "true"]], ["and", "and", "or"]]
    assert tree_source(ex) == "true and false and false or true"
    assert tree_eval(ex, True) is False
    # grouping from the right: a or b and c == a or (b and c); a and b or c == a and (b or c)
    t = ["chain", [["leaf", "true"], ["leaf", "false"], ["leaf", "false"]], ["or", "and"]]
    assert tree_eval(t, True) is True
    t = ["chain", [["leaf", "false"], ["leaf", "true"], ["leaf", "true"]], ["and", "or"]]
    assert tree_eval(t, True) is False
    # parentheses override: (false and true) or true == true
    t = ["chain", [["par", ["chain", [["leaf", "false"], ["leaf", "true"]], ["and"]]], ["leaf", "true"]], ["or"]]
    assert tree_source(t) == "(false and true) or true" and tree_eval(t, True) is True
    # not-scope readings differ on `not false and false`
    t = ["chain", [["not", ["leaf", "false"]], ["leaf", "false"]], ["and"]]
    assert tree_eval(t, True, "tight") is False and tree_eval(t, True, "loose") is True
    assert NOT_SCOPE != "unspecified" or tree_verdict(t, True)[0] is None
    assert ref_eq(True, 1) == (False, "EQ-XKIND") and ref_eq(1, 1.0) == (True, "EQ-SAME")
    assert ref_eq(" ", BLANK) == (True, "EQ-BLANK") and ref_eq(" ", EMPTY) == (False, "EQ-EMPTY")
    assert ref_eq(None, BLANK)[0] is None and ref_eq(False, BLANK)[0] is None
    assert ref_contains([True], 1)[0] is None and ref_contains([1], 1)[0] is True
    assert ref_order("<", 1, "a") == ("LiquidTypeError", "ORD-INCOMPATIBLE")
    assert ref_order("<", True, 1)[0] is None
    assert ref_order("<=", None, None) == (True, "ORD-OR-EQUAL") and ref_order(">=", [1], [1])[0] is True
    assert ref_order("<", None, None)[0] is None and ref_order("<=", True, False)[0] is None
    assert ref_order("<=", [1], [True])[0] is None and ref_order("<=", [1], ["a"])[0] is None


self_test()
