"""Abstract programs for C19 / C20: constructs, printer (with layouts) and the lexical model.

A *construct* is written in Liquid with three kinds of markup that only the harness reads:

* ``$`` directly in front of a variable path marks a *reference* (``$y[$x]`` holds two);
* ``{B}`` is the body slot of a block construct;
* ``#`` inside literal text is replaced by a unique branch marker ``~k~``.

Beside its text a construct declares what it binds, **from the generator's point of view**
(never from liquid's analysis):

* ``binds``   names bound by the block (loop variable, ``forloop``, ``with`` keys, macro
              parameters, ``block``) -- valid for the whole textual range of the construct;
* ``assigns`` names assigned by the construct (``assign``, ``capture``) -- valid for every
              position at or after the start of the construct;
* ``counts``  names touched by ``increment``/``decrement`` (whether that is an "assignment"
              is unspecified: such names are exempted *and counted*);
* ``site``    a partial call site (include / render / extends / block) with the names the
              call itself binds in the callee.

The printer turns a program (list of items) into source text under a *layout* and records
the offset of every reference and the range of every construct, so the lexical exemption
of the property ("inside a block binding that name" / "preceded in source order by an
assignment to it") is computed from this model alone.
"""

from __future__ import annotations

import re
from typing import Any
from typing import Iterator
from typing import Optional

_TOK = re.compile(r"(\{%.*?%\}|\{\{.*?\}\}|\{B\})", re.S)
_ROOT_WORD = re.compile(r"[A-Za-z_][A-Za-z0-9_-]*")
_ROOT_QUOTED = re.compile(r"""\[\s*(?:'([^']*)'|"([^"]*)")\s*\]""")


class Site:
    """A partial call site as the generator sees it."""

    __slots__ = ("kind", "partial", "binds", "kwargs")

    def __init__(self, kind: str, partial: Optional[str], binds: tuple[str, ...] = (),
                 kwargs: tuple[str, ...] = ()):
        self.kind = kind  # include | render | extends | block
        self.partial = partial
        self.binds = frozenset(binds)  # every name the call binds in the callee (keyword args, alias, forloop)
        self.kwargs = tuple(kwargs)    # the keyword argument names only, in source order

    def __repr__(self) -> str:
        return f"Site({self.kind},{self.partial},{sorted(self.binds)})"


class Con:
    """One construct of the menu."""

    __slots__ = ("src", "binds", "assigns", "counts", "site", "toks", "is_block", "top_only", "no_lines")

    def __init__(self, src: str, *, binds: tuple[str, ...] = (), assigns: tuple[str, ...] = (),
                 counts: tuple[str, ...] = (), site: Optional[Site] = None, top_only: bool = False,
                 no_lines: bool = False):
        self.no_lines = no_lines  # cannot be written as `{% liquid %}` line statements (raw, doc, nested comment, translate)
        self.src = src
        self.binds = frozenset(binds)
        self.assigns = tuple(assigns)
        self.counts = tuple(counts)
        self.site = site
        self.top_only = top_only
        self.toks = _lex(src)
        self.is_block = any(t[0] == "body" for t in self.toks)

    def __repr__(self) -> str:
        return f"Con({self.src!r})"


def _lex(src: str) -> list[tuple[Any, ...]]:
    out: list[tuple[Any, ...]] = []
    for piece in _TOK.split(src):
        if piece == "":
            continue
        if piece == "{B}":
            out.append(("body",))
        elif piece.startswith("{%"):
            inner = piece[2:-2].strip()
            m = re.match(r"(#|\w+)\s*(.*)\Z", inner, re.S)
            assert m, piece
            name, expr = m.group(1), m.group(2).strip()
            if name == "liquid":
                lines = []
                for line in expr.split("\n"):
                    line = line.strip()
                    if not line:
                        continue
                    lm = re.match(r"(\w+)\s*(.*)\Z", line)
                    assert lm, line
                    lines.append((lm.group(1), lm.group(2).strip()))
                out.append(("liquid", lines))
            else:
                out.append(("tag", name, expr))
        elif piece.startswith("{{"):
            out.append(("out", piece[2:-2].strip()))
        else:
            out.append(("text", piece))
    return out


class Item:
    __slots__ = ("con", "body")

    def __init__(self, con: Con, body: Optional[list["Item"]] = None):
        self.con = con
        self.body = body


# ---------------------------------------------------------------------------------------
# the printed template + lexical model
# ---------------------------------------------------------------------------------------
class Printed:
    """Source text of one template plus the generator's lexical facts about it."""

    __slots__ = ("name", "source", "refs", "binds", "assigns", "sites", "markers")

    def __init__(self, name: str):
        self.name = name
        self.source = ""
        self.refs: dict[int, tuple[Optional[str], str]] = {}  # offset -> (root or None, marked text)
        self.binds: list[tuple[int, int, frozenset[str]]] = []
        self.assigns: list[tuple[int, int, str, str]] = []  # (start, end, name, kind)
        self.sites: list[tuple[int, int, Site]] = []
        self.markers: list[str] = []

    def local(self, pos: int, name: str) -> Optional[str]:
        """Why a reference to ``name`` at ``pos`` is lexically exempt in this template, or None."""
        for s, e, names in self.binds:
            if s <= pos < e and name in names:
                return "block"
        why: Optional[str] = None
        for s, e, n, kind in self.assigns:
            if n == name and s <= pos:
                if kind == "count":
                    why = why or "unspecified:counter"
                elif pos < e:
                    why = why or "unspecified:inside-assigning-construct"
                else:
                    return "assign"
        return why

    def site_at(self, idx: int) -> Optional[tuple[int, int, Site]]:
        best: Optional[tuple[int, int, Site]] = None
        for s, e, site in self.sites:
            if s <= idx < e and (best is None or s >= best[0]):
                best = (s, e, site)
        return best


class Layout:
    """How markup tokens are written.  ``plain`` is the menu text itself."""

    name = "plain"
    prefix = ""
    suffix = ""

    def tag(self, name: str, expr: str, depth: int) -> str:
        return "{% " + name + (" " + expr if expr else "") + " %}"

    def out(self, expr: str, depth: int) -> str:
        return "{{ " + expr + " }}"

    def text(self, s: str, depth: int) -> str:
        return s

    def liquid(self, lines: list[tuple[str, str]], depth: int) -> str:
        return "{% liquid\n" + "".join(f"  {n} {e}".rstrip() + "\n" for n, e in lines) + "%}"


class MultiLine(Layout):
    """Leading non-ASCII text, newlines inside tags and outputs, whitespace control both sides."""

    name = "ml"
    prefix = "Zoë line one\n  line two\n"
    suffix = "\nend\n"

    @staticmethod
    def _spread(expr: str) -> str:
        # filter names and arguments start a line (column 0)
        return expr.replace(" | ", "\n      |\n").replace(", ", ",\n")

    def tag(self, name: str, expr: str, depth: int) -> str:
        if name == "#":  # every line of an inline comment starts with '#'
            return "{%-\n  # " + expr.replace(" | ", "\n  # | ") + "\n-%}"
        # the tag name and the first name of its expression start a line (column 0)
        return "{%-\n" + name + ("\n" + self._spread(expr) if expr else "") + "\n-%}"

    def out(self, expr: str, depth: int) -> str:
        return "{{-\n" + self._spread(expr) + "\n-}}"

    def liquid(self, lines: list[tuple[str, str]], depth: int) -> str:
        return "{%-\n\n liquid\n\n" + "".join(f"\t{n}   {e}".rstrip() + "\n\n" for n, e in lines) + "-%}"


class Tabs(Layout):
    """Tabs and CRLF line ends, one-sided whitespace control."""

    name = "crlf"
    prefix = "a\r\n\tb\r\n"
    suffix = "\r\n"

    def tag(self, name: str, expr: str, depth: int) -> str:
        return "{%\t" + name + ("\t" + expr if expr else "") + "\t-%}\r\n"

    def out(self, expr: str, depth: int) -> str:
        return "{{-\r\n" + expr + "\t}}\r\n"   # the expression starts a line after a CRLF

    def liquid(self, lines: list[tuple[str, str]], depth: int) -> str:
        return "{%\tliquid\r\n" + "".join(f"\t{n}\t{e}".rstrip() + "\r\n" for n, e in lines) + "%}"


class LiquidLines(Layout):
    """The whole template as line statements of one ``{% liquid %}`` tag."""

    name = "liquid"
    prefix = "pre é\n{%- liquid\n"
    suffix = "-%}\npost\n"

    def tag(self, name: str, expr: str, depth: int) -> str:
        return "  " * depth + name + (" " + expr if expr else "") + "\n"

    def out(self, expr: str, depth: int) -> str:
        return "  " * depth + "echo " + expr + "\n"

    def text(self, s: str, depth: int) -> str:
        assert "'" not in s and "\n" not in s, s
        return "  " * depth + "echo '" + s + "'\n\n"

    def liquid(self, lines: list[tuple[str, str]], depth: int) -> str:
        return "".join("  " * depth + f"{n} {e}".rstrip() + "\n" for n, e in lines)


LAYOUTS: dict[str, Layout] = {l.name: l for l in (Layout(), MultiLine(), Tabs(), LiquidLines())}


def _root_of(marked: str) -> Optional[str]:
    """Root name of the path that starts at ``marked`` (text right after a ``$``)."""
    m = _ROOT_WORD.match(marked)
    if m:
        return m.group(0)
    m = _ROOT_QUOTED.match(marked)
    if m:
        return m.group(1) if m.group(1) is not None else m.group(2)
    return None  # dynamic root: [$x]


class Unprintable(Exception):
    """The program has no rendition in this layout (a lexer-level block inside a line-statement block)."""


class _Printer:
    def __init__(self, name: str, layout: Layout):
        self.p = Printed(name)
        self.layout = layout
        self.buf: list[str] = []
        self.pos = 0
        self.in_comment = 0

    def emit(self, marked: str, markers: bool = False) -> None:
        """Append text, stripping ``$`` (recording a reference) and replacing ``#`` markers."""
        i, n = 0, len(marked)
        start = 0
        while i < n:
            ch = marked[i]
            if ch == "$":
                self._raw(marked[start:i])
                rest = marked[i + 1:]
                self.p.refs[self.pos] = (_root_of(rest), rest[:24])
                start = i + 1
            elif ch == "#" and markers:
                self._raw(marked[start:i])
                mk = f"~{self.p.name}{len(self.p.markers)}~"
                self.p.markers.append(mk)
                self._raw(mk)
                start = i + 1
            i += 1
        self._raw(marked[start:])

    def _raw(self, s: str) -> None:
        if s:
            self.buf.append(s)
            self.pos += len(s)

    def program(self, items: list[Item], depth: int) -> None:
        lay = self.layout
        for it in items:
            con = it.con
            lay = self.layout
            reopen = False
            if con.no_lines and isinstance(lay, LiquidLines):
                # leave the enclosing `{% liquid %}` tag, write the construct in ordinary markup, come back
                if depth != 0:
                    raise Unprintable(con.src)
                self._raw("  echo ''\n-%}")
                lay, reopen = LAYOUTS["plain"], True
            start = self.pos
            opener: Optional[str] = None
            opened: Optional[int] = None  # where the opening tag ends: its own expression is outside the block
            closed: Optional[int] = None
            for tok in con.toks:
                k = tok[0]
                if k == "text":
                    self.emit(lay.text(tok[1], depth), markers=True)
                elif k == "tag":
                    if tok[1] == "comment":
                        if self.in_comment and isinstance(lay, LiquidLines):
                            raise Unprintable(con.src)  # line statements have no nested block comments
                        self.in_comment += 1
                    elif tok[1] == "endcomment":
                        self.in_comment -= 1
                    self.emit(lay.tag(tok[1], tok[2], depth))
                    if opener is None:
                        opener = tok[1]
                        opened = self.pos
                    elif closed is None and tok[1] == "end" + opener:
                        closed = self.pos  # the block (and its bindings) ends with its end tag
                elif k == "out":
                    self.emit(lay.out(tok[1], depth))
                elif k == "liquid":
                    self.emit(lay.liquid(tok[1], depth))
                else:
                    if reopen:
                        raise Unprintable(con.src)
                    self.program(it.body if it.body is not None else DEFAULT_BODY, depth + 1)
            end = closed if closed is not None else self.pos
            if reopen:
                self._raw("{%- liquid\n  echo ''\n")
            if con.binds:
                # a block binds its names for what it encloses; the expression of the opening tag itself (the
                # iterable, `with` values, macro defaults, limit/cols arguments) is evaluated outside the block
                self.p.binds.append((opened if opened is not None else start, end, con.binds))
            for nm in con.assigns:
                self.p.assigns.append((start, end, nm, "assign"))
            for nm in con.counts:
                self.p.assigns.append((start, end, nm, "count"))
            if con.site is not None:
                self.p.sites.append((start, end, con.site))


def print_template(name: str, items: list[Item], layout: Layout) -> Printed:
    pr = _Printer(name, layout)
    pr._raw(layout.prefix)
    pr.program(items, 0)
    pr._raw(layout.suffix)
    pr.p.source = "".join(pr.buf)
    for pos, (root, _text) in pr.p.refs.items():  # self-check of the printer's bookkeeping
        at = pr.p.source[pos:]
        assert at.startswith(root) or at.startswith("[") if root is not None else at.startswith("["), (name, pos, root)
    return pr.p


# ---------------------------------------------------------------------------------------
# menus
# ---------------------------------------------------------------------------------------
def _inc(partial: str, args: str = "", binds: tuple[str, ...] = (), kwargs: tuple[str, ...] = ()) -> Con:
    return Con("{% include '" + partial + "'" + args + " %}", site=Site("include", partial, binds, kwargs))


def _ren(partial: str, args: str = "", binds: tuple[str, ...] = (), kwargs: tuple[str, ...] = ()) -> Con:
    return Con("{% render '" + partial + "'" + args + " %}", site=Site("render", partial, binds, kwargs))


LEAVES: list[Con] = [
    # plain references / filters
    Con("{{ $x }}"),
    Con("{{ $v }}"),
    Con("{{ $s | append: $w }}"),
    Con("{{ $y.a | upcase | default: $y['b'] }}"),
    Con("{{ $y[$x] }}{{ $a[0] }}"),
    Con("{{ $['a b'].c | size }}{{ $[$x].k }}"),
    Con("{{ $x | upcase if $v else $w || append: $s }}"),
    Con("{{ $g }}{{ $forloop.index }}"),
    # assignments
    Con("{% assign s = $x | append: $w %}", assigns=("s",)),
    Con("{% assign v = $a | first %}", assigns=("v",)),
    Con("{% assign x = $x | plus: 1 %}", assigns=("x",)),
    Con("{% liquid\n assign w = $y.a | downcase\n echo $w | prepend: $s\n%}", assigns=("w",)),
    Con("{% increment c %}{{ $c }}{% decrement v %}", counts=("c", "v")),
    Con("{% echo $a | join: $x %}{% cycle $x, 'k' %}"),
    # partials: include (shared scope)
    _inc("p"),
    _inc("p", ", v: $x", ("v",), ("v",)),
    _inc("p", " with $x as v", ("v",)),
    _inc("p", " for $a as s", ("s",)),
    _inc("q"),
    _inc("r"),
    _inc("r", ", v: $s, x: 1", ("v", "x"), ("v", "x")),
    # partials: render (isolated scope)
    _ren("p"),
    _ren("p", ", v: $x", ("v",), ("v",)),
    _ren("p", " with $y.a as v", ("v",)),
    _ren("p", " for $a as v", ("v", "forloop")),
    _ren("p", " with $x as s, v: $w", ("s", "v"), ("v",)),
    _ren("q"),
    _ren("q", ", a: $y.b, w: 1", ("a", "w"), ("a", "w")),
    _ren("leaf"),
    # macros
    Con("{% call m %}"),
    Con("{% call m $w, q: $y.a %}"),
    # inheritance
    Con("{% extends 'base' %}", site=Site("extends", "base"), top_only=True),
    Con("{% extends 'mid' %}", site=Site("extends", "mid"), top_only=True),
    # the implicit binding: `with` / `for` without `as` binds the partial's name up to its first dot
    _inc("p", " with $y.a", ("p",)),
    _ren("p", " for $a", ("p", "forloop")),
    _inc("row.html"),
    _ren("row.html"),
    _inc("row.html", " for $a", ("row",)),
    _ren("row.html", " with $y, v: $x", ("row", "v"), ("v",)),
    _ren("row.html", " with $y as v", ("v",)),
    _inc("t"),
    _ren("t", ", n: 2, v: $y", ("n", "v"), ("n", "v")),
]

BLOCKS: list[Con] = [
    Con("{% if $x %}{B}{% endif %}"),
    Con("{% if $x == 1 %}#{% elsif $v %}{B}{% else %}#{{ $w }}{% endif %}"),
    Con("{% unless $x %}{B}{% else %}#{{ $s }}{% endunless %}"),
    Con("{% case $x %}{% when 1 %}{B}{% when 'a', $y.a %}#{{ $v }}{% else %}#{% endcase %}"),
    Con("{% for v in $a %}{B}{% endfor %}", binds=("v", "forloop")),
    Con("{% for v in $y.b limit: $x %}{B}{% else %}#{{ $v }}{% endfor %}", binds=("v", "forloop")),
    Con("{% for w in (1..2) %}{B}{{ $w }}{% endfor %}{{ $w }}", binds=("w", "forloop")),
    Con("{% tablerow v in $a cols: 2 %}{B}{% endtablerow %}", binds=("v", "tablerowloop")),
    Con("{% capture s %}{B}{% endcapture %}{{ $s }}", assigns=("s",)),
    Con("{% with v: $x, w: $y.a %}{B}{% endwith %}{{ $w }}", binds=("v", "w")),
    Con("{% macro m v, q: $s %}{B}{{ $q }}{{ $args | size }}{% endmacro %}{% call m $x %}",
        binds=("v", "q", "args", "kwargs")),
    Con("{% block b %}{B}{{ $s }}{% endblock %}", binds=("block",), site=Site("block", None, ("block",))),
    Con("{% block c %}{{ $block.super }}{B}{% endblock %}", binds=("block",), site=Site("block", None, ("block",))),
    Con("{% ifchanged %}{B}{% endifchanged %}"),
    # the opening tag's own expression names what the tag binds; loop arguments are variables
    Con("{% for v in $v.items limit: $lim offset: $off %}{B}{% endfor %}", binds=("v", "forloop")),
    Con("{% tablerow v in $v.cells cols: $n offset: $tablerowloop.col %}{B}{% endtablerow %}", binds=("v", "tablerowloop")),
    Con("{% with v: $v.next, w: $w %}{B}{% endwith %}", binds=("v", "w")),
    Con("{% macro m v, q: $v %}{B}{{ $q }}{% endmacro %}{% call m $x %}", binds=("v", "q", "args", "kwargs")),
]

DEFAULT_BODY: list[Item] = [Item(Con("[{{ $v }}]"))]

# Lexer-level blocks, inner tags and end tags that C19's menus do not contain.  Used by C20 only
# (shape indices continue after LEAVES / BLOCKS, so C19's corpus is unchanged).
EXTRA_LEAVES: list[Con] = [
    Con("{% comment %}a note about {{ this | upcase }}{% endcomment %}{{ $x }}"),
    Con("{% comment %}outer {% if that %}{% comment %}inner {{ x }}{% endcomment %} tail{% endcomment %}{{ $v | upcase }}",
        no_lines=True),
    Con("{% raw %}{{ x | upcase }} {% if %}{% endraw %}{{ $x | downcase }}", no_lines=True),
    Con("{% doc %}a doc {{ x }} {% endfor %}{% enddoc %}{% assign s = $x %}", assigns=("s",), no_lines=True),
    Con("{% # inline note x | upcase %}{{ $s | append: $x }}"),
    Con("{% for v in $a %}{% if $x %}{% break %}{% else %}{% continue %}{% endif %}{{ $v }}{% endfor %}",
        binds=("v", "forloop")),
    Con("{% translate count: $x %}one{% plural %}many {{ count }}{% endtranslate %}{{ $y.a }}", no_lines=True),
]
EXTRA_BLOCKS: list[Con] = [
    Con("{% comment %}{B}{% endcomment %}{{ $w | size }}"),
    Con("{% for v in $a %}{% comment %}c{% endcomment %}{B}{% break %}{% endfor %}", binds=("v", "forloop")),
]


def _I(src: str, body: Optional[list[Item]] = None, **kw: Any) -> Item:
    return Item(Con(src, **kw), body)


# partial templates (fixed): each is a program of hand-written items
PARTIAL_ITEMS: dict[str, list[Item]] = {
    # p and row.html refer to a variable named like themselves (the implicit `with` / `for` binding of a partial)
    "p": [_I("<p:{{ $v }}{{ $x | upcase }}{{ $s }}{{ $p.t }}>")],
    "row.html": [_I("<row:{{ $row.c | default: $v }}>")],
    "t": [
        _I("<t:"),
        _I("{% tablerow v in $a cols: $n offset: $off %}{B}{% endtablerow %}", [_I("{{ $v }}")], binds=("v", "tablerowloop")),
        _I("{% for v in $v.items limit: $lim %}{B}{% endfor %}", [_I("{{ $v }}")], binds=("v", "forloop")),
        _I(">"),
    ],
    "q": [
        _I("<q:"),
        _I("{% assign s = 'qs' %}", assigns=("s",)),
        _I("{% for v in $a %}{B}{% endfor %}", [_I("{{ $v }}")], binds=("v", "forloop")),
        Item(_ren("p", ", v: $s", ("v",), ("v",))),
        _I("{{ $w | downcase }}>"),
    ],
    "r": [
        _I("<r:"),
        _I("{% if $x %}{B}{% endif %}", [_I("{{ $y.a }}")]),
        Item(_inc("p")),
        _I("{{ $nosuch.deep }}{{ $v }}>"),
    ],
    "base": [
        _I("<base:{{ $x }}"),
        _I("{% block b %}{B}{% endblock %}", [_I("{{ $v | strip }}")], binds=("block",),
           site=Site("block", None, ("block",))),
        _I("|"),
        _I("{% for v in $a %}{B}{% endfor %}", [
            _I("{% block c %}{B}{% endblock %}", [_I("{{ $v }}{{ $s }}")], binds=("block",),
               site=Site("block", None, ("block",))),
        ], binds=("v", "forloop")),
        _I("{{ $w }}>"),
    ],
    "mid": [
        _I("{% extends 'base' %}", site=Site("extends", "base")),
        _I("{% block b %}{B}{% endblock %}", [_I("M{{ $s }}{{ $block.super }}")], binds=("block",),
           site=Site("block", None, ("block",))),
    ],
    "leaf": [
        _I("{% extends 'base' %}", site=Site("extends", "base")),
        _I("{% block c %}{B}{% endblock %}", [_I("L{{ $s }}{{ $y.a | size }}")], binds=("block",),
           site=Site("block", None, ("block",))),
    ],
}

# render arguments: every free name is supplied in D1..D3 so that an unbound reference is
# actually read from the render arguments; D4 is the all-missing assignment.
DATA: list[tuple[str, dict[str, Any]]] = [
    ("D1", {"x": 1, "y": {"a": "A", "b": [1, 2], 1: "one"}, "a": [1, 2, 3], "v": "gv", "s": "gs", "w": "gw",
            "a b": {"c": "abc"}, "c": 9, "forloop": {"index": "gf"}, "q": "gq", "args": [1], "block": {"super": "gb"},
            "p": {"t": "gp"}, "row": {"c": "gr"}, "lim": 2, "off": 0, "n": 2, "tablerowloop": {"col": 1}}),
    ("D2", {"x": "a", "y": {"a": None, "b": []}, "a": [], "v": {"items": [5, 6], "cells": [1, 2, 3], "next": "nx"},
            "lim": 1, "off": 1, "n": 3, "s": "gs", "w": "gw", "a b": {}, "c": 9,
            "p": {"t": "gp"}, "row": {"c": None}}),
    ("D3", {"x": False, "y": {"a": 0, "b": [7]}, "a": [4], "v": False, "s": "gs", "w": "gw", "p": "gp", "row": "gr"}),
    ("D4", {}),
]
ENV_GLOBALS = {"g": "env-g"}


# ---------------------------------------------------------------------------------------
# enumeration (shape = JSON-able identity): leaf -> i ; block -> [j, body-program] ; program -> [items]
# ---------------------------------------------------------------------------------------
def _items_exact(n: int, d: int, L: list[int], B: list[int], top: bool) -> Iterator[Any]:
    if n == 1:
        for i in L:
            if top or not leaf_con(i).top_only:
                yield i
        if d >= 1:
            for j in B:
                yield [j, None]
        return
    if d < 1:
        return
    for j in B:
        for body in _progs_exact(n - 1, d - 1, L, B, False):
            yield [j, body]


def _progs_exact(n: int, d: int, L: list[int], B: list[int], top: bool) -> Iterator[list[Any]]:
    if n == 0:
        return
    for k in range(1, n + 1):
        for first in _items_exact(k, d, L, B, top):
            if k == n:
                yield [first]
            else:
                for rest in _progs_exact(n - k, d, L, B, top):
                    yield [first] + rest


def shapes_exact(n: int, d: int, L: Optional[list[int]] = None, B: Optional[list[int]] = None) -> Iterator[list[Any]]:
    """Every program shape with exactly n construct instances over the given sub-menus.
    Programs with more than one ``extends`` are outside the domain (always an error) and skipped."""
    L = list(range(len(LEAVES))) if L is None else L
    B = list(range(len(BLOCKS))) if B is None else B
    for sh in _progs_exact(n, d, L, B, True):
        if sum(1 for it in sh if isinstance(it, int) and leaf_con(it).top_only) > 1:
            continue
        yield sh


def shapes(n: int, d: int, L: Optional[list[int]] = None, B: Optional[list[int]] = None) -> Iterator[list[Any]]:
    """Every program shape with 1..n construct instances, nesting depth <= d, simplest first."""
    for size in range(1, n + 1):
        yield from shapes_exact(size, d, L, B)


def leaf_con(i: int) -> Con:
    return LEAVES[i] if i < len(LEAVES) else EXTRA_LEAVES[i - len(LEAVES)]


def block_con(j: int) -> Con:
    return BLOCKS[j] if j < len(BLOCKS) else EXTRA_BLOCKS[j - len(BLOCKS)]


def build(shape: list[Any]) -> list[Item]:
    out: list[Item] = []
    for it in shape:
        if isinstance(it, int):
            out.append(Item(leaf_con(it)))
        else:
            j, body = it
            out.append(Item(block_con(j), None if body is None else build(body)))
    return out


def uses_extra(shape: list[Any]) -> bool:
    for it in shape:
        if isinstance(it, int):
            if it >= len(LEAVES):
                return True
        elif it[0] >= len(BLOCKS) or (it[1] is not None and uses_extra(it[1])):
            return True
    return False


def lexer_shapes(n: int, d: int) -> Iterator[list[Any]]:
    """Every program of 1..n constructs over LEAVES+EXTRA_LEAVES / BLOCKS+EXTRA_BLOCKS that contains at least
    one EXTRA construct (comment / raw / doc / inline comment / break / continue / translate)."""
    L = list(range(len(LEAVES) + len(EXTRA_LEAVES)))
    B = list(range(len(BLOCKS) + len(EXTRA_BLOCKS)))
    for sh in shapes(n, d, L, B):
        if uses_extra(sh):
            yield sh


def size_of(shape: list[Any]) -> int:
    return sum(1 if isinstance(it, int) else 1 + (size_of(it[1]) if it[1] is not None else 0) for it in shape)


class World:
    """One program printed under one layout, with its partials: everything the oracles need."""

    __slots__ = ("main", "templates", "by_source")

    def __init__(self, shape: list[Any], layout: str = "plain"):
        lay = LAYOUTS[layout]
        parts = partials_for(layout)
        self.main = print_template("main", build(shape), lay)
        _leak_assignments(self.main, parts)
        self.templates: dict[str, Printed] = {"main": self.main}
        self.templates.update(parts)
        self.by_source: dict[str, Printed] = {p.source: p for p in self.templates.values()}
        assert len(self.by_source) == len(self.templates), "template sources must be distinct"


_PARTIAL_CACHE: dict[str, dict[str, Printed]] = {}
SHARED_SCOPE = ("include", "extends")


def _assigned_in(name: str, parts: dict[str, Printed], seen: frozenset[str] = frozenset()) -> set[str]:
    """Names assigned by template ``name`` or by anything it pulls in with a shared scope."""
    if name in seen:
        return set()
    pt = parts[name]
    out = {n for _s, _e, n, kind in pt.assigns if kind == "assign"}
    for _s, _e, site in pt.sites:
        if site.kind in SHARED_SCOPE and site.partial is not None:
            out |= _assigned_in(site.partial, parts, seen | {name})
    return out


def _leak_assignments(pt: Printed, parts: dict[str, Printed]) -> None:
    """An include / extends shares its scope: what the callee assigns is assigned, in source order, at the
    call site of the caller ("preceded in source order by an assignment to it")."""
    for s, e, site in pt.sites:
        if site.kind in SHARED_SCOPE and site.partial is not None:
            for n in sorted(_assigned_in(site.partial, parts)):
                pt.assigns.append((s, e, n, "assign"))


def partials_for(layout: str) -> dict[str, Printed]:
    got = _PARTIAL_CACHE.get(layout)
    if got is None:
        lay = LAYOUTS[layout]
        got = {name: print_template(name, items, lay) for name, items in PARTIAL_ITEMS.items()}
        leaks = {name: [(s, e, site.partial) for s, e, site in pt.sites if site.kind in SHARED_SCOPE and site.partial]
                 for name, pt in got.items()}
        assigned = {name: _assigned_in(name, got) for name in got}
        for name, pt in got.items():
            for s, e, callee in leaks[name]:
                for n in sorted(assigned[callee]):
                    pt.assigns.append((s, e, n, "assign"))
        _PARTIAL_CACHE[layout] = got
    return got


# ---------------------------------------------------------------------------------------
# core sub-menus used for the largest program size of a tier (indices into LEAVES / BLOCKS)
# ---------------------------------------------------------------------------------------
def _idx(menu: list[Con], wanted: list[str]) -> list[int]:
    out = []
    for w in wanted:
        hits = [i for i, c in enumerate(menu) if c.src == w]
        assert len(hits) == 1, w
        out.append(hits[0])
    return out


CORE_LEAVES = _idx(LEAVES, [
    "{{ $v }}",
    "{{ $s | append: $w }}",
    "{{ $x | upcase if $v else $w || append: $s }}",
    "{% assign s = $x | append: $w %}",
    "{% assign v = $a | first %}",
    "{% include 'p' %}",
    "{% include 'p', v: $x %}",
    "{% include 'p' with $x as v %}",
    "{% include 'p' for $a as s %}",
    "{% include 'q' %}",
    "{% include 'r' %}",
    "{% include 'r', v: $s, x: 1 %}",
    "{% render 'p' %}",
    "{% render 'p', v: $x %}",
    "{% render 'p' for $a as v %}",
    "{% render 'p' with $x as s, v: $w %}",
    "{% render 'q' %}",
    "{% render 'q', a: $y.b, w: 1 %}",
    "{% render 'leaf' %}",
    "{% call m $w, q: $y.a %}",
    "{% extends 'base' %}",
    "{% extends 'mid' %}",
    "{% include 'row.html' %}",
    "{% render 'row.html' with $y as v %}",
])
CORE_BLOCKS = _idx(BLOCKS, [
    "{% if $x == 1 %}#{% elsif $v %}{B}{% else %}#{{ $w }}{% endif %}",
    "{% case $x %}{% when 1 %}{B}{% when 'a', $y.a %}#{{ $v }}{% else %}#{% endcase %}",
    "{% tablerow v in $a cols: 2 %}{B}{% endtablerow %}",
    "{% for v in $a %}{B}{% endfor %}",
    "{% for w in (1..2) %}{B}{{ $w }}{% endfor %}{{ $w }}",
    "{% capture s %}{B}{% endcapture %}{{ $s }}",
    "{% with v: $x, w: $y.a %}{B}{% endwith %}{{ $w }}",
    "{% macro m v, q: $s %}{B}{{ $q }}{{ $args | size }}{% endmacro %}{% call m $x %}",
    "{% block b %}{B}{{ $s }}{% endblock %}",
    "{% block c %}{{ $block.super }}{B}{% endblock %}",
])
CORE4_LEAVES = _idx(LEAVES, [
    "{{ $v }}",
    "{{ $s | append: $w }}",
    "{% include 'p' for $a as s %}",
    "{% include 'q' %}",
    "{% render 'p', v: $x %}",
    "{% assign v = $a | first %}",
    "{% assign s = $x | append: $w %}",
    "{% include 'p' %}",
    "{% include 'p', v: $x %}",
    "{% include 'r' %}",
    "{% render 'p' %}",
    "{% render 'p' with $x as s, v: $w %}",
    "{% render 'q' %}",
    "{% render 'leaf' %}",
    "{% extends 'base' %}",
])
CORE4_BLOCKS = _idx(BLOCKS, [
    "{% if $x == 1 %}#{% elsif $v %}{B}{% else %}#{{ $w }}{% endif %}",
    "{% for v in $a %}{B}{% endfor %}",
    "{% capture s %}{B}{% endcapture %}{{ $s }}",
    "{% with v: $x, w: $y.a %}{B}{% endwith %}{{ $w }}",
    "{% macro m v, q: $s %}{B}{{ $q }}{{ $args | size }}{% endmacro %}{% call m $x %}",
    "{% block c %}{{ $block.super }}{B}{% endblock %}",
])
