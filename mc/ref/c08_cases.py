"""C08 case families: (source, partials, data, static bounds on resource use).

A case is a dict
  {"family", "source", "partials", "data", "extra",
   "loop_vals": [...],   # loop_iteration_limit values to sweep (always from 0 to beyond the largest product)
   "depth_top": int,     # context_depth_limit is swept over every integer 0..depth_top
   "block_top": int}     # block_nesting_limit is swept over every integer 0..block_top
output_stream_limit and local_namespace_limit sweeps are derived from the unlimited run (U, totals).

Families
  nest    C06-like nests: depth 1..3 of repeating constructs (for, tablerow, include-for, render-for, include or
          render of a partial inside a for, call of a macro inside a for), each level over its own list l<d>
          of length 0..3; the innermost body grows a captured variable and writes it.
  c07     the C07 corpus (mc.ref.c07_corpus) with its partials and data.
  rec     recursion bounded by data: self-include, self-render, mutual render, each k = 0..K levels deep,
          at top level and inside a loop.
  blocks  nested blocks: every sequence of <= 3 block kinds, homogeneous chains up to depth Dmax, sibling
          chains, else/when branches, and chains inside an included / rendered partial.
  vars    two variables in one namespace: every sequence of <= 4 assign / growing capture / output steps.
  values  typed values (range literal / range from data, bool, nil, float, huge int, hash, nested array, empty
          array, undefined, string) bound with assign at top level / in a loop / in an included / in a rendered
          partial, then output, compared, iterated, filtered, passed to a partial, rebound or captured.
"""

from __future__ import annotations

import itertools
from typing import Any
from typing import Iterator

from mc.ref import c07_corpus as G7

FAR = 10**9          # "unlimited" for limits whose default is None
FAR_DEPTH = 10**6    # "unlimited" for context_depth_limit / block_nesting_limit (defaults are 30)

INNER = "{% capture z %}{{ z }}y\r{% endcapture %}{{ z }}|\r\n"

NEST_KINDS = ["for", "tablerow", "include_for", "render_for", "for_include", "for_render", "for_call"]
NEST_KINDS_SMALL = ["for", "tablerow", "render_for", "for_include", "for_call"]


def _around(ps: Iterator[int] | list[int]) -> set[int]:
    out: set[int] = set()
    for p in ps:
        out |= {p - 1, p, p + 1}
    return {v for v in out if v >= 0}


def build_nest(kinds: tuple[str, ...], lens: tuple[int, ...]) -> dict[str, Any]:
    partials: dict[str, str] = {}
    depth = len(kinds)

    def level(d: int) -> str:
        if d == depth:
            return INNER
        body = level(d + 1)
        k, lst, name = kinds[d], f"l{d}", f"n{d}"
        if k == "for":
            return f"{{% for i in {lst} %}}{body}{{% endfor %}}"
        if k == "tablerow":
            return f"{{% tablerow i in {lst} %}}{body}{{% endtablerow %}}"
        if k == "for_call":
            return f"{{% macro m{d} %}}{body}{{% endmacro %}}{{% for i in {lst} %}}{{% call m{d} %}}{{% endfor %}}"
        partials[name] = body
        if k == "include_for":
            return f"{{% include '{name}' for {lst} as i %}}"
        if k == "render_for":
            return f"{{% render '{name}' for {lst} as i %}}"
        if k == "for_include":
            return f"{{% for i in {lst} %}}{{% include '{name}' %}}{{% endfor %}}"
        if k == "for_render":
            return f"{{% for i in {lst} %}}{{% render '{name}' %}}{{% endfor %}}"
        raise AssertionError(k)

    source = level(0)
    data = {f"l{d}": list(range(1, n + 1)) for d, n in enumerate(lens)}
    prods = list(itertools.accumulate(lens, lambda a, b: a * b))
    top = max(prods + list(lens))
    loop_vals = sorted({0, 1, 2, 3, 4} | _around(prods) | _around(lens) | {top + 1, 2 * top + 1})
    return {"family": "nest", "source": source, "partials": partials, "data": data, "extra": "for_call" in kinds,
            "loop_vals": loop_vals, "depth_top": 8 + 3 * depth, "block_top": depth + 3,
            "shape": {"kinds": list(kinds), "lens": list(lens)}}


def _in_domain(kinds: tuple[str, ...]) -> bool:
    """``include`` is a disabled tag inside a rendered partial and inside a macro : such nests only raise DisabledTagError, with or without limits."""
    seen_render = False
    for k in kinds:
        if "include" in k and seen_render:
            return False
        if "render" in k or k == "for_call":  # macros disable include as well
            seen_render = True
    return True


def nest_cases(tier: str) -> Iterator[dict[str, Any]]:
    lens_full = (0, 1, 2, 3)
    for depth in (1, 2):
        for kinds in itertools.product(NEST_KINDS, repeat=depth):
            if not _in_domain(kinds):
                continue
            for lens in itertools.product(lens_full, repeat=depth):
                yield build_nest(kinds, lens)
    for kinds in itertools.product(NEST_KINDS_SMALL if tier == "quick" else NEST_KINDS, repeat=3):
        if not _in_domain(kinds):
            continue
        for lens in itertools.product((0, 2, 3) if tier == "quick" else (0, 1, 2, 3), repeat=3):
            if 0 in lens[:2]:
                continue  # an empty outer level makes deeper levels unreachable: covered at depth <= 2
            yield build_nest(kinds, lens)


def c07_cases(tier: str) -> Iterator[dict[str, Any]]:
    from mc.gen.programs import programs

    n = 2 if tier == "quick" else 3
    leaves = G7.LEAVES_FULL if tier == "quick" else G7.LEAVES_SMALL + ["{{ x }}", "a"]
    seen: set[str] = set()
    for p in programs(n, n, leaves=leaves, blocks=G7.BLOCKS):
        if p.source in seen:
            continue
        seen.add(p.source)
        for _, data in G7.data_sets("quick"):
            yield {"family": "c07", "source": p.source, "partials": G7.PARTIALS, "data": data, "extra": False,
                   "loop_vals": list(range(0, 29 if n == 3 else 11)), "depth_top": 14 + (2 if n == 3 else 0),
                   "block_top": n + 3}


REC_PARTIALS = {
    "rec_inc": "[\r\n{{ n }}{% if n > 0 %}{% assign n = n | minus: 1 %}{% include 'rec_inc' %}{% endif %}]",
    "rec_ren": "<\r{{ n }}{% if n > 0 %}{% assign m = n | minus: 1 %}{% render 'rec_ren', n: m %}{% endif %}>",
    "rec_a": "(a{{ n }}{% if n > 0 %}{% assign m = n | minus: 1 %}{% render 'rec_b', n: m %}{% endif %})",
    "rec_b": "(b{{ n }}{% if n > 0 %}{% assign m = n | minus: 1 %}{% render 'rec_a', n: m %}{% endif %})",
    "rec_for": "^{% for j in (1..n) %}{% assign m = n | minus: 1 %}{% render 'rec_for', n: m %}{% endfor %}$",
}


def rec_cases(tier: str) -> Iterator[dict[str, Any]]:
    kmax = 6 if tier == "quick" else 9
    for k in range(0, kmax + 1):
        tops = {
            "inc": "{% assign n = k %}{% include 'rec_inc' %}|{{ n }}",
            "ren": "{% render 'rec_ren', n: k %}",
            "mutual": "{% render 'rec_a', n: k %}",
        }
        for name, top in tops.items():
            for wrap in ("plain", "loop"):
                src = top if wrap == "plain" else "{% for i in (1..2) %}" + top + "{% endfor %}"
                yield {"family": "rec", "source": src, "partials": REC_PARTIALS, "data": {"k": k}, "extra": False,
                       "loop_vals": [0, 1, 2, 3, 4], "depth_top": 10 + 3 * k, "block_top": 5,
                       "shape": {"rec": name, "k": k, "wrap": wrap}}
        if k <= 4:
            # recursion through a loop: k! leaves, loop products k, k(k-1), ...
            import math

            yield {"family": "rec", "source": "{% render 'rec_for', n: k %}", "partials": REC_PARTIALS, "data": {"k": k},
                   "extra": False, "loop_vals": list(range(0, math.factorial(k) + 3)),
                   "depth_top": 10 + 3 * k, "block_top": 5, "shape": {"rec": "for", "k": k, "wrap": "plain"}}


BLOCK_KINDS: dict[str, str] = {
    "if": "{% if t %}{B}{% endif %}",
    "unless": "{% unless f %}{B}{% endunless %}",
    "for": "{% for i in l %}{B}{% endfor %}",
    "case": "{% case one %}{% when 1 %}{B}{% endcase %}",
    "capture": "{% capture c %}{B}{% endcapture %}{{ c }}",
    "tablerow": "{% tablerow i in l %}{B}{% endtablerow %}",
    "ifchanged": "{% ifchanged %}{B}{% endifchanged %}",
}
BRANCH_KINDS: dict[str, str] = {
    "if-else": "{% if f %}n{% else %}{B}{% endif %}",
    "if-elsif": "{% if f %}n{% elsif t %}{B}{% endif %}",
    "for-else": "{% for i in none %}n{% else %}{B}{% endfor %}",
    "case-else": "{% case one %}{% when 2 %}n{% else %}{B}{% endcase %}",
    "case-when2": "{% case one %}{% when 2 %}n{% when 1 %}{B}{% endcase %}",
}
BLOCK_DATA = {"t": True, "f": False, "l": [1, 2], "one": 1, "cr": "\n\r|\r"}
LEAF = "x\r\n{{ one }}{{ cr }}"


def chain(kinds: tuple[str, ...] | list[str], leaf: str = LEAF) -> str:
    src = leaf
    table = {**BLOCK_KINDS, **BRANCH_KINDS}
    for k in reversed(list(kinds)):
        src = table[k].replace("{B}", src)
    return src


def _block_case(source: str, depth: int, partials: dict[str, str] | None = None, shape: Any = None) -> dict[str, Any]:
    nloops = source.count("{% for i in l %}") + source.count("{% tablerow i in l %}")  # each over 2 items
    loop_vals = sorted({0, 1, 2, 3, 4, 5} | _around([2 ** j for j in range(1, nloops + 1)]))
    return {"family": "blocks", "source": source, "partials": partials or {}, "data": BLOCK_DATA, "extra": False,
            "loop_vals": loop_vals, "depth_top": 10 + depth, "block_top": depth + 3, "shape": shape}


def block_cases(tier: str) -> Iterator[dict[str, Any]]:
    dmax = 8 if tier == "quick" else 14
    kinds = list(BLOCK_KINDS)
    yield _block_case(LEAF, 0, shape={"chain": []})
    for d in (1, 2, 3):
        for ks in itertools.product(kinds, repeat=d):
            yield _block_case(chain(ks), d, shape={"chain": list(ks)})
    for d in range(4, dmax + 1):
        for k in ("if", "capture", "case") if tier == "quick" else kinds:
            if k in ("for", "tablerow") and d > 8:
                continue  # loops multiply their output (2**d cells): loop chains stop at depth 8
            ks = (k,) * d
            yield _block_case(chain(ks), d, shape={"chain": [k, d]})
    # branches (else / elsif / when): every branch kind at each position of a depth-2 and depth-3 chain
    for b in BRANCH_KINDS:
        yield _block_case(chain((b,)), 1, shape={"chain": [b]})
        for k in kinds:
            yield _block_case(chain((b, k)), 2, shape={"chain": [b, k]})
            yield _block_case(chain((k, b)), 2, shape={"chain": [k, b]})
            yield _block_case(chain((k, b, k)), 3, shape={"chain": [k, b, k]})
    # siblings: depth must not accumulate across closed blocks
    for d1, d2, d3 in itertools.product(range(0, 4), repeat=3):
        src = chain(("if",) * d1) + chain(("for",) * d2) + chain(("capture",) * d3)
        yield _block_case(src, max(d1, d2, d3), shape={"siblings": [d1, d2, d3]})
    # the limit is per template source: chains inside a partial under a chain in the caller
    for tag in ("include", "render"):
        for d_top, d_part in itertools.product(range(0, 4), repeat=2):
            part = chain(("if",) * d_part)
            src = chain(("if",) * d_top, leaf="{% " + tag + " 'deep' %}")
            yield _block_case(src, max(d_top, d_part), partials={"deep": part},
                              shape={"partial": tag, "top": d_top, "inner": d_part})


VAR_STEPS = [
    "{% assign a = x %}",
    "{% assign b = y %}",
    "{% capture a %}{{ a }}{{ b }}é{% endcapture %}",
    "{% capture b %}{{ b }}z{% endcapture %}",
    "{{ a }}",
    "[{{ b }}]",
]


def var_cases(tier: str) -> Iterator[dict[str, Any]]:
    """Two variables in one namespace: every sequence of <= 4 (thorough 5) assign / capture / output steps."""
    for n in range(1, (4 if tier == "quick" else 5) + 1):
        for steps in itertools.product(range(len(VAR_STEPS)), repeat=n):
            if not any(i < 4 for i in steps):
                continue  # no binding at all
            yield {"family": "vars", "source": "".join(VAR_STEPS[i] for i in steps), "partials": {},
                   "data": {"x": "é\r\n€", "y": "a\rb\n\rc"}, "extra": False, "loop_vals": [0, 1, 2], "depth_top": 8,
                   "block_top": 4, "shape": {"steps": list(steps)}}


# -- typed values: what a limit must not change is the VALUE a name is bound to, not only its text -------------
VALUE_EXPRS: list[tuple[str, str]] = [
    # (expression bound with assign, expression it is compared with)
    ("(1..4)", "(1..4)"), ("(2..n)", "(2..n)"), ("rng", "rng"), ("true", "true"), ("false", "false"), ("nil", "nil"),
    ("1.5", "1.5"), ("fl", "2"), ("7", "7"), ("1000000000000000000000000000000", "big"), ("big", "big"),
    ("'é\r\n'", "'é\r\n'"), ("h", "h"), ("h.b", "h.b"), ("nested", "nested"), ("nested | first", "nested[0]"),
    ("empty", "empty"), ("nosuch", "nosuch"),
]
VALUE_USES: list[tuple[str, str]] = [
    ("output", "{{ r }}"),
    ("compare", "{% if r == CMP %}T{% else %}F{% endif %}{% if r %}t{% else %}f{% endif %}"),
    ("iterate", "{% for i in r %}[{{ i }}]{% else %}E{% endfor %}"),
    ("filters", "{{ r | size }},{{ r | first }},{{ r | join: '-' }}"),
    ("render-arg", "{% render 'show', w: r %}"),
    ("include", "{% include 'show' with r as w %}"),
    ("reassign", "{% assign q = r %}{{ q }}{% if q == r %}T{% else %}F{% endif %}"),
    ("capture", "{% capture c %}{{ r }}{% endcapture %}{{ c }}{% if c == r %}T{% else %}F{% endif %}"),
]
VALUE_SITES = ("top", "loop", "included", "rendered")
VALUE_DATA = {"n": 4, "rng": range(3, 6), "fl": 2.0, "big": 10**30, "h": {"a": 1, "b": [1, "é"]},
              "nested": [[1], [2, [3]]], "empty": []}
SHOW = "<{{ w }}|{% if w == CMP %}T{% else %}F{% endif %}|{% for i in w %}{{ i }};{% endfor %}>"


def value_cases(tier: str) -> Iterator[dict[str, Any]]:
    """Every (typed value expression, binding site, use): the value is bound with assign and then output, compared,
    iterated, filtered, handed to a partial that prints / compares / iterates it, rebound, or captured."""
    for (expr, cmp_), (use, tpl), site in itertools.product(VALUE_EXPRS, VALUE_USES, VALUE_SITES):
        body = "{% assign r = " + expr + " %}" + tpl.replace("CMP", cmp_)
        partials = {"show": SHOW.replace("CMP", cmp_)}
        if site == "top":
            src = body
        elif site == "loop":
            src = "{% for k in (1..2) %}" + body + "{% endfor %}{{ r }}"
        elif site == "included":
            partials["site"] = body
            src = "{% include 'site' %}/{{ r }}"
        else:
            if use == "include":
                continue  # include is disabled inside a rendered partial
            partials["site"] = body
            src = "{% render 'site' %}/{{ r }}"
        yield {"family": "values", "source": src, "partials": partials, "data": VALUE_DATA, "extra": False,
               "loop_vals": list(range(0, 10)), "depth_top": 14, "block_top": 5,
               "shape": {"expr": expr, "use": use, "site": site}}


FAMILIES = {"values": value_cases, "nest": nest_cases, "c07": c07_cases, "rec": rec_cases, "blocks": block_cases, "vars": var_cases}


def all_cases(tier: str) -> list[dict[str, Any]]:
    out: list[dict[str, Any]] = []
    for fam in ("nest", "c07", "rec", "blocks", "vars", "values"):
        out.extend(FAMILIES[fam](tier))
    return out


def output_vals(u: int) -> list[int]:
    """Every integer in [0, min(U+2, 32)] (every point at which a node can find the stream exactly full in small
    cases), then U/2, U-2..U+2 and 2U+1."""
    vals = set(range(0, min(u + 2, 32) + 1)) | {u // 2, u - 2, u - 1, u, u + 1, u + 2, 2 * u + 1}
    return sorted(v for v in vals if v >= 0)


def namespace_vals(totals: list[int]) -> list[int]:
    return G7.namespace_limits(totals, cap=3)
