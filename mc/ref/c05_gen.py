"""C05 -- alphabets, template generator and oracle helpers (no library imports here).

Everything a template of this generator contains is *specials-free literal text*: the
characters ``< > & '`` never occur in a generated source and ``"`` occurs only as the
delimiter of a string literal whose content is specials-free (``precondition_ok``
re-checks this on every generated source; it is the precondition of the property).
HTML-special characters can therefore reach the output only from render data.
"""

from __future__ import annotations

import itertools
import re
from typing import Any
from typing import Iterator
from typing import Optional

SPECIALS = "<>&'\""

# ---------------------------------------------------------------------------
# data alphabet (property quantifier / DESIGN.md C05)
# ---------------------------------------------------------------------------
TOKENS = ["<", ">", "&", "'", '"', "&lt;", "&amp;", "&#39;", "a", " ", "\n", "%3C", "PGI+", "<b>", "</b>"]

_STR_CACHE: dict[int, list[str]] = {}


def strings(n: int) -> list[str]:
    """Every distinct concatenation of <= n tokens, shortest first."""
    if n not in _STR_CACHE:
        seen: dict[str, None] = {}
        for k in range(n + 1):
            for seq in itertools.product(TOKENS, repeat=k):
                seen.setdefault("".join(seq), None)
        _STR_CACHE[n] = list(seen)
    return _STR_CACHE[n]


def strings_exact(n: int) -> list[str]:
    """Strings that need exactly n tokens (not producible with fewer)."""
    fewer = set(strings(n - 1)) if n > 0 else set()
    return [s for s in strings(n) if s not in fewer]


# data for the chain layers: every string of <= 1 token plus hand-picked longer sequences of the
# same tokens (tags with content, entity fragments next to raw specials, double-encoded entities,
# decodable payloads, specials-free multi-token strings for clause 3)
DX_MULTI = [
    "<b>a</b>", "a<", "<a>", "&lt;<", "&amp;lt;", "& <", "'\"", "a\n<", "&a", "&#39;'", "%3C%3C", "PGI+PGI+", "<b> a",
    "a a", " a\n", "a&amp;", "\"a\"",
]
DX = strings(1) + [s for s in DX_MULTI if s not in strings(1)]
DY_QUICK = ["&", "<b>", "a"]
DY_FULL = ["&", "<b>", "a", "&lt;", "'", "\""]
DL = ["<b>", "&", "&lt;", "a", "'"]  # items of list / dict data


def has_special(s: str) -> bool:
    return any(c in s for c in SPECIALS)


def bind(s: str, t: str) -> dict[str, Any]:
    """Render data derived from one pair of data strings (fresh containers each call)."""
    return {
        "x": s,
        "y": t,
        "xs": [s, t],
        "xd": [{"k": s, "n": "b"}, {"k": t, "n": "a"}],
        "xm": {"k": s, "n": t},
    }


# ---------------------------------------------------------------------------
# filter instances: (filter name, argument source)
# ---------------------------------------------------------------------------
# Excluded by the statement: ``safe`` and the HTML-generating filters (docs/filter_reference.md
# newline_to_br -> "<br />"; docs/optional_filters.md script_tag / stylesheet_tag).
EXCLUDED_FILTERS = ["safe", "newline_to_br", "script_tag", "stylesheet_tag"]

NOARG = [
    "escape", "escape_once", "upcase", "downcase", "capitalize", "strip", "lstrip", "rstrip", "strip_html",
    "strip_newlines", "url_encode", "url_decode", "base64_encode", "base64_decode", "base64_url_safe_encode",
    "base64_url_safe_decode", "squish", "escapejs", "first", "last", "reverse", "sort", "sort_natural", "uniq",
    "compact", "json", "t", "gettext",
]
WITHARG = [
    ("join", ""), ("join", '"-"'), ("join", "y"),
    ("split", '""'), ("split", '" "'), ("split", '"t"'), ("split", "y"),
    ("replace", '"a", "b"'), ("replace", 'y, "b"'), ("replace", '"a", y'), ("replace", '"t", y'),
    ("replace_first", '"a", "b"'), ("replace_first", 'y, "b"'), ("replace_first", '"a", y'),
    ("replace_last", '"a", y'), ("replace_last", 'y, "b"'),
    ("remove", '"a"'), ("remove", "y"), ("remove", '"lt"'),
    ("remove_first", "y"), ("remove_last", "y"),
    ("append", '"a"'), ("append", "y"), ("append", '""'),
    ("prepend", '"a"'), ("prepend", "y"),
    ("slice", "0"), ("slice", "1, 2"), ("slice", "-2, 2"), ("slice", "0, 3"),
    ("truncate", '2, ""'), ("truncate", "3"), ("truncate", "4, y"),
    ("truncatewords", "1"), ("truncatewords", "1, y"),
    ("default", '"a"'), ("default", "y"),
    ("map", '"k"'), ("where", '"k"'), ("where", '"k", y'), ("find", '"k", y'), ("reject", '"k", y'),
    ("sort", '"k"'), ("uniq", '"k"'), ("compact", '"k"'), ("concat", "xs"),
    ("date", '"%Y"'), ("t", "y"),
]
INSTANCES: list[tuple[str, str]] = [(n, "") for n in NOARG] + WITHARG
assert len(set(INSTANCES)) == len(INSTANCES)

# filters whose implementation has an ``environment.autoescape`` branch (and is not excluded) ...
AE_BRANCH = [("escape", ""), ("escape_once", ""), ("strip_html", ""), ("strip_newlines", ""), ("url_encode", ""),
             ("join", ""), ("escapejs", ""), ("t", "")]
# ... plus the decoders and the filters whose result depends on Markup algebra (used for chains of 3)
AE_PLUS = AE_BRANCH + [("url_decode", ""), ("base64_decode", ""), ("append", '"a"'), ("append", "y"), ("split", '""'),
                       ("replace", '"a", y'), ("slice", "0, 3")]
# first filters that make sense on list / dict sources
ARRAY_FIRST = [i for i in INSTANCES if i[0] in (
    "join", "first", "last", "reverse", "sort", "sort_natural", "uniq", "compact", "map", "where", "find", "reject",
    "concat", "slice", "json", "default")]


def ftext(inst: tuple[str, str]) -> str:
    name, arg = inst
    return name + (": " + arg if arg else "")


_IDENT = re.compile(r"[A-Za-z_]\w*")


def mentions(text: str, var: str) -> bool:
    """Does a piece of template source mention variable ``var`` outside string literals?"""
    return var in _IDENT.findall(re.sub(r'"[^"]*"', "", text))


# ---------------------------------------------------------------------------
# sinks
# ---------------------------------------------------------------------------
def _e(src: str, chain: list[str]) -> str:
    return " | ".join([src] + chain)


class Sink:
    """name, whether every split point of the chain is generated, builder."""

    def __init__(self, name: str, splits: bool, build: Any, max_chain: int = 99, family: Optional[str] = None):
        self.name, self.splits, self.build, self.max_chain = name, splits, build, max_chain
        self.family = family or name


def _out(src, pre, post, pn):
    return "{{ " + _e(src, pre + post) + " }}", {}


def _echo(src, pre, post, pn):
    return "{% echo " + _e(src, pre + post) + " %}", {}


def _assign(src, pre, post, pn):
    return "{% assign v = " + _e(src, pre) + " %}{{ " + _e("v", post) + " }}", {}


def _capture(src, pre, post, pn):
    return "{% capture v %}{{ " + _e(src, pre) + " }}{% endcapture %}{{ " + _e("v", post) + " }}", {}


def _capture2(src, pre, post, pn):  # capture of a capture, literal text on both sides
    return ("{% capture v %}a{{ " + _e(src, pre) + " }} {% endcapture %}{% capture w %}{{ " + _e("v", post)
            + " }}b{% endcapture %}{{ w }}"), {}


def _cycle(src, pre, post, pn):
    return "{% assign v = " + _e(src, pre + post) + ' %}{% cycle v, "a" %}{% cycle v, "a" %}{% cycle v, "a" %}', {}


def _cycle_direct(src, pre, post, pn):
    return "{% cycle " + src + ", y %}{% cycle " + src + ", y %}", {}


def _cycle_group(src, pre, post, pn):
    return "{% cycle y: " + src + ', "a" %}{% cycle y: ' + src + ', "a" %}', {}


def _for_split(src, pre, post, pn):
    return ("{% assign v = " + src + ' | split: "a" %}{% for i in v %}{{ ' + _e("i", pre + post)
            + " }}-{% endfor %}"), {}


def _for_over(src, pre, post, pn):
    return ("{% assign v = " + _e(src, pre + post) + " %}{% for i in v %}{{ i }}{{ forloop.index }}{% else %}{{ v }}"
            "{% endfor %}"), {}


def _if(src, pre, post, pn):
    e = _e(src, pre + post)
    return ("{% if " + src + ' contains "a" %}a{{ ' + e + " }}{% elsif " + src + " %}b{{ " + e + " }}{% else %}c{{ " + e
            + " }}{% endif %}"), {}


def _unless(src, pre, post, pn):
    return "{% unless nosuch %}{{ " + _e(src, pre + post) + " }}{% endunless %}", {}


def _ifchanged(src, pre, post, pn):
    e = _e(src, pre + post)
    return "{% ifchanged %}{{ " + e + " }}{% endifchanged %}{% ifchanged %}{{ " + e + " }}{% endifchanged %}", {}


def _tern_then(src, pre, post, pn):
    return "{{ " + _e(src, pre + post) + ' if true else "b" }}', {}


def _tern_else(src, pre, post, pn):
    return '{{ "b" if nosuch else ' + _e(src, pre + post) + " }}", {}


def _tern_tail(src, pre, post, pn):
    tail = (" || " + " | ".join(post)) if post else ""
    return "{{ " + _e(src, pre) + ' if true else "b"' + tail + " }}", {}


def _tern_assign(src, pre, post, pn):
    return "{% assign v = " + _e(src, pre) + " if true else y %}{{ " + _e("v", post) + " }}", {}


def _case(src, pre, post, pn):
    e = _e(src, pre + post)
    return "{% case " + src + ' %}{% when "a" %}a{{ ' + e + " }}{% else %}b{{ " + e + " }}{% endcase %}", {}


def _liquid(src, pre, post, pn):
    return "{% liquid\nassign v = " + _e(src, pre) + "\necho " + _e("v", post) + "\n%}", {}


def _include_kw(src, pre, post, pn):
    return '{% include "' + pn + '", v: ' + src + " %}", {pn: "{{ " + _e("v", pre + post) + " }}"}


def _include_with(src, pre, post, pn):
    return '{% include "' + pn + '" with ' + src + " as v %}", {pn: "a{{ " + _e("v", pre + post) + " }}"}


def _include_scope(src, pre, post, pn):
    return "{% assign v = " + _e(src, pre) + ' %}{% include "' + pn + '" %}', {pn: "{{ " + _e("v", post) + " }}"}


def _render_kw(src, pre, post, pn):
    return '{% render "' + pn + '", v: ' + src + " %}", {pn: "{{ " + _e("v", pre + post) + " }}"}


def _render_for(src, pre, post, pn):
    return '{% render "' + pn + '" for ' + src + " as v %}", {pn: "{{ " + _e("v", pre + post) + " }}-"}


def _render_with(src, pre, post, pn):
    return '{% render "' + pn + '" with ' + src + " as v %}", {pn: "{{ " + _e("v", pre + post) + " }}"}


def _translate_kw(src, pre, post, pn):
    return "{% assign w = " + _e(src, pre + post) + " %}{% translate v: w %}a {{ v }} b{% endtranslate %}", {}


def _translate_outer(src, pre, post, pn):
    return "{% assign v = " + _e(src, pre + post) + " %}{% translate %}a {{ v }}{% endtranslate %}", {}


def _translate_plural(src, pre, post, pn):
    return ("{% assign w = " + _e(src, pre + post) + " %}{% translate count: 2, v: w %}a {{ v }}{% plural %}b {{ v }} "
            "{{ count }}{% endtranslate %}"), {}


def _translate_ctx(src, pre, post, pn):
    return ("{% assign w = " + _e(src, pre + post) + " %}{% translate context: w, v: w %}{{ v }}{% endtranslate %}"), {}


def _t_var(src, pre, post, pn):
    return "{% assign w = " + _e(src, pre) + ' %}{{ "a %(v)s b" | t: v: w' + "".join(" | " + f for f in post) + " }}", {}


def _t_plural(src, pre, post, pn):
    return ("{% assign w = " + _e(src, pre + post) + ' %}{{ "a %(v)s" | ngettext: "b %(v)s %(u)s", 2, v: w, u: w }}'), {}


def _t_ctx(src, pre, post, pn):
    return "{% assign w = " + _e(src, pre + post) + ' %}{{ "%(v)s" | pgettext: w, v: w }}', {}


def _gettext_var(src, pre, post, pn):
    return "{% assign w = " + _e(src, pre + post) + ' %}{{ "a %(v)s" | gettext: v: w }}', {}


def _npgettext_var(src, pre, post, pn):
    return "{% assign w = " + _e(src, pre + post) + ' %}{{ "a %(v)s" | npgettext: "c", "b %(v)s", 2, v: w }}', {}


def _t_count(src, pre, post, pn):
    return ("{% assign w = " + _e(src, pre + post)
            + ' %}{{ "a %(v)s" | t: "c", plural: "b %(v)s %(count)s", count: 2, v: w }}'), {}


def _super(src, pre, post, pn):
    base = "b" + pn
    return ('{% extends "' + base + '" %}{% block b %}a{{ ' + _e("block.super", post) + " }}b{% endblock %}",
            {base: "c{% block b %}{{ " + _e(src, pre) + " }}{% endblock %}d"})


def _block_plain(src, pre, post, pn):  # child overrides with data output; base block unused
    base = "b" + pn
    return ('{% extends "' + base + '" %}{% block b %}{{ ' + _e(src, pre + post) + " }}{% endblock %}",
            {base: "c{% block b %}e{% endblock %}d"})


def _default_data(src, pre, post, pn):
    return "{{ " + _e("nosuch | default: " + src, pre + post) + " }}", {}


def _with(src, pre, post, pn):
    return "{% with v: " + src + " %}{{ " + _e("v", pre + post) + " }}{% endwith %}", {}


def _macro(src, pre, post, pn):
    return "{% macro f v %}{{ " + _e("v", pre + post) + " }}{% endmacro %}{% call f " + src + " %}", {}


def _index(src, pre, post, pn):  # the value reaches the output through a path into a container built by assign
    return "{% assign v = " + _e(src, pre) + ' | split: "" %}{{ ' + _e("v[0]", post) + " }}{{ v.last }}", {}


SINKS: list[Sink] = [
    Sink("out", False, _out),
    Sink("echo", False, _echo),
    Sink("assign", True, _assign),
    Sink("capture", True, _capture),
    Sink("capture2", True, _capture2, family="capture"),
    Sink("cycle", False, _cycle),
    Sink("cycle_direct", False, _cycle_direct, max_chain=0, family="cycle"),
    Sink("cycle_group", False, _cycle_group, max_chain=0, family="cycle"),
    Sink("for_split", False, _for_split, family="for"),
    Sink("for_over", False, _for_over, family="for"),
    Sink("if", False, _if),
    Sink("unless", False, _unless, family="if"),
    Sink("ifchanged", False, _ifchanged),
    Sink("tern_then", False, _tern_then, family="ternary"),
    Sink("tern_else", False, _tern_else, family="ternary"),
    Sink("tern_tail", True, _tern_tail, family="ternary"),
    Sink("tern_assign", True, _tern_assign, family="ternary"),
    Sink("case", False, _case),
    Sink("liquid", True, _liquid),
    Sink("include_kw", False, _include_kw, family="include"),
    Sink("include_with", False, _include_with, family="include"),
    Sink("include_scope", True, _include_scope, family="include"),
    Sink("render_kw", False, _render_kw, family="render"),
    Sink("render_for", False, _render_for, family="render"),
    Sink("render_with", False, _render_with, family="render"),
    Sink("translate_kw", False, _translate_kw, family="translate"),
    Sink("translate_outer", False, _translate_outer, family="translate"),
    Sink("translate_plural", False, _translate_plural, family="translate"),
    Sink("translate_ctx", False, _translate_ctx, family="translate"),
    Sink("t_var", True, _t_var, family="t"),
    Sink("t_plural", False, _t_plural, family="t"),
    Sink("t_ctx", False, _t_ctx, family="t"),
    Sink("gettext_var", False, _gettext_var, family="t"),
    Sink("npgettext_var", False, _npgettext_var, family="t"),
    Sink("t_count", False, _t_count, family="t"),
    Sink("super", True, _super),
    Sink("block_plain", False, _block_plain, family="super"),
    Sink("default_data", False, _default_data),
    Sink("with", False, _with),
    Sink("macro", False, _macro),
    Sink("index", True, _index),
]
SINK: dict[str, Sink] = {s.name: s for s in SINKS}
# sinks through which an unfiltered value must pass unchanged (clause 2)
PASS_SINKS = [s.name for s in SINKS if s.name not in ("for_split", "index")]
CORE3 = ["out", "capture"]  # sinks for chains of 3 (quick)
T_SINKS = ["t_var", "t_plural", "t_ctx", "gettext_var", "npgettext_var", "t_count"]
HIST_SEL = {"out": None, "capture": None, "assign": [1], "for_over": None, "cycle": None, "translate_kw": None}
STRUCT_SINKS = ["out", "assign", "capture", "for_over", "render_for", "include_with", "cycle"]
STRUCT_SINKS2 = {"out": None, "capture": [1], "for_over": None, "render_for": None}


def variants(sink: Sink, n: int) -> list[int]:
    """Split points generated for a chain of n filters."""
    return list(range(n + 1)) if sink.splits else [n]


def build(spec: dict[str, Any], pname: str = "p0") -> tuple[str, dict[str, str]]:
    """(main template source, partial templates) of a spec {sink, split, src, chain}."""
    sink = SINK[spec["sink"]]
    chain = [ftext(tuple(i)) for i in spec["chain"]]
    p = spec["split"]
    main, partials = sink.build(spec["src"], chain[:p], chain[p:], pname)
    for src in [main, *partials.values()]:
        if not precondition_ok(src):
            raise AssertionError(f"generator precondition broken (HTML-special literal text): {src!r}")
    return main, partials


_TAGS = re.compile(r"\{\{.*?\}\}|\{%.*?%\}", re.S)
_STRLIT = re.compile(r'"[^"<>&\']*"')


def precondition_ok(source: str) -> bool:
    """The template's own literal text contains no HTML-special characters."""
    if any(c in source for c in "<>&'"):
        return False
    if '"' in _TAGS.sub("", source):  # template text outside tags / output statements
        return False
    return '"' not in _STRLIT.sub("", source)  # inside markup: only as string-literal delimiters


# ---------------------------------------------------------------------------
# oracle helpers
# ---------------------------------------------------------------------------
ESCAPE_SEQ = re.compile(r"&(#\d+|#x[0-9a-fA-F]+|\w+);")


def output_faults(out: str) -> tuple[list[str], list[int]]:
    """(raw special characters present, positions of '&' that do not begin an escape sequence)."""
    raw = [c for c in "<>\"'" if c in out]
    bad = []
    i = out.find("&")
    while i != -1:
        if ESCAPE_SEQ.match(out, i) is None:
            bad.append(i)
        i = out.find("&", i + 1)
    return raw, bad


# ---------------------------------------------------------------------------
# spec enumeration (layers)
# ---------------------------------------------------------------------------
def chains(insts: list[tuple[str, str]], n: int) -> Iterator[tuple[tuple[str, str], ...]]:
    return itertools.product(insts, repeat=n)


def specs_for(src: str, chain: tuple[tuple[str, str], ...], sel: Any = None) -> Iterator[dict]:
    """Specs of one (source, chain).  ``sel``: None = every sink and split point; a list of sink names;
    or a dict sink name -> list of split points (None = all)."""
    n = len(chain)
    for sink in SINKS:
        if sel is not None and sink.name not in sel:
            continue
        if n > sink.max_chain:
            continue
        points = variants(sink, n)
        if isinstance(sel, dict) and sel[sink.name] is not None:
            points = [p for p in points if p in sel[sink.name]]
        for p in points:
            yield {"sink": sink.name, "split": p, "src": src, "chain": [list(i) for i in chain]}


# quick tier, long data strings against single filters
D2_SEL: dict[str, Optional[list[int]]] = {"out": None, "capture": None, "assign": [1], "super": [0], "t_var": [0],
                                          "for_over": None, "translate_kw": None}

# quick tier, chains of exactly 2: every construct that has two halves (all split points for the four that
# store / re-read a value, the middle split point for the others) plus six pass-through constructs
Q2_SEL: dict[str, Optional[list[int]]] = {
    "capture": None, "super": None, "t_var": None,
    "assign": [1], "capture2": [1], "tern_tail": [1], "tern_assign": [1], "liquid": [1], "include_scope": [1], "index": [1],
    "out": None, "for_over": None, "cycle": None, "translate_kw": None, "render_for": None, "if": None,
}


def layer_units(layer: str, tier: str) -> Iterator[tuple[str, tuple, Optional[list[str]]]]:
    """Work units (source, chain, sink names or None = all) of a layer, in a fixed order."""
    if layer == "chain2":  # every chain of <= 2 filter instances x every sink x every split point
        for n in (0, 1, 2):
            for ch in chains(INSTANCES, n):
                yield ("x", ch, Q2_SEL if (n == 2 and tier == "quick") else None)
    elif layer == "chain3":  # chains of exactly 3 over the autoescape-sensitive instances
        for ch in chains(AE_PLUS, 3):
            yield ("x", ch, CORE3 if tier == "quick" else None)
    elif layer == "chain3all":  # thorough: chains of exactly 3 over every instance, in an output statement
        if tier != "quick":
            for ch in chains(INSTANCES, 3):
                yield ("x", ch, ["out"])
    elif layer == "chain4":  # thorough: chains of exactly 4 over the instances with an autoescape branch + decoders
        if tier != "quick":
            for ch in chains(AE_4, 4):
                yield ("x", ch, ["out", "capture"])
    elif layer == "data2":  # chains of <= 1 x every sink (one unit per sink) against every string of <= 2 tokens
        for sink in SINKS:
            yield ("x", (), [sink.name])
        for ch in chains(INSTANCES, 1):
            if tier == "quick":
                yield ("x", ch, D2_SEL)
            else:
                for sink in SINKS:
                    if sink.max_chain >= 1:
                        yield ("x", ch, [sink.name])
    elif layer == "data3":  # ... against the strings that need exactly 3 tokens
        for sink in SINKS:
            yield ("x", (), [sink.name])
        for ch in chains(INSTANCES, 1):
            if tier == "quick":  # every single filter in an output statement
                yield ("x", ch, ["out"])
            else:
                for sink in SINKS:
                    if sink.max_chain >= 1:
                        yield ("x", ch, [sink.name])
    elif layer == "struct":  # list / dict sources
        for src in ("xs", "xd", "xm", "xs[1]", "xd[0].k", "xm.n"):
            yield (src, (), None)
            for ch in chains(INSTANCES, 1):
                yield (src, ch, STRUCT_SINKS)
            if "[" in src or "." in src:
                continue
            for first in ARRAY_FIRST:
                for second in INSTANCES:
                    yield (src, (first, second), STRUCT_SINKS2 if tier == "quick" else STRUCT_SINKS)
    elif layer == "safe":  # clause 2: values marked safe pass through unfiltered
        for src in ("x", "xs[0]", "xm.k"):
            for name in PASS_SINKS:
                yield (src, (), [name])
        for name in ("out", "for_over", "render_for", "assign", "capture"):
            yield ("xs", (), [name])
    elif layer == "manual_t":  # translation filters registered by hand (docs/optional_filters.md), message variables from data
        for n in (0, 1):
            for ch in chains(INSTANCES, n):
                yield ("x", ch, T_SINKS)
    elif layer == "history":  # two / three renders of one template on one environment: safe value, then the equal plain string
        for name in PASS_SINKS:
            yield ("x", (), [name])
        for ch in chains(INSTANCES, 1):
            yield ("x", ch, HIST_SEL)
    else:
        raise AssertionError(layer)


def layer_specs(layer: str, tier: str) -> Iterator[dict]:
    for src, ch, names in layer_units(layer, tier):
        yield from specs_for(src, ch, names)


AE_4 = AE_BRANCH + [("url_decode", ""), ("base64_decode", ""), ("append", '"a"'), ("slice", "0, 3")]
LAYERS = ["chain2", "chain3", "chain3all", "chain4", "data2", "data3", "struct", "safe", "history", "manual_t"]
