"""C16 reference helpers: deletion enumeration, nil variants and a conservative path resolver.

Nothing here imports the library.  A *path* is a tuple of segments: the first is a top-level
variable name, later ones are dict keys (str) or list indices (int).

Deletable paths of a data assignment: every dict key at every depth (also inside list
elements) and every list index.  A deletion subset is *valid* when no path is a prefix of
another (that would be the same data as deleting the shorter one alone) and, for every list,
the deleted indices form a suffix of the list (removing a middle element would renumber the
elements behind it, i.e. it would not be "removing a sub-path").
"""

from __future__ import annotations

import copy
import itertools
import re
from typing import Any
from typing import Iterator

Path = tuple  # tuple[str | int, ...]

FOUND = "found"
MISSING = "missing"
UNSPEC = "unspecified"

SPECIAL = ("size", "first", "last")


def deletable_paths(data: dict[str, Any]) -> list[Path]:
    out: list[Path] = []

    def walk(obj: Any, prefix: Path) -> None:
        if isinstance(obj, dict):
            for k, v in obj.items():
                out.append(prefix + (k,))
                walk(v, prefix + (k,))
        elif isinstance(obj, list):
            for i, v in enumerate(obj):
                out.append(prefix + (i,))
                walk(v, prefix + (i,))

    walk(data, ())
    return out


def _get(data: Any, path: Path) -> Any:
    obj = data
    for seg in path:
        obj = obj[seg]
    return obj


def is_prefix(a: Path, b: Path) -> bool:
    """a is a (non-strict) prefix of b."""
    return len(a) <= len(b) and b[: len(a)] == a


def valid_subset(data: dict[str, Any], subset: tuple[Path, ...]) -> bool:
    for a, b in itertools.permutations(subset, 2):
        if is_prefix(a, b):
            return False
    by_list: dict[Path, list[int]] = {}
    for p in subset:
        if isinstance(p[-1], int):
            by_list.setdefault(p[:-1], []).append(p[-1])
    for parent, idxs in by_list.items():
        n = len(_get(data, parent))
        if sorted(idxs) != list(range(n - len(idxs), n)):
            return False
    return True


def subsets(data: dict[str, Any], kmax: int = 2) -> Iterator[tuple[Path, ...]]:
    """Every valid deletion subset with 0..kmax paths, smallest first (deterministic order)."""
    paths = deletable_paths(data)
    for k in range(0, kmax + 1):
        for combo in itertools.combinations(paths, k):
            if valid_subset(data, combo):
                yield combo


def apply(data: dict[str, Any], subset: tuple[Path, ...], mode: str) -> dict[str, Any]:
    """Deep copy of ``data`` with the paths of ``subset`` deleted (mode='delete') or set to None (mode='nil')."""
    out = copy.deepcopy(data)
    # list pops from the highest index first so that earlier indices stay valid
    order = sorted(subset, key=lambda p: (len(p), tuple(str(type(s).__name__) + repr(s) for s in p)))
    ints = [p for p in order if isinstance(p[-1], int)]
    ints.sort(key=lambda p: -p[-1])
    rest = [p for p in order if not isinstance(p[-1], int)]
    for p in ints + rest:
        parent = _get(out, p[:-1]) if len(p) > 1 else out
        if mode == "nil":
            parent[p[-1]] = None
        elif isinstance(parent, list):
            assert p[-1] == len(parent) - 1, "list deletions must form a suffix"
            parent.pop()
        else:
            del parent[p[-1]]
    return out


_DIGITS = re.compile(r"\s*[-+]?\d+\s*")


def lookup(data: dict[str, Any], path: Path) -> tuple[str, Any]:
    """(status, value): is ``path`` (as written in a template) missing in ``data``?

    FOUND / MISSING only where that is unambiguous (docs/variables_and_drops.md "Paths to variables": segments
    are property names, array indexes or bracketed property names; "if a variable can not be resolved, an
    instance of Undefined is used"): a name that is not a render argument, a key that a dict does not have, a
    list index out of range, and a *word* (not size/first/last, not a digit string) applied to an array -- Python
    lists have no named properties.  Everything else that does not plainly resolve (properties of scalars,
    strings or nil, digit strings on lists, the special names size/first/last where they do not apply) is UNSPEC.
    """
    if not path or not isinstance(path[0], str):
        return UNSPEC, None
    if path[0] not in data:
        return MISSING, None
    obj = data[path[0]]
    for seg in path[1:]:
        if isinstance(obj, dict):
            if isinstance(seg, str) and seg in obj:
                obj = obj[seg]
            elif isinstance(seg, str) and seg in SPECIAL:
                return UNSPEC, None
            elif isinstance(seg, (str, int)) and not isinstance(seg, bool):
                return MISSING, None
            else:
                return UNSPEC, None
        elif isinstance(obj, list):
            if isinstance(seg, bool):
                return UNSPEC, None
            if isinstance(seg, int):
                if -len(obj) <= seg < len(obj):
                    obj = obj[seg]
                else:
                    return MISSING, None
            elif seg == "size":
                obj = len(obj)
            elif seg in ("first", "last") and obj:
                obj = obj[0] if seg == "first" else obj[-1]
            elif isinstance(seg, str) and seg not in SPECIAL and not _DIGITS.fullmatch(seg):
                return MISSING, None
            else:
                return UNSPEC, None
        else:
            return UNSPEC, None
    return FOUND, obj


def resolve(data: dict[str, Any], path: Path) -> str:
    """Status of a target path.  A segment ``("$", p)`` is a nested variable (``x[k]``): it is replaced by the
    value of path ``p`` when that is FOUND and is a str or int; otherwise the whole target is UNSPEC."""
    flat: list[Any] = []
    for seg in path:
        if isinstance(seg, (tuple, list)) and len(seg) == 2 and seg[0] == "$":
            st, val = lookup(data, tuple(seg[1]))
            if st != FOUND or isinstance(val, bool) or not isinstance(val, (str, int)):
                return UNSPEC
            flat.append(val)
        else:
            flat.append(seg)
    return lookup(data, tuple(flat))[0]


def shrinks_container_under(target: Path, subset: tuple[Path, ...]) -> bool:
    """Some deleted path lies strictly below ``target``: the value the template reaches through
    ``target`` is a container that lost a member (so 'present but nil' is a different container)."""
    return any(len(d) > len(target) and is_prefix(target, d) for d in subset)
