"""Program generator G(n, d): size-bounded, simplest-first enumeration of Liquid templates.

An *item* is either a leaf instance (source text) or a block instance (source with a
``{B}`` slot for a nested program).  ``programs(n, d)`` yields every program made of at
most ``n`` construct instances with block nesting depth at most ``d`` -- complete, no
sampling.  Variables used: ``x`` (scalar), ``y`` (hash), ``a`` (array), ``v`` (loop /
block / partial variable), ``c`` (counter), ``s`` (captured/assigned).

Partials available through PARTIALS (dict loader): p, q, r, sub/p.liquid.
"""

from __future__ import annotations

from typing import Any
from typing import Iterator
from typing import Optional

# -- leaves -------------------------------------------------------------------------
LEAVES_CORE: list[str] = [
    "a ",
    "{{ x }}",
    "{{ v }}",
    "{{ y.a }}",
    "{{ a[0] }}",
    "{{ a.size }}",
    "{{ y.b | first }}",
    "{{ x | upcase }}",
    "{{ x | default: 'd' }}",
    "{{ x | append: v }}",
    "{{ a | join: ',' }}",
    "{{ s }}",
    "{% assign s = 'z' %}",
    "{% assign x = a | first %}",
    "{% assign v = x %}",
    "{% echo x %}",
    "{% cycle 'p', 'q' %}",
    "{% cycle 'g': 'p', 'q' %}",
    "{% increment c %}",
    "{% decrement c %}",
    "{{ c }}",
    "{% include 'p' %}",
    "{% include 'p' with x %}",
    "{% include 'p', v: x %}",
    "{% include 'p' for a as v %}",
    "{% render 'p' %}",
    "{% render 'p' with x as v %}",
    "{% render 'p', v: x %}",
    "{% render 'p' for a as v %}",
    "{% render 'q' %}",
    "{% include 'sub/p.liquid' with x %}",
    "{% comment %} {{ x }} {% endcomment %}",
    "{% raw %}{{ x }}{% endraw %}",
    "{% # inline {{ x }} %}",
    "{% liquid assign s = x\necho s %}",
    "{% break %}",
    "{% continue %}",
    "{{ forloop.index }}",
    "{{ x | plus: 1 }}",
    "{{ a | sort | first }}",
    "{{ a | map: 'k' | join: '-' }}",
    "{{ x | size }}",
]
LEAVES_MORE: list[str] = [
    "{{ y['a'] }}",
    "{{ y[x] }}",
    "{{ a[-1] }}",
    "{{ a.first }}",
    "{{ a.last }}",
    "{{ x.size }}",
    "{{ 'lit' | append: x | size }}",
    "{{ x | times: 2 | minus: 1 }}",
    "{{ a | reverse | join: ' ' }}",
    "{{ x | truncate: 2 }}",
    "{{ x | split: ' ' | last }}",
    "{{ a | where: 'k' | size }}",
    "{{ y | json }}",
    "{{ x | date: '%Y' }}",
    "{% cycle x, v %}",
    "{% ifchanged %}{{ x }}{% endifchanged %}",
    "{% include 'r' %}",
    "{% render 'r' %}",
    "{{ (1..3) | join: '' }}",
    "{{ nosuch }}",
    "{{ nosuch.deep[0] }}",
    "{{ forloop.parentloop.index }}",
    "{{ tablerowloop.col }}",
    "{% assign s = a %}",
    "{% echo a | sum %}",
]

# -- blocks ({B} is the body slot) ---------------------------------------------------
BLOCKS_CORE: list[str] = [
    "{% if x %}{B}{% endif %}",
    "{% if x %}I{% else %}{B}{% endif %}",
    "{% if x == 1 %}I{% elsif v %}{B}{% else %}E{% endif %}",
    "{% if x and v or y %}{B}{% endif %}",
    "{% if a contains 1 %}{B}{% else %}E{% endif %}",
    "{% unless x %}{B}{% endunless %}",
    "{% unless x %}U{% else %}{B}{% endunless %}",
    "{% case x %}{% when 1 %}{B}{% when 'a', 2 %}W{% else %}E{% endcase %}",
    "{% case x %}{% when 'z' %}W{% else %}{B}{% endcase %}",
    "{% for v in a %}{B}{% endfor %}",
    "{% for v in a limit: 2 offset: 1 %}{B}{% else %}E{% endfor %}",
    "{% for v in a reversed %}{B}{% endfor %}",
    "{% for v in (1..3) %}{B}{% endfor %}",
    "{% for v in y %}{B}{% endfor %}",
    "{% for v in x %}{B}{% else %}E{% endfor %}",
    "{% for v in a offset: continue %}{B}{% endfor %}",
    "{% tablerow v in a cols: 2 %}{B}{% endtablerow %}",
    "{% capture s %}{B}{% endcapture %}{{ s }}",
    "{% ifchanged %}{B}{% endifchanged %}",
]
BLOCKS_MORE: list[str] = [
    "{% if x != blank %}{B}{% endif %}",
    "{% if x > 0 %}{B}{% else %}E{% endif %}",
    "{% if y.a %}{B}{% elsif x %}J{% endif %}",
    "{% for v in a limit: x %}{B}{% endfor %}",
    "{% for v in a limit: 0 %}{B}{% else %}E{% endfor %}",
    "{% for v in (1..x) %}{B}{% endfor %}",
    "{% tablerow v in a %}{B}{% endtablerow %}",
    "{% tablerow v in (1..3) cols: 2 limit: 2 %}{B}{% endtablerow %}",
    "{% liquid\nif x\necho 'L'\nendif %}{B}",
    "{% comment %}{B}{% endcomment %}",
]
# extra tags (Environment(extra=True))
LEAVES_EXTRA: list[str] = [
    "{% call m %}",
    "{% call m 1, q: x %}",
    "{{ x | t }}",
    "{% translate %}T {{ x }}{% endtranslate %}",
    "{{ 'T' if x else 'F' }}", "{{ x | upcase if v else y.a || append: '!' }}",
]
BLOCKS_EXTRA: list[str] = [
    "{% with v: x, w: 1 %}{B}{% endwith %}",
    "{% macro m p, q: 'dq' %}{B}{{ p }}{{ q }}{% endmacro %}{% call m x %}",
    "{% translate count: x %}One{% plural %}{B}{% endtranslate %}",
]

DEFAULT_BODY = "({{ v }})"

PARTIALS: dict[str, str] = {
    "p": "<p:{{ v }}{{ x }}{{ p }}>",
    "q": "<q:{% assign s = 'qs' %}{% for v in a %}{{ v }}{% endfor %}{% render 'p', v: s %}>",
    "r": "<r:{% if x %}{{ y.a }}{% endif %}{% include 'p' %}{{ nosuch }}>",
    "sub/p.liquid": "<sp:{{ p }}{{ x }}>",
}

# data assignments (labels are stable identifiers)
DATA_SETS: list[tuple[str, dict[str, Any]]] = [
    ("D0", {"x": 1, "y": {"a": 1, "b": [1, 2]}, "a": [1, 2, 3]}),
    ("D1", {"x": "a b", "y": {}, "a": []}),
    ("D2", {}),
    ("D3", {"x": None, "y": "str", "a": "abc"}),
    ("D4", {"x": [3, 1, 2], "y": 3, "a": [{"k": "v"}, {"k": 2}, {"z": 0}]}),
    ("D5", {"x": False, "y": {"a": [1], "b": "s"}, "a": range(2, 5)}),
]


def menus(level: str = "core", extra: bool = False) -> tuple[list[str], list[str]]:
    leaves = list(LEAVES_CORE)
    blocks = list(BLOCKS_CORE)
    if level == "full":
        leaves += LEAVES_MORE
        blocks += BLOCKS_MORE
    if extra:
        leaves += LEAVES_EXTRA
        blocks += BLOCKS_EXTRA
    return leaves, blocks


class Prog:
    __slots__ = ("source", "shape", "size", "depth")

    def __init__(self, source: str, shape: Any, size: int, depth: int):
        self.source = source
        self.shape = shape  # nested tuple of menu indices: identity of the abstract program
        self.size = size
        self.depth = depth

    def __repr__(self) -> str:
        return f"Prog({self.source!r})"


def _items(n: int, d: int, leaves: list[str], blocks: list[str]) -> Iterator[Prog]:
    """Every single item of exactly ``n`` construct instances, depth <= d."""
    if n == 1:
        for i, s in enumerate(leaves):
            yield Prog(s, ("L", i), 1, 0)
        if d >= 1:
            for j, b in enumerate(blocks):
                yield Prog(b.replace("{B}", DEFAULT_BODY), ("B", j), 1, 1)
        return
    if d < 1:
        return
    for j, b in enumerate(blocks):
        for body in _progs_exact(n - 1, d - 1, leaves, blocks):
            yield Prog(b.replace("{B}", body.source), ("B", j, body.shape), n, body.depth + 1)


def _progs_exact(n: int, d: int, leaves: list[str], blocks: list[str]) -> Iterator[Prog]:
    """Every program (sequence of items) of exactly ``n`` construct instances."""
    if n == 0:
        return
    for k in range(1, n + 1):
        for first in _items(k, d, leaves, blocks):
            if k == n:
                yield first
            else:
                for rest in _progs_exact(n - k, d, leaves, blocks):
                    yield Prog(first.source + rest.source, ("S", first.shape, rest.shape), n,
                               max(first.depth, rest.depth))


def programs(n: int, d: int, *, level: str = "core", extra: bool = False,
             leaves: Optional[list[str]] = None, blocks: Optional[list[str]] = None) -> Iterator[Prog]:
    """All programs with 1..n construct instances and nesting depth <= d, simplest first."""
    lv, bl = menus(level, extra)
    if leaves is not None:
        lv = leaves
    if blocks is not None:
        bl = blocks
    for size in range(1, n + 1):
        yield from _progs_exact(size, d, lv, bl)


def count(n: int, d: int, **kw: Any) -> int:
    return sum(1 for _ in programs(n, d, **kw))


# -- malformed sources M(k) -----------------------------------------------------------
FRAGMENTS: list[str] = [
    "{%", "%}", "{{", "}}", "{%-", "-%}", "if", "endif", "else", "for", "in", "case", "when", "x", "1",
    "'s'", "|", ":", ",", "(", "..", ")", "[", "]", "=", "==", " ", "\n",
]


def malformed(k: int, fragments: Optional[list[str]] = None) -> Iterator[str]:
    """Every concatenation (joined by a single space) of 1..k fragments."""
    import itertools

    fr = fragments or FRAGMENTS
    for n in range(1, k + 1):
        for combo in itertools.product(fr, repeat=n):
            yield " ".join(combo)


def token_mutants(source: str) -> Iterator[tuple[str, str]]:
    """Single-deviation mutants of a well-formed source: delete / duplicate one markup
    token, swap two adjacent ones, drop one end tag.  Yields (kind, mutant)."""
    import re

    toks = [t for t in re.split(r"(\{%.*?%\}|\{\{.*?\}\})", source, flags=re.S) if t != ""]
    idx = [i for i, t in enumerate(toks) if t.startswith("{")]
    for i in idx:
        yield "delete", "".join(toks[:i] + toks[i + 1 :])
        yield "duplicate", "".join(toks[: i + 1] + [toks[i]] + toks[i + 1 :])
    for a, b in zip(idx, idx[1:]):
        sw = list(toks)
        sw[a], sw[b] = sw[b], sw[a]
        yield "swap", "".join(sw)
    for i in idx:
        t = toks[i]
        if t.startswith("{%") and len(t) > 4:
            # truncate the expression of the tag / break its delimiter
            yield "truncate", "".join(toks[:i] + [t[: max(3, len(t) // 2)]] + toks[i + 1 :])
            inner = t[2:-2].strip().split(" ", 1)
            if len(inner) == 2:
                yield "noexpr", "".join(toks[:i] + ["{% " + inner[0] + " %}"] + toks[i + 1 :])
        if t.startswith("{{"):
            yield "badout", "".join(toks[:i] + ["{{ " + t[2:-2].strip() + " | }}"] + toks[i + 1 :])
