"""Regenerate /verif/MANIFEST.json from the drivers that exist (python -m mc.manifest_gen)."""
import importlib
import json
import os

HOME = os.path.dirname(os.path.dirname(os.path.abspath(__file__)))
BASELINE = ("cd /repo && /venv/bin/python -m pytest -ra -q -p no:cacheprovider --timeout=900 "
            "--continue-on-collection-errors")

META = json.load(open(os.path.join(HOME, "mc", "manifest_meta.json")))


def main() -> None:
    checks = []
    claimed = set()
    for pid in sorted(META["checks"]):
        m = META["checks"][pid]
        mod = importlib.import_module(f"mc.props.{pid.lower()}")
        chk = mod.CHECK
        claimed.add(pid)
        checks.append({
            "property_id": pid,
            "quick_cmd": f"./check {pid} quick",
            "thorough_cmd": f"./check {pid} thorough",
            "evidence_file": f"/verif/evidence/{pid}.json",
            "replay_cmd_template": f"./check {pid} --replay {{path}}",
            "engine": m.get("engine", "enum"),
            "level_claimed": {"category": chk.level, "text": m["text"], "design_ref": m.get("design_ref", f"DESIGN.md section 3 / {pid}")},
            "level_note": m["note"],
            "technique": m["technique"],
        })
    props = [json.loads(l)["id"] for l in open(os.path.join(HOME, "properties.jsonl"))]
    na = [{"property_id": p, "reason": META["not_applicable"].get(p, "check not built yet in this session; no claim is made")}
          for p in props if p not in claimed]
    man = {
        "version": 1,
        "setup_cmd": "./check --selftest",
        "hooks": {
            "guard": "LIQUID_VERIF",
            "enable": "no source hooks: the harness wraps library callables at run time; ./check exports LIQUID_VERIF=1 and PYTHONPATH=/repo so the working tree is what is imported",
            "baseline_off_cmd": BASELINE,
            "source_commits": [],
            "add_only": True,
        },
        "engines": META["engines"],
        "checks": checks,
        "notes": META["notes"],
        "not_applicable": na,
    }
    with open(os.path.join(HOME, "MANIFEST.json"), "w") as fd:
        json.dump(man, fd, indent=1)
        fd.write("\n")
    print(f"MANIFEST.json: {len(checks)} checks, {len(na)} not_applicable")


if __name__ == "__main__":
    main()
