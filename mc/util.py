"""Shared helpers for drivers: environments, outcome capture, async driving, value pools.

Everything here executes the *real* library imported from $LIQUID_REPO (default /repo).
"""

from __future__ import annotations

import asyncio
import math
import os
import traceback
import warnings
from typing import Any
from typing import Callable
from typing import Iterable
from typing import Mapping
from typing import Optional

import liquid
from liquid import Environment
from liquid import Mode
from liquid.exceptions import LiquidError

REPO = os.path.realpath(os.environ.get("LIQUID_REPO", "/repo"))

FLAG_NAMES = (
    "suppress_blank_control_flow_blocks", "shorthand_indexes", "string_sequences",
    "string_first_and_last", "logical_not_operator", "logical_parentheses",
    "ternary_expressions", "keyword_assignment",
)
LIMIT_NAMES = (
    "block_nesting_limit", "context_depth_limit", "loop_iteration_limit",
    "local_namespace_limit", "output_stream_limit",
)


# ---------------------------------------------------------------------------
# process-wide memo tables
# ---------------------------------------------------------------------------
def reset_memo() -> None:
    """Clear every process-wide memo table the parse/render path reads (tolerant of refactors)."""
    import importlib

    for modname, attr in (
        ("liquid.lex", "get_lexer"),
        ("liquid.parser", "get_parser"),
        ("liquid.environment", "get_implicit_environment"),
        ("liquid.builtin.filters.misc", "date"),
        ("liquid.builtin.filters.misc", "_date"),
    ):
        try:
            fn = getattr(importlib.import_module(modname), attr)
        except (ImportError, AttributeError):
            continue
        for f in (fn, getattr(fn, "__wrapped__", None), getattr(fn, "func", None)):
            clear = getattr(f, "cache_clear", None)
            if clear is not None:
                clear()


# ---------------------------------------------------------------------------
# environments
# ---------------------------------------------------------------------------
_ENV_CLASS_CACHE: dict[str, type] = {}


def make_env(
    *,
    flags: Optional[Mapping[str, Any]] = None,
    limits: Optional[Mapping[str, Any]] = None,
    templates: Optional[Mapping[str, str]] = None,
    loader: Any = None,
    base: type = Environment,
    **kwargs: Any,
) -> Environment:
    """Environment with class-level feature flags / limits set on a private subclass.

    ``flags``: any of FLAG_NAMES -> bool.  ``limits``: any of LIMIT_NAMES -> int|None.
    ``templates``: dict for a DictLoader (ignored when ``loader`` is given).
    ``kwargs``: constructor arguments (extra, tolerance, undefined, autoescape, globals,
    strict_filters, template_comments, delimiters ...).
    """
    attrs = dict(flags or {})
    attrs.update(limits or {})
    key = base.__qualname__ + repr(sorted(attrs.items()))
    cls = _ENV_CLASS_CACHE.get(key)
    if cls is None:
        cls = type("VerifEnv", (base,), dict(attrs))
        _ENV_CLASS_CACHE[key] = cls
    if loader is None and templates is not None:
        loader = liquid.DictLoader(dict(templates))
    if loader is not None:
        kwargs["loader"] = loader
    return cls(**kwargs)


# ---------------------------------------------------------------------------
# outcomes
# ---------------------------------------------------------------------------
class Outcome(tuple):  # ("ok", value) | ("liquid", ClassName, message) | ("other", ClassName, message, where)
    __slots__ = ()

    @property
    def ok(self) -> bool:
        return self[0] == "ok"

    @property
    def value(self) -> Any:
        return self[1] if self[0] == "ok" else None

    @property
    def is_liquid_error(self) -> bool:
        return self[0] == "liquid"

    @property
    def is_other_error(self) -> bool:
        return self[0] == "other"

    @property
    def error_class(self) -> Optional[str]:
        return None if self[0] == "ok" else self[1]

    @property
    def where(self) -> Optional[str]:
        return self[3] if self[0] == "other" else None

    def kind(self) -> Any:
        """What differential oracles compare: the output, or the error class name."""
        return ("ok", self[1]) if self[0] == "ok" else ("err", self[1])


def innermost_repo_frame(exc: BaseException) -> str:
    """``relative/file.py:function`` of the innermost frame inside the library."""
    best = "?"
    tb = exc.__traceback__
    for fs in traceback.extract_tb(tb):
        fn = os.path.realpath(fs.filename)
        if fn.startswith(REPO + os.sep) and os.sep + "liquid" + os.sep in fn:
            best = f"{os.path.relpath(fn, REPO)}:{fs.name}"
    return best


def outcome(fn: Callable[[], Any]) -> Outcome:
    """Run ``fn`` and classify: value, LiquidError subclass, or any other exception."""
    try:
        return Outcome(("ok", fn()))
    except LiquidError as e:
        try:
            msg = str(e)[:200]
        except Exception as e2:  # noqa: BLE001  formatting the error must not take the harness down
            msg = f"<str(error) raised {type(e2).__name__}>"
        return Outcome(("liquid", type(e).__name__, msg, e))
    except RecursionError as e:
        return Outcome(("other", "RecursionError", "", innermost_repo_frame(e)))
    except Exception as e:  # noqa: BLE001  classification is the point
        return Outcome(("other", type(e).__name__, str(e)[:200], innermost_repo_frame(e)))


class Suspended(Exception):
    """A coroutine that was expected to run to completion without suspending did suspend."""


def run_coro(coro: Any) -> Any:
    """Drive a coroutine to completion.

    Render coroutines over in-memory loaders never suspend, so they are driven with
    ``send(None)``; if one does suspend (real I/O via run_in_executor) it is finished on a
    private event loop.
    """
    try:
        coro.send(None)
    except StopIteration as stop:
        return stop.value
    # it suspended: we cannot resume a half-run coroutine on a loop reliably -> error
    coro.close()
    raise Suspended("coroutine suspended; use run_coro_loop for loaders that do real I/O")


_LOOP: Optional[asyncio.AbstractEventLoop] = None


def run_coro_loop(coro: Any) -> Any:
    """Run a coroutine on a private, reusable event loop (for file-system loaders)."""
    global _LOOP
    if _LOOP is None or _LOOP.is_closed():
        _LOOP = asyncio.new_event_loop()
    return _LOOP.run_until_complete(coro)


def parse(env: Environment, source: str, **kw: Any) -> Outcome:
    return outcome(lambda: env.from_string(source, **kw))


def render(template: Any, data: Optional[Mapping[str, Any]] = None) -> Outcome:
    d = dict(data or {})
    return outcome(lambda: template.render(**d))


def render_async(template: Any, data: Optional[Mapping[str, Any]] = None, *, loop: bool = False) -> Outcome:
    d = dict(data or {})
    runner = run_coro_loop if loop else run_coro
    return outcome(lambda: runner(template.render_async(**d)))


def parse_render(env: Environment, source: str, data: Optional[Mapping[str, Any]] = None) -> Outcome:
    d = dict(data or {})
    return outcome(lambda: env.from_string(source).render(**d))


def with_warnings(fn: Callable[[], Any]) -> tuple[Any, list[warnings.WarningMessage]]:
    with warnings.catch_warnings(record=True) as w:
        warnings.simplefilter("always")
        r = fn()
    return r, list(w)


# ---------------------------------------------------------------------------
# value pools
# ---------------------------------------------------------------------------
HUGE = 10**30
INF = float("inf")
NAN = float("nan")


class Missing:
    """Marker: the variable is not passed to render at all (undefined)."""

    def __repr__(self) -> str:
        return "<missing>"


MISSING = Missing()

# full pool (thorough) -- (label, value)
V_FULL: list[tuple[str, Any]] = [
    ("nil", None), ("true", True), ("false", False), ("0", 0), ("1", 1), ("-1", -1), ("2", 2), ("7", 7),
    ("huge", HUGE), ("e17", 10**17), ("giant", 10**5000), ("1.5", 1.5), ("-2.5", -2.5), ("0.0", 0.0), ("inf", INF), ("-inf", -INF), ("nan", NAN),
    ("s_empty", ""), ("s_space", " "), ("s_a", "a"), ("s_ab", "ab"), ("s_a_b", "a b"), ("s_1", "1"),
    ("s_-2", "-2"), ("s_1.5", "1.5"), ("s_1e999", "1e999"), ("s_nan", "nan"), ("s_abc", "abc"),
    ("s_pct", "%"), ("s_badb64", "/w=="), ("s_pctFF", "%FF"), ("s_html", "<b>"), ("s_digits", "9" * 30), ("s_e17", "1" + "0" * 17), ("s_giant", "9" * 5000),
    ("l_empty", []), ("l_123", [1, 2, 3]), ("l_str", ["b", "a", "B"]), ("l_nil", [None, 1, None]),
    ("l_nested", [[1], [2, [3]]]), ("l_dicts", [{"a": 1}, {"a": 2}, {"b": 3}]), ("l_mixed", [1, "a", None, 2.5]),
    ("d_empty", {}), ("d_ab", {"a": 1, "b": [1, 2]}), ("range", range(1, 4)), ("missing", MISSING),
]
# quick sub-pool: one representative per type and conversion class
_QUICK = {"nil", "true", "false", "0", "-1", "7", "huge", "e17", "giant", "1.5", "inf", "nan", "s_empty", "s_a", "s_a_b", "s_-2",
          "s_1.5", "s_e17", "s_badb64", "s_pct", "l_empty", "d_empty", "l_123", "l_str", "l_dicts", "d_ab", "range", "missing"}
V_QUICK: list[tuple[str, Any]] = [(k, v) for k, v in V_FULL if k in _QUICK]


def pool(tier: str) -> list[tuple[str, Any]]:
    return V_QUICK if tier == "quick" else V_FULL


def liquid_literal(v: Any) -> Optional[str]:
    """Liquid source literal for ``v`` or None if the language has no literal form."""
    if v is None:
        return "nil"
    if v is True:
        return "true"
    if v is False:
        return "false"
    if isinstance(v, int):
        if v.bit_length() > 10000:
            return None  # beyond the int->str conversion limit of the harness itself
        return str(v)
    if isinstance(v, float):
        if math.isinf(v) or math.isnan(v):
            return None
        return repr(v)
    if isinstance(v, str):
        if "'" in v or "\\" in v or "\n" in v:
            return None
        return "'" + v + "'"
    if isinstance(v, range):
        return f"({v.start}..{v.stop - 1})"
    return None


def data_with(name: str, v: Any, base: Optional[Mapping[str, Any]] = None) -> dict[str, Any]:
    d = dict(base or {})
    if v is not MISSING:
        d[name] = v
    return d


def deep_snapshot(o: Any) -> Any:
    """Type-strict, order-strict structural snapshot (for 'data not mutated' oracles)."""
    if isinstance(o, dict):
        return ("dict", tuple((k, deep_snapshot(v)) for k, v in o.items()))
    if isinstance(o, list):
        return ("list", tuple(deep_snapshot(x) for x in o))
    if isinstance(o, tuple):
        return ("tuple", tuple(deep_snapshot(x) for x in o))
    if isinstance(o, float) and o != o:
        return ("float", "nan")
    return (type(o).__name__, repr(o))


def split_shards(items: Iterable[Any], n: int) -> list[list[Any]]:
    """Split into ``n`` contiguous, nearly equal shards (empty shards dropped)."""
    seq = list(items)
    n = max(1, min(n, len(seq)))
    k, r = divmod(len(seq), n)
    out, i = [], 0
    for j in range(n):
        size = k + (1 if j < r else 0)
        if size:
            out.append(seq[i : i + size])
        i += size
    return out


def index_shards(total: int, n: int) -> list[tuple[int, int]]:
    """``n`` contiguous [lo, hi) index ranges covering range(total)."""
    n = max(1, min(n, total))
    k, r = divmod(total, n)
    out, i = [], 0
    for j in range(n):
        size = k + (1 if j < r else 0)
        out.append((i, i + size))
        i += size
    return out


MODES = {"strict": Mode.STRICT, "warn": Mode.WARN, "lax": Mode.LAX}
