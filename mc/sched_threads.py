"""Stateless, preemption-bounded interleaving explorer for real Python threads.

* Scheduling points: PEP 669 ``sys.monitoring`` INSTRUCTION events, registered as local
  events on the code objects under test (the library module and the driver bodies).
  Instructions that only touch frame-local state (LOAD_FAST, jumps, stack shuffles ...)
  commute with every instruction of every other thread, so they are not scheduling
  points (a sound partial-order reduction; the set is LOCAL_OPS below).
* One semaphore ("baton") per managed thread plus one for the controller: exactly one of
  them runs at any time, so an execution is fully determined by the list of choices.
* ``SchedLock`` replaces ``threading.Lock`` objects of the code under test: a thread
  that finds the lock taken is *blocked* (not enabled) until it is released; "nobody
  enabled but somebody unfinished" is reported as a deadlock.
* Exploration: iterative preemption bounding, depth-first over choice prefixes.  A
  choice list is replayed deterministically; an out-of-range choice is a hard error.
"""

from __future__ import annotations

import dis
import sys
import threading
from typing import Any
from typing import Callable
from typing import Optional

TOOL_ID = 3
_mon = sys.monitoring

LOCAL_OPNAMES = {
    "CACHE", "NOP", "RESUME", "LOAD_FAST", "LOAD_FAST_CHECK", "LOAD_FAST_AND_CLEAR", "LOAD_CONST",
    "STORE_FAST", "DELETE_FAST", "POP_TOP", "COPY", "SWAP", "PUSH_NULL", "KW_NAMES", "EXTENDED_ARG",
    "JUMP_FORWARD", "JUMP_BACKWARD", "JUMP_BACKWARD_NO_INTERRUPT", "POP_JUMP_IF_TRUE",
    "POP_JUMP_IF_FALSE", "POP_JUMP_IF_NONE", "POP_JUMP_IF_NOT_NONE", "PUSH_EXC_INFO", "POP_EXCEPT",
    "CHECK_EXC_MATCH", "RERAISE", "RETURN_CONST", "RETURN_VALUE", "MAKE_FUNCTION", "BUILD_TUPLE",
    "COPY_FREE_VARS", "MAKE_CELL", "LOAD_CLOSURE", "LOAD_DEREF", "STORE_DEREF", "IS_OP",
    "UNARY_NOT", "BUILD_LIST", "BUILD_MAP", "BUILD_CONST_KEY_MAP", "LOAD_SUPER_ATTR",
    "WITH_EXCEPT_START", "CLEANUP_THROW", "END_FOR", "END_SEND", "INTERPRETER_EXIT",
}
# NOTE: LOAD_SUPER_ATTR (``super().__getitem__``) only resolves a method on the class; the
# call that follows is a scheduling point.  LOAD_DEREF/STORE_DEREF touch closure cells
# which are private to one invocation in the code under test.


class HarnessError(Exception):
    pass


class _Abort(BaseException):
    """Raised inside managed threads to unwind them when an execution is abandoned."""


class SchedLock:
    """Cooperative replacement for threading.Lock / RLock under the scheduler."""

    def __init__(self, sched_ref: list[Optional["Execution"]], reentrant: bool = False):
        self._ref = sched_ref
        self.owner: Optional[int] = None
        self.depth = 0
        self.reentrant = reentrant

    def acquire(self, blocking: bool = True, timeout: float = -1) -> bool:
        ex = self._ref[0]
        tid = ex.current_tid() if ex is not None else None
        if ex is None or tid is None:  # sequential use outside an execution
            if self.owner is not None and not (self.reentrant and self.owner == -1):
                raise HarnessError("lock already held during sequential set-up (self-deadlock)")
            self.owner = -1
            self.depth += 1
            return True
        while True:
            # The CALL/BEFORE_WITH instruction that got us here was already a scheduling
            # point, so no extra point is needed before the test-and-set below (which is
            # atomic: exactly one managed thread runs at a time).
            if self.owner is None:
                self.owner = tid
                self.depth = 1
                return True
            if self.reentrant and self.owner == tid:
                self.depth += 1
                return True
            if not blocking:
                return False
            ex.block_on(tid, self)  # returns when the controller saw the lock free

    def release(self) -> None:
        if self.owner is None:
            raise RuntimeError("release unlocked lock")
        self.depth -= 1
        if self.depth <= 0:
            self.owner = None
            self.depth = 0

    def locked(self) -> bool:
        return self.owner is not None

    __enter__ = acquire

    def __exit__(self, *a: Any) -> None:
        self.release()


class Execution:
    """One controlled execution of ``bodies`` following ``prefix`` then default choices.

    The scheduling decision is taken *by the thread that reaches a scheduling point*
    (under the invariant that exactly one managed thread runs at a time), so continuing
    the same thread costs no context switch.
    """

    def __init__(self, bodies: list[Callable[[], Any]], prefix: list[int], horizon: int = 4000):
        self.bodies = bodies
        self.n = len(bodies)
        self.prefix = prefix
        self.horizon = horizon
        self.batons = [threading.Semaphore(0) for _ in range(self.n)]
        self.done = threading.Semaphore(0)
        self.finished = [False] * self.n
        self.blocked: list[Optional[SchedLock]] = [None] * self.n
        self.results: list[Any] = [None] * self.n
        self.errors: list[Optional[BaseException]] = [None] * self.n
        self.idents: dict[int, int] = {}
        self.aborting = False
        # recorded decision points: (enabled (canonical order), chosen index, running_still_enabled)
        self.points: list[tuple[tuple[int, ...], int, bool]] = []
        self.choices: list[int] = []
        self.trace: list[int] = []  # tid chosen at each decision (including forced ones)
        self.steps = 0
        self.deadlock = False
        self.horizon_hit = False
        self.harness_error: Optional[str] = None
        self.clock = 0  # global event clock for call/return stamps

    # -- called from managed threads ---------------------------------------
    def current_tid(self) -> Optional[int]:
        return self.idents.get(threading.get_ident())

    def _decide(self, running: Optional[int]) -> Optional[int]:
        """Pick the next thread to run; None means the execution is over."""
        if all(self.finished):
            return None
        enabled, still = self._enabled(running)
        if not enabled:
            self.deadlock = True
            return None
        self.steps += 1
        if self.steps > self.horizon:
            self.horizon_hit = True
            return None
        if len(enabled) == 1:
            pick = 0
        else:
            i = len(self.choices)
            if i < len(self.prefix):
                pick = self.prefix[i]
                if pick >= len(enabled):
                    self.harness_error = f"replay divergence: choice {pick} of {enabled} at {i}"
                    return None
            else:
                pick = 0
            self.points.append((enabled, pick, still))
            self.choices.append(pick)
        tid = enabled[pick]
        self.trace.append(tid)
        self.blocked[tid] = None
        return tid

    def _handoff(self, me: Optional[int], nxt: Optional[int]) -> None:
        if nxt is None:
            self.aborting = not all(self.finished)
            self.done.release()
            if me is not None and not self.finished[me]:
                self.batons[me].acquire()
                raise _Abort()
            return
        if nxt == me:
            return
        self.batons[nxt].release()
        if me is not None and not self.finished[me]:
            self.batons[me].acquire()
            if self.aborting:
                raise _Abort()

    def point(self, tid: int, label: Any = None) -> None:
        """Scheduling point of thread ``tid``."""
        if self.aborting:
            raise _Abort()
        self._handoff(tid, self._decide(tid))

    def block_on(self, tid: int, lock: SchedLock) -> None:
        if self.aborting:
            raise _Abort()
        self.blocked[tid] = lock
        self._handoff(tid, self._decide(tid))

    def stamp(self) -> int:
        self.clock += 1
        return self.clock

    def _thread_main(self, tid: int) -> None:
        self.batons[tid].acquire()  # wait to be started
        try:
            if self.aborting:
                return
            self.results[tid] = self.bodies[tid]()
        except _Abort:
            pass
        except BaseException as e:  # noqa: BLE001  outcome of the body
            self.errors[tid] = e
        finally:
            self.finished[tid] = True
            if not self.aborting:
                self._handoff(tid, self._decide(None))

    def _enabled(self, running: Optional[int]) -> tuple[tuple[int, ...], bool]:
        en = []
        for t in range(self.n):
            if self.finished[t]:
                continue
            lk = self.blocked[t]
            if lk is not None:
                if lk.owner is None or (lk.reentrant and lk.owner == t):
                    en.append(t)
                continue
            en.append(t)
        still = running is not None and running in en
        if still:
            en.remove(running)  # type: ignore[arg-type]
            en.insert(0, running)  # type: ignore[arg-type]
        return tuple(en), still

    def run(self) -> "Execution":
        pool = get_pool(self.n)
        self.idents = pool.idents
        self.exit_sem = threading.Semaphore(0)
        pool.current = self
        for t in range(self.n):
            pool.start[t].release()
        try:
            self._handoff(None, self._decide(None))
            self.done.acquire()
        finally:
            if not all(self.finished):
                self.aborting = True
                for t in range(self.n):
                    if not self.finished[t]:
                        self.batons[t].release()
            for _ in range(self.n):
                if not self.exit_sem.acquire(timeout=10):
                    raise HarnessError("managed thread did not terminate")
        if self.harness_error:
            raise HarnessError(self.harness_error)
        if not (self.deadlock or self.horizon_hit) and len(self.choices) < len(self.prefix):
            raise HarnessError("replay divergence: execution ended before the prefix was consumed")
        return self


class _Pool:
    """Persistent managed threads (creating OS threads per execution dominated the cost)."""

    def __init__(self) -> None:
        self.threads: list[threading.Thread] = []
        self.start: list[threading.Semaphore] = []
        self.idents: dict[int, int] = {}
        self.current: Optional[Execution] = None

    def ensure(self, n: int) -> None:
        while len(self.threads) < n:
            t = len(self.threads)
            self.start.append(threading.Semaphore(0))
            ready = threading.Semaphore(0)
            th = threading.Thread(target=self._loop, args=(t, ready), daemon=True)
            self.threads.append(th)
            th.start()
            ready.acquire()

    def _loop(self, t: int, ready: threading.Semaphore) -> None:
        self.idents[threading.get_ident()] = t
        ready.release()
        while True:
            self.start[t].acquire()
            ex = self.current
            assert ex is not None
            try:
                ex._thread_main(t)
            finally:
                ex.exit_sem.release()


_POOL: Optional[_Pool] = None
_POOL_PID = -1


def get_pool(n: int) -> _Pool:
    global _POOL, _POOL_PID
    import os

    if _POOL is None or _POOL_PID != os.getpid():
        _POOL = _Pool()
        _POOL_PID = os.getpid()
    _POOL.ensure(n)
    return _POOL


class Explorer:
    """Iterative preemption-bounded DFS over schedules of a driver.

    ``make(exec_ref)`` must build fresh shared objects and return the list of thread
    bodies (zero-argument callables); it is called once per execution.  ``check(ex, ctx)``
    is called with the finished execution and whatever ``make`` returned as context.
    """

    def __init__(self, code_objects: list[Any]):
        self.code_objects = list(code_objects)
        self.exec_ref: list[Optional[Execution]] = [None]
        self.schedules = 0
        self.preempt_hist: dict[int, int] = {}
        self._installed = False

    # monitoring ----------------------------------------------------------------
    def install(self) -> None:
        if self._installed:
            return
        if _mon.get_tool(TOOL_ID) is not None:
            _mon.free_tool_id(TOOL_ID)
        _mon.use_tool_id(TOOL_ID, "liquid-verif-sched")
        opname = dis.opname
        ref = self.exec_ref
        local_ops = {i for i, n in enumerate(opname) if n in LOCAL_OPNAMES}
        DISABLE = _mon.DISABLE
        get_ident = threading.get_ident

        def on_instruction(code: Any, offset: int) -> Any:
            op = code.co_code[offset]
            if op in local_ops:
                return DISABLE
            ex = ref[0]
            if ex is None:
                return None
            tid = ex.idents.get(get_ident())
            if tid is None:
                return None
            ex.point(tid, None)
            return None

        _mon.register_callback(TOOL_ID, _mon.events.INSTRUCTION, on_instruction)
        for co in self.code_objects:
            _mon.set_local_events(TOOL_ID, co, _mon.events.INSTRUCTION)
        self._installed = True

    def uninstall(self) -> None:
        if not self._installed:
            return
        for co in self.code_objects:
            _mon.set_local_events(TOOL_ID, co, 0)
        _mon.register_callback(TOOL_ID, _mon.events.INSTRUCTION, None)
        _mon.free_tool_id(TOOL_ID)
        self._installed = False

    # exploration -----------------------------------------------------------------
    def run_one(self, make: Callable[[], tuple[list[Callable[[], Any]], Any]], prefix: list[int],
                horizon: int = 4000) -> tuple[Execution, Any]:
        bodies, ctx = make()
        ex = Execution(bodies, prefix, horizon)
        self.exec_ref[0] = ex
        try:
            ex.run()
        finally:
            self.exec_ref[0] = None
        return ex, ctx

    def explore(self, make: Callable[[], tuple[list[Callable[[], Any]], Any]], bound: int,
                on_execution: Callable[[Execution, Any], None], max_schedules: int = 10**9,
                horizon: int = 4000) -> bool:
        """Explore every schedule with at most ``bound`` preemptions. Returns False if capped."""
        self.install()
        stack: list[list[int]] = [[]]
        complete = True
        while stack:
            if self.schedules >= max_schedules:
                complete = False
                break
            prefix = stack.pop()
            ex, ctx = self.run_one(make, prefix, horizon)
            self.schedules += 1
            on_execution(ex, ctx)
            # number of preemptions along the executed path up to each point
            cost = 0
            costs = []
            for (enabled, pick, still) in ex.points:
                costs.append(cost)
                if still and pick != 0:
                    cost += 1
            self.preempt_hist[cost] = self.preempt_hist.get(cost, 0) + 1
            for i in range(len(prefix), len(ex.points)):
                enabled, pick, still = ex.points[i]
                base = costs[i]
                for alt in range(1, len(enabled)):
                    c = base + (1 if still else 0)
                    if c > bound:
                        continue
                    stack.append(ex.choices[:i] + [alt])
        return complete


def code_objects_of(obj: Any) -> list[Any]:
    """All code objects (recursively, including nested functions) defined by a module/class/function."""
    import inspect
    import types

    seen: dict[int, Any] = {}

    def add_code(co: Any) -> None:
        if id(co) in seen:
            return
        seen[id(co)] = co
        for c in co.co_consts:
            if isinstance(c, types.CodeType):
                add_code(c)

    def walk(o: Any, modname: Optional[str]) -> None:
        if isinstance(o, types.FunctionType):
            add_code(o.__code__)
        elif isinstance(o, (classmethod, staticmethod)):
            walk(o.__func__, modname)
        elif isinstance(o, property):
            for f in (o.fget, o.fset, o.fdel):
                if f is not None:
                    walk(f, modname)
        elif inspect.isclass(o):
            if modname is None or o.__module__ == modname:
                for v in vars(o).values():
                    walk(v, modname)

    if isinstance(obj, types.ModuleType):
        for v in vars(obj).values():
            if getattr(v, "__module__", None) == obj.__name__:
                walk(v, obj.__name__)
    else:
        walk(obj, None)
    return list(seen.values())
