"""C14 -- variables resolve to their innermost binding.

Bounded exhaustive enumeration on the real implementation (``Environment(extra=True)``), two parts.

(A) scope.  Every forest of <= N binding ops (N = 4; see ``rule`` for the alphabet per size and tier) (``mc/ref/c14_model.py``: assign, capture, increment,
decrement, for, tablerow, with, include..with..as / include kwarg / include..for..as / plain include,
``if true``, macro parameter + call, capture with ops in its body) over the names {v, w}, with a probe
``[id:{{ v }}|{{ w }}]`` before the first op, at the start of every block body (also inside the included
partial and the macro body) and after every op.  The four global layers (render argument, front matter,
template globals, environment globals) are populated independently for v (all 16 subsets; w gets a
different subset through a fixed bijection), every layer and every op binding a distinct readable value.
The rendered probes are compared with the reference scope model, for ``render`` and ``render_async``.
Sub-families: ``builtin`` (the same programs over the names now / today: a user binding shadows the
built-in, the built-in shadows a counter; the time value itself is never compared) and ``loopvar`` (names
forloop / tablerowloop: the loop object of for / tablerow shadows every outer binding inside the block
and vanishes after it).

(B) paths.  Every path root + 1..3 (thorough: 4) segments over 32 segment forms (dot name, quoted names
in both quote styles, a quoted name with a space, ``["size"]``, integer indexes 0 1 9 and -1 -2 -3 -4 -5 -6 -8 -9
(every array length in the data has indexes just inside and just outside its range: -len-1, -len-2, -2*len),
bracketed index variables holding a string / "size" / an int / negative ints inside and outside the range /
nothing / nested ``[ix.one]``, ``.size``, ``.first``, ``.last``) from 10 roots (array, hash, hash with keys
named size/first/last, string, empty array, empty string, int, nil, missing, a variable assigned an undefined
value), at most one segment after the first missing position, under the four combinations of
``string_sequences`` x ``string_first_and_last``, compared with the reference path walker of
``mc/ref/c14_paths.py`` for ``render`` and ``render_async``.  Defined results are read back through the
documented ``json`` filter.  Cells the docs leave open (.first/.last on a hash without such a key, negative
string index) are executed too and must give the same result under both APIs.
"""

from __future__ import annotations

import json
from typing import Any
from typing import Optional

from liquid import CachingLoaderMixin
from liquid import Undefined
from liquid.exceptions import TemplateNotFoundError
from liquid.loader import BaseLoader
from liquid.loader import TemplateSource

from mc import util
from mc.core import Check
from mc.core import Result
from mc.ref import c14_model as M
from mc.ref import c14_paths as P

MARK = "?"


class MarkerUndefined(Undefined):
    """Documented customisation point (docs/variables_and_drops.md): makes 'undefined' visible."""

    def __str__(self) -> str:
        return MARK


class ProgLoader(BaseLoader):
    """Custom loader per docs/loading_templates.md: sources (and matter of 'main') set per program."""

    def __init__(self) -> None:
        self.sources: dict[str, str] = {}
        self.matter: dict[str, dict[str, object]] = {}

    def get_source(self, env: Any, template_name: str, *, context: Any = None, **kwargs: object) -> TemplateSource:
        try:
            text = self.sources[template_name]
        except KeyError as err:
            raise TemplateNotFoundError(template_name) from err
        return TemplateSource(text, template_name, None, self.matter.get(template_name))


class CachingProgLoader(CachingLoaderMixin, ProgLoader):
    """Caching variant, built the way docs/loading_templates.md ("Caching mixin") shows."""

    def __init__(self) -> None:
        super().__init__(auto_reload=True, namespace_key="", capacity=300)
        ProgLoader.__init__(self)


def undef_text(kind: str) -> str:
    return MARK if kind == "marker" else ""


_ENVS: dict[Any, Any] = {}
_BASE_LOADERS: dict[int, Any] = {}


def scope_env(undef: str, names: tuple[str, str], evals: tuple[int, int]) -> Any:
    """``evals[j]``: 0 = names[j] is not an environment global, 1 = bound to 'E<name>', 2 = bound to nil."""
    key = ("scope", undef, names, evals)
    env = _ENVS.get(key)
    if env is None:
        g: dict[str, Any] = {"zz": M.zz_global()}
        for n, b in zip(names, evals):
            if b:
                g[n] = f"E{n}" if b == 1 else None
        kw: dict[str, Any] = {"extra": True, "globals": g, "loader": ProgLoader()}
        if undef == "marker":
            kw["undefined"] = MarkerUndefined
        env = util.make_env(**kw)
        for tag in ("macro", "call", "with"):
            if tag not in env.tags:
                raise RuntimeError(f"harness binding lost: Environment(extra=True) has no {tag!r} tag")
        _ENVS[key] = env
    return env


def w_mask(mv: int) -> int:
    """Bijection on the 16 layer subsets; w's M,T,E bits depend only on v's M,T,E bits (bit0=R .. bit3=E)."""
    r, m, t, e = mv & 1, mv >> 1 & 1, mv >> 2 & 1, mv >> 3 & 1
    return (1 - r) | t << 1 | e << 2 | (1 - m) << 3


CONFIGS: dict[str, list[int]] = {
    "all16": list(range(16)),
    "four": [0, 15, 6, 9],
    "three": [0, 15, 6],
    "two": [0, 15],
    "m15": [15],
    "pair01": [0, 1],  # nothing / render argument only for v (w: render argument + env global / env global): one parse
}
NAME_SETS: dict[str, tuple[str, str]] = {
    "vw": ("v", "w"), "now": ("now", "w"), "today": ("today", "w"), "loop": ("forloop", "tablerowloop"),
    # variables named like the special path properties (a name is a name: docs/variables_and_drops.md)
    "size": ("size", "w"), "first": ("first", "w"), "last": ("last", "w"),
}
# load mode -> the get_template requests made for the same name BEFORE the one whose template is rendered
# ("decoy" = other template globals for both names, "none" = no globals argument)
CACHED_PRE: dict[str, tuple[str, ...]] = {"cached1": ("decoy",), "cached2": ("decoy", "none")}


def merge_apis(per_api: dict[str, list[tuple[str, str, str, str]]]) -> list[tuple[str, str, str, str, str]]:
    """[(clause, observed, ctx, api, text)] with api='both' when sync and async deviate the same way."""
    keys: dict[tuple[str, str, str], dict[str, str]] = {}
    for api, bads in per_api.items():
        for clause, observed, ctx, text in bads:
            keys.setdefault((clause, observed, ctx), {}).setdefault(api, text)
    out = []
    for (clause, observed, ctx), apis in keys.items():
        api = "both" if len(apis) == 2 else next(iter(apis))
        out.append((clause, observed, ctx, api, next(iter(apis.values()))))
    return out


def loop_conflict(forest: M.Forest, names: tuple[str, str]) -> bool:
    """``for forloop in`` / ``tablerow tablerowloop in``: which of the two bindings wins is not specified."""
    for kind, ni, _ in M.iter_nodes(forest):
        if ni is not None and ((kind == "F" and names[ni] == "forloop") or (kind == "T" and names[ni] == "tablerowloop")):
            return True
    return False


def eval_scope(c: M.Compiled, names: tuple[str, str], mv: int, undef: str, load: str,
               cache: Optional[dict[Any, Any]] = None, nil_layer: Optional[tuple[int, str]] = None,
               tolerant: bool = False) -> tuple[list[tuple[dict[str, Any], str]], dict[str, Any]]:
    """Run one program under one layer configuration -> (violations, info).

    ``nil_layer`` = (name index, layer) binds that layer to nil.  ``tolerant``: the program raises break /
    continue inside an included partial or a tablerow; how that ends the loop is not documented, so a render
    that fails or whose probe sequence differs from the model's is excluded, not reported."""
    masks = (mv, w_mask(mv))
    layers = M.layers_for(names, masks, nil_layer)
    ut = undef_text(undef)
    evals = tuple((2 if nil_layer == (j, "E") else 1) if masks[j] >> 3 & 1 else 0 for j in (0, 1))
    env = scope_env(undef, names, evals)  # type: ignore[arg-type]
    loader = base_loader = _BASE_LOADERS.setdefault(id(env), env.loader)
    env.loader = loader
    loader.sources = dict(c.partials)
    loader.matter = {}
    tkey = (masks[0] >> 1, masks[1] >> 1, undef, load, nil_layer if nil_layer and nil_layer[1] != "R" else None)
    t = cache.get(tkey) if cache is not None and load not in CACHED_PRE else None
    per_api_t: dict[str, Any] = {}
    if load in CACHED_PRE:
        # a caching loader, asked for the same name several times with different template globals: the template
        # globals layer is what the LAST request passed (docs/render_context.md "Template globals"; caching
        # loaders only "avoid parsing the same source text multiple times", docs/loading_templates.md)
        decoy = {n: f"X{n}" for n in names}
        for api in ("sync", "async"):
            ld = CachingProgLoader()
            ld.sources = {**c.partials, "main": c.source}
            ld.matter = {"main": dict(layers["M"])}
            env.loader = ld

            def request(g: Any, api: str = api) -> Any:
                kw = {} if g is None else {"globals": g}
                if api == "sync":
                    return env.get_template("main", **kw)
                return util.run_coro(env.get_template_async("main", **kw))

            def load_seq() -> Any:
                for pre in CACHED_PRE[load]:
                    request(dict(decoy) if pre == "decoy" else None)
                return request(dict(layers["T"]))

            per_api_t[api] = (util.outcome(load_seq), ld)
        t = per_api_t["sync"][0]
    elif t is None:
        if load == "loader":
            loader.sources["main"] = c.source
            loader.matter["main"] = dict(layers["M"])
            t = util.outcome(lambda: env.get_template("main", globals=dict(layers["T"])))
        else:
            t = util.parse(env, c.source, globals=dict(layers["T"]), matter=dict(layers["M"]))
        if cache is not None:
            cache[tkey] = t
    expected = M.interpret(c, layers, ut)
    per_api: dict[str, list[tuple[str, str, str, str]]] = {}
    stats: dict[str, int] = {}
    excluded = 0
    for api in ("sync", "async"):
        if per_api_t:
            t, env.loader = per_api_t[api]
        if not t.ok:
            o = t
        elif api == "sync":
            o = util.render(t.value, layers["R"])
        else:
            o = util.render_async(t.value, layers["R"])
        if not o.ok:
            if tolerant and o.is_liquid_error:
                excluded += 1
                continue
            per_api[api] = [("no-error", o.error_class or "?", "-", f"{o[1]}: {o[2]}")]
            continue
        bads, st = M.compare(expected, o.value, names, ut, c.probe_ctx)
        if tolerant and bads and bads[0][0] == "output-shape":
            excluded += 1
            continue
        per_api[api], stats = bads, st
    viols = []
    for clause, observed, ctx, api, text in merge_apis(per_api):
        sig = {"family": "scope", "clause": clause, "observed": observed, "ctx": ctx, "api": api}
        what = (f"{c.source} partials={c.partials} render_args={layers['R']} matter={layers['M']} "
                f"template_globals={layers['T']} env_globals={layers['E']} -> {text} [{api}]")
        viols.append((sig, what))
    if per_api_t:
        env.loader = base_loader
    info = {"clauses": M.clauses_of(expected), "stats": stats, "masks": masks, "excluded": excluded}
    return viols, info


def scope_case(alpha: str, forest: M.Forest, nameset: str, mv: int, undef: str, load: str, c: M.Compiled,
               nil_ops: Any = (), nil_layer: Any = None) -> dict[str, Any]:
    masks = (mv, w_mask(mv))
    return {"family": "scope", "alpha": alpha, "forest": forest, "nameset": nameset, "mask_v": mv, "mask_w": masks[1],
            "undef": undef, "load": load, "nil_ops": sorted(nil_ops), "nil_layer": list(nil_layer) if nil_layer else None,
            "source": c.source, "partials": c.partials,
            "layers": M.layers_for(NAME_SETS[nameset], masks, tuple(nil_layer) if nil_layer else None)}


def family_of(nameset: str) -> str:
    if nameset == "vw":
        return "scope"
    if nameset in ("now", "today"):
        return "builtin"
    return "loopvar" if nameset == "loop" else "special-name"


_CROSSING: dict[tuple[str, int], list[M.Forest]] = {}


def crossing_forests(alpha: str, n: int) -> list[M.Forest]:
    """The forests in which a break / continue reaches its loop through an include (or the loop is a tablerow)."""
    key = (alpha, n)
    if key not in _CROSSING:
        _CROSSING[key] = [f for f in M.forests(alpha, n) if M.interrupt_crosses(f)]
    return _CROSSING[key]


def run_scope_job(res: Result, alpha: str, n: int, lo: int, hi: int, nameset: str, cfg: str, undef: str, load: str,
                  mode: str = "") -> None:
    """mode '' = plain; 'cross' = only forests with an interrupt crossing an include / in a tablerow;
    'nil' = every single nil-capable op in turn, all of them together, and every populated layer in turn binds
    nil; 'nilops' = the op part of 'nil' only."""
    names = NAME_SETS[nameset]
    fs = crossing_forests(alpha, n) if mode == "cross" else M.forests(alpha, n)
    fam = family_of(nameset)
    for idx in range(lo, hi):
        forest = fs[idx]
        if nameset == "loop" and loop_conflict(forest, names):
            res.count("unspecified_excluded", len(CONFIGS[cfg]))
            res.count("excluded:loop_variable_named_like_its_loop_object", len(CONFIGS[cfg]))
            continue
        tolerant = M.interrupt_crosses(forest) if alpha in M.XBRK_ALPHAS else False
        # variants: (nil op indexes, nil layers to run: None = no nil layer, "each" = every populated layer in turn)
        variants: list[tuple[frozenset, bool]] = []
        if mode in ("nil", "nilops"):
            pos = M.nil_positions(forest)
            variants = [(frozenset({k}), False) for k in pos]
            if len(pos) > 1:
                variants.append((frozenset(pos), False))
            if mode == "nil":
                variants.append((frozenset(), True))
        else:
            variants = [(frozenset(), False)]
        res.count("programs")
        for nil_ops, each_layer in variants:
            c = M.compile_program(forest, names, nil_ops)
            cache: dict[Any, Any] = {}
            for mv in CONFIGS[cfg]:
                masks = (mv, w_mask(mv))
                nil_layers: list[Optional[tuple[int, str]]] = [None]
                if each_layer:
                    nil_layers = [(j, ly) for j in (0, 1) for i, ly in enumerate(M.LAYERS) if masks[j] >> i & 1]
                for nl in nil_layers:
                    viols, info = eval_scope(c, names, mv, undef, load, cache, nl, tolerant)
                    st = info["stats"]
                    res.count("renders", 2)
                    res.count("probe_values_compared", st.get("compared", 0))
                    if info["excluded"]:
                        res.count("unspecified_excluded", info["excluded"])
                        res.count("excluded:interrupt_through_include_or_tablerow_did_not_end_the_iteration", info["excluded"])
                    if st.get("unspec"):
                        res.count("unspecified_excluded", st["unspec"])
                        res.count("excluded:probe_inside_macro_unspecified", st["unspec"])
                    if st.get("builtin"):
                        res.count("builtin_now_today_value_not_compared", st["builtin"])
                    isnil = bool(nil_ops) or nl is not None
                    if isnil:
                        res.count("nil_binding_shadows_outer_binding", st.get("nil_shadows", 0))
                        hit = st.get("nil_shadows")
                    else:
                        hit = st.get("shadowed")
                    nontrivial = [fam, alpha, forest, mv, undef, load, sorted(nil_ops), nl] if hit else None
                    label = (f"{fam}{'-nil' if isnil else ''}{'-cross' if tolerant else ''}:" + "+".join(sorted(info["clauses"]))
                             + (":viol" if viols else ":ok"))
                    sample = None
                    if idx == (lo + hi) // 2 and mv == CONFIGS[cfg][-1] and nl == nil_layers[-1]:
                        sample = scope_case(alpha, forest, nameset, mv, undef, load, c, nil_ops, nl)
                    res.case(nontrivial=nontrivial, outcome=label, sample=sample)
                    for sig, what in viols:
                        sig = {**sig, "family": fam}
                        if isnil:
                            sig["nil"] = ("layer:" + nl[1]) if nl else "+".join(sorted({M.KIND_WORD[t[0]] for k, t in enumerate(
                                M.iter_nodes(forest)) if k in nil_ops}))
                        if tolerant:
                            sig["interrupt"] = "through-include-or-tablerow"
                        res.violation(sig, what, scope_case(alpha, forest, nameset, mv, undef, load, c, nil_ops, nl))
            res.count("templates", len(cache))


# ---------------------------------------------------------------------------
# paths
# ---------------------------------------------------------------------------
PATH_BATCH = 48
_PATHS: dict[tuple[str, bool, bool, int], list[tuple[int, ...]]] = {}


def paths(root: str, ss: bool, sfl: bool, max_segs: int) -> list[tuple[int, ...]]:
    key = (root, ss, sfl, max_segs)
    if key not in _PATHS:
        _PATHS[key] = P.gen_paths(root, ss, sfl, max_segs)
    return _PATHS[key]


def path_env(ss: bool, sfl: bool, undef: str = "marker") -> Any:
    key = ("path", ss, sfl, undef)
    env = _ENVS.get(key)
    if env is None:
        kw: dict[str, Any] = {"extra": True}
        if undef == "marker":
            kw["undefined"] = MarkerUndefined
        env = util.make_env(flags={"string_sequences": ss, "string_first_and_last": sfl}, **kw)
        if "json" not in env.filters:
            raise RuntimeError("harness binding lost: Environment(extra=True) has no 'json' filter")
        if env.string_sequences is not ss or env.string_first_and_last is not sfl:
            raise RuntimeError("harness binding lost: string_* class attributes")
        _ENVS[key] = env
    return env


def is_excluded(want: dict[str, Any]) -> bool:
    r = want["result"]
    return isinstance(r, tuple) and bool(r) and r[0] == "excluded"


def path_probe(root: str, segs: tuple[int, ...], want: dict[str, Any]) -> str:
    src = P.path_source(root, segs)
    if want["result"] is P.UNDEF or is_excluded(want):
        return f"{{{{ {src} }}}}"
    return f"{{{{ {src} | json }}}}"


def path_ok(want: dict[str, Any], text: str, ut: str) -> bool:
    if want["result"] is P.UNDEF:
        return text == ut
    try:
        got = json.loads(text)
    except ValueError:
        return False
    return got == want["result"] and type(got) is type(want["result"])


def eval_path_single(root: str, segs: tuple[int, ...], ss: bool, sfl: bool, undef: str) -> list[tuple[dict[str, Any], str]]:
    want = P.walk(root, segs, ss, sfl)
    env = path_env(ss, sfl, undef)
    ut = undef_text(undef)
    src = P.PREFIX + path_probe(root, segs, want)
    t = util.parse(env, src)
    outs = {api: t if not t.ok else (util.render(t.value, P.DATA) if api == "sync" else util.render_async(t.value, P.DATA))
            for api in ("sync", "async")}
    base = {"family": "path", "segment": want["seg"], "on": want["on"], "string_sequences": ss, "string_first_and_last": sfl}
    where = f"{src} (string_sequences={ss}, string_first_and_last={sfl})"
    if is_excluded(want):
        # the reference is silent here; render and render_async must still agree with each other
        if outs["sync"].kind() == outs["async"].kind():
            return []
        sig = {**base, "expected": "sync-async-equal", "observed": "differ", "api": "async"}
        return [(sig, f"{where} -> render gives {outs['sync'][:3]!r} but render_async gives {outs['async'][:3]!r} "
                      f"({want['result'][1]}: value not specified, but both APIs must agree)")]
    per_api: dict[str, list[tuple[str, str, str, str]]] = {}
    wanted = "undefined" if want["result"] is P.UNDEF else "defined"
    for api, o in outs.items():
        if not o.ok:
            per_api[api] = [("no-error", o.error_class or "?", "-", f"{o[1]}: {o[2]}")]
        elif not path_ok(want, o.value, ut):
            obs = "undefined" if o.value == ut else "value"
            exp_txt = repr(ut) + " (undefined)" if wanted == "undefined" else json.dumps(want["result"])
            per_api[api] = [(wanted, obs, "-", f"rendered {o.value!r}, expected {exp_txt}")]
    out = []
    for clause, observed, _, api, text in merge_apis(per_api):
        sig = {**base, "expected": clause, "observed": observed, "api": api}
        out.append((sig, f"{where} -> {text}; deciding step: {want['seg']} on {want['on']} [{api}]"))
    return out


def run_path_job(res: Result, root: str, ss: bool, sfl: bool, undef: str, max_segs: int, lo: int, hi: int) -> None:
    env = path_env(ss, sfl, undef)
    ut = undef_text(undef)
    ps = paths(root, ss, sfl, max_segs)
    batch: list[tuple[tuple[int, ...], dict[str, Any]]] = []

    def flush() -> None:
        if not batch:
            return
        src = P.PREFIX + "\n".join(path_probe(root, segs, want) for segs, want in batch)
        t = util.parse(env, src)
        res.count("templates")
        res.count("renders", 2)
        bad: set[int] = set()
        lines: dict[str, Optional[list[str]]] = {}
        for api in ("sync", "async"):
            o = t if not t.ok else (util.render(t.value, P.DATA) if api == "sync" else util.render_async(t.value, P.DATA))
            ls = o.value.split("\n") if o.ok else None
            lines[api] = ls if ls is not None and len(ls) == len(batch) else None
        if lines["sync"] is None or lines["async"] is None:
            bad.update(range(len(batch)))
        else:
            for i, (_, want) in enumerate(batch):
                if is_excluded(want):
                    if lines["sync"][i] != lines["async"][i]:
                        bad.add(i)
                elif not (path_ok(want, lines["sync"][i], ut) and path_ok(want, lines["async"][i], ut)):
                    bad.add(i)
        for i, (segs, want) in enumerate(batch):
            viols = eval_path_single(root, segs, ss, sfl, undef) if i in bad else []
            if is_excluded(want):
                res.count("unspecified_excluded")
                res.count("excluded:" + str(want["result"][1]).replace(" ", "_"))
                res.count("excluded_cells_checked_sync_equals_async")
                kind = "unspecified"
            else:
                kind = "undefined" if want["result"] is P.UNDEF else P.type_name(want["result"])
            label = f"path:{want['seg']}-on-{want['on']}->{kind}" + (":viol" if viols else ":ok")
            nontrivial = ["path", root, segs, ss, sfl, undef] if want["depth"] >= 2 else None
            sample = None
            if i == 0 and len(segs) == max_segs and want["depth"] >= 2:
                sample = {"family": "path", "path": P.path_source(root, segs), "flags": [ss, sfl], "expected":
                          "undefined" if want["result"] is P.UNDEF else want["result"]}
            res.case(nontrivial=nontrivial, outcome=label, sample=sample)
            for sig, what in viols:
                res.violation(sig, what, {"family": "path", "root": root, "segs": list(segs), "ss": ss, "sfl": sfl,
                                          "undef": undef, "path": P.path_source(root, segs)})
        batch.clear()

    for idx in range(lo, hi):
        segs = ps[idx]
        batch.append((segs, P.walk(root, segs, ss, sfl)))
        if len(batch) >= PATH_BATCH:
            flush()
    flush()


# ---------------------------------------------------------------------------
# the check
# ---------------------------------------------------------------------------
def plan(tier: str) -> list[tuple[int, tuple[Any, ...]]]:
    """[(cost, job)] covering the whole bounded space of the tier; cost ~ number of renders."""
    jobs: list[tuple[int, tuple[Any, ...]]] = []

    def scope(alpha: str, n: int, nameset: str, cfg: str, undef: str, load: str, chunk: int, mode: str = "") -> None:
        total = len(crossing_forests(alpha, n) if mode == "cross" else M.forests(alpha, n))
        per = len(CONFIGS[cfg]) * (1 + n) * ({"nil": 6, "nilops": 3}.get(mode, 1))
        for lo in range(0, total, chunk):
            hi = min(total, lo + chunk)
            jobs.append(((hi - lo) * per, ("scope", alpha, n, lo, hi, nameset, cfg, undef, load, mode)))

    quick = tier == "quick"
    for n in (0, 1, 2):
        scope("two", n, "vw", "all16", "marker", "string", 150)
        scope("two", n, "vw", "all16", "marker", "loader", 150)
        scope("two", n, "vw", "four" if quick else "all16", "default", "string", 150)
        scope("two", n, "vw", "all16", "marker", "cached1", 150)
        scope("two", n, "vw", "four" if quick else "all16", "marker", "cached2", 150)
        for ns in ("size", "first", "last"):
            scope("onef", n, ns, "all16", "marker", "string", 150)
        for ns in ("now", "today"):
            scope("onef", n, ns, "all16", "marker", "string", 150)
        scope("two", n, "loop", "all16", "marker", "string", 150)
    for n in (1, 2, 3, 4):
        scope("brk", n, "vw", "pair01", "marker", "string", 600)
    for n in (2, 3, 4):
        scope("xbrk", n, "vw", "pair01", "marker", "string", 300, mode="cross")
    for n in (1, 2):
        scope("two", n, "vw", "all16", "marker", "string", 40, mode="nil")
    if quick:
        scope("one", 3, "vw", "all16", "marker", "string", 100)
        scope("one", 3, "vw", "m15", "marker", "string", 600, mode="nilops")
        scope("two", 3, "vw", "pair01", "marker", "string", 600)
        scope("core", 4, "vw", "pair01", "marker", "string", 600)
    else:
        scope("two", 3, "vw", "all16", "marker", "string", 100)
        scope("two", 3, "vw", "two", "marker", "string", 300, mode="nil")
        scope("two", 3, "vw", "four", "default", "loader", 400)
        scope("onef", 4, "vw", "all16", "marker", "string", 100)
        scope("core2", 4, "vw", "pair01", "marker", "string", 600)
        for ns in ("now", "today"):
            scope("onef", 3, ns, "four", "marker", "string", 400)
        scope("two", 3, "loop", "four", "marker", "string", 400)
    max_segs = 3 if quick else 4
    chunk = 3000 if quick else 20000
    for root in P.ROOTS:
        for ss in (False, True):
            for sfl in (False, True):
                total = len(paths(root, ss, sfl, max_segs))
                for undef in ("marker", "default"):
                    if undef == "default" and (ss != sfl):
                        continue  # the default Undefined runs under the two diagonal flag settings
                    for lo in range(0, total, chunk):
                        hi = min(total, lo + chunk)
                        jobs.append(((hi - lo) // 6, ("path", root, ss, sfl, undef, max_segs, lo, hi)))
    return jobs


class C14(Check):
    id = "C14"
    level = "exploration"
    rule = (
        "scope: every forest of binding ops (assign, capture, increment, decrement, for, tablerow, with, "
        "include..with..as, include kwarg, include..for..as, plain include, if, macro parameter+call, capture "
        "with ops inside = 14 op kinds) with a probe of both names before/inside/after every op, rendered (sync "
        "and async) under independent subsets of the four global layers. quick = all forests of <=2 ops over "
        "{v,w} (26 symbols) x 16 layer subsets x {marker Undefined via from_string, marker via a loader "
        "supplying matter, marker via a caching loader (docs CachingLoaderMixin) asked for the same name first "
        "with other template globals [and then with none: 4 subsets] so that the rendered template's globals "
        "are those of the LAST request, default Undefined (4 subsets)}; all forests of 3 ops over v (13 kinds) x 16 subsets; all forests "
        "of 3 ops over {v,w} x 2 subsets (none / render argument); all forests of 4 ops over v on the 9-kind "
        "core alphabet (assign, increment, for, tablerow, with, include kwarg, plain include, macro, capture "
        "block) x 2 subsets; all forests of <=4 ops over {assign, break, continue, for, with, if} (scopes left "
        "through an interrupt); the <=2-op forests again over the names now / today (user binding shadows the "
        "built-in, built-in shadows a counter), forloop / tablerowloop, and size / first / last (a variable named like "
        "a special path property is an ordinary name: unbound or after its block it is undefined); every forest of <=4 ops over {assign, "
        "break, continue, for, tablerow, with, include..with, include kwarg, plain include} in which a break / "
        "continue reaches its loop through an included partial or sits in a tablerow (3006 forests) x 2 subsets "
        "(compared when the interrupt ended the iteration as modelled, else excluded); nil bindings: on every "
        "forest of <=2 ops over {v,w} x 16 subsets each nil-capable op in turn (assign nil, nil first loop item "
        "of for / tablerow / include..for, with v: nil, include..with nil, include v: nil, macro argument nil), "
        "all of them together, and each populated layer of v and of w in turn (render argument None, matter, "
        "template global, environment global) binds nil; on every forest of 3 ops over v x all four layers "
        "populated the op part again -- the innermost binding wins although it is nil (renders empty, not the "
        "marker of undefined, not the outer value). thorough = 3 ops over {v,w} x 16 "
        "subsets, 4 ops over v (14 kinds) x 16 subsets, 4 ops over {v,w} on the core alphabet x 2 subsets. "
        "paths: root + 1..3 segments (thorough 4) over 32 segment forms (incl. negative indexes just inside and "
        "just outside every array length, literally and through index variables, and size by name) x 10 roots "
        "(incl. a hash with keys named size/first/last and a variable holding an undefined value), at most one "
        "segment after the first missing position, x the four "
        "string_sequences/string_first_and_last settings. Non-trivial = a scope case in which at least one "
        "probed name has two or more live bindings at the probe (the winner shadows another), identity = "
        "(family, forest, layer subset, undefined, load mode); a path case whose first two segments resolve "
        "to defined values, identity = (root, segments, flags)."
    )
    assumptions = [
        "names beyond {v,w,now,today,forloop,tablerowloop} and values beyond the distinct markers used behave alike",
        "an Undefined subclass whose __str__ returns a marker (documented customisation) does not change lookup; "
        "the default Undefined (renders empty) is run on the <=2-op programs and on the paths",
        "not generated (statement/docs silent or C15/C27 territory): include inside a macro (disabled tag), "
        "increment/decrement inside a macro, nested macros, tablerow inside a capture (HTML whitespace "
        "undocumented), render tag, macro defaults/keyword arguments, include..with of an array value, break/"
        "continue anywhere but in a for body or with/if blocks of that body",
        "excluded and counted: a macro parameter re-assigned inside the macro body, visibility of the caller's "
        "counters inside a macro, `for forloop in` / `tablerow tablerowloop in`, .first/.last on a hash that has no such key, "
        "negative index into a string (these two are still executed: render and render_async must agree); the value of the built-in now/today is never compared",
        "nil renders as the empty string; whether a break/continue raised inside an included partial or a tablerow "
        "ends the iteration is not documented: such renders are compared only when their probe sequence is the "
        "model's (always the case on the current tree), otherwise excluded and counted",
        "front matter > template globals is documented in docs/render_context.md (Matter), so it is asserted",
    ]

    def bounds(self, tier: str) -> dict[str, Any]:
        q = tier == "quick"
        return {
            "ops_two_names": "all forests of <=2 ops (26 symbols) x 16 layer subsets x {from_string, loader with matter, caching "
            "loader after a request with other globals} + 4 subsets x {default Undefined, caching loader after two requests}; "
            "all forests of 3 ops x " + ("2 subsets" if q else "16 subsets (+4 subsets with default Undefined via loader); "
                                         "all forests of 4 ops on the 9-kind core alphabet x 2 subsets"),
            "ops_one_name": ("all forests of 3 ops (13 kinds) x 16 subsets; all forests of 4 ops on the 9-kind core "
                             "alphabet x 2 subsets" if q else "all forests of 4 ops (14 kinds) x 16 subsets"),
            "interrupts": "all forests of <=4 ops over {assign, break, continue, for, with, if} x 2 subsets; all forests of "
            "<=4 ops over 9 kinds with a break/continue inside an included partial or a tablerow x 2 subsets",
            "nil_bindings": "forests of <=2 ops x 16 subsets x (each nil-capable op, all ops, each populated layer of v / w); "
            + ("forests of 3 ops over v x 1 subset x (each op, all ops)" if q else
               "forests of 3 ops over {v,w} x 2 subsets x (each op, all ops, each layer)"),
            "builtin_and_loop_names": "all forests of <=2 ops x 16 subsets over (now,w), (today,w), (forloop,tablerowloop), "
            "(size,w), (first,w), (last,w)"
            + ("" if q else "; 3 ops x 4 subsets"),
            "paths": f"root + 1..{3 if q else 4} segments, 32 segment forms, 10 roots, <=1 segment after the first missing position, 4 flag settings (marker Undefined) "
            "+ 2 flag settings (default Undefined)",
        }

    def shards(self, tier: str) -> list[Any]:
        jobs = plan(tier)
        target = 9000 if tier == "quick" else 60000
        shards: list[list[Any]] = []
        cur: list[Any] = []
        cost = 0
        for c, j in jobs:
            if cur and cost + c > target:
                shards.append(cur)
                cur, cost = [], 0
            cur.append(j)
            cost += c
        if cur:
            shards.append(cur)
        return shards

    def run_shard(self, shard: Any, tier: str) -> Result:
        res = Result()
        util.reset_memo()
        for job in shard:
            if job[0] == "scope":
                run_scope_job(res, *job[1:])
            elif job[0] == "path":
                run_path_job(res, *job[1:])
            else:
                raise AssertionError(job)
        return res

    def replay(self, case: Any) -> list[dict[str, Any]]:
        out: list[tuple[dict[str, Any], str]] = []
        if case["family"] == "scope":
            names = NAME_SETS[case["nameset"]]
            forest = M.to_forest(case["forest"])
            nil_ops = frozenset(case.get("nil_ops") or ())
            nl = tuple(case["nil_layer"]) if case.get("nil_layer") else None
            c = M.compile_program(forest, names, nil_ops)
            print(f"template: {c.source}\npartials: {c.partials}\nlayers: {case.get('layers')}")
            tolerant = M.interrupt_crosses(forest) if case["alpha"] in M.XBRK_ALPHAS else False
            viols, _ = eval_scope(c, names, case["mask_v"], case["undef"], case["load"], None, nl, tolerant)
            out = [({**s, "family": family_of(case["nameset"])}, w) for s, w in viols]
        elif case["family"] == "path":
            print(f"path: {case.get('path')}  data: {P.DATA}")
            out = eval_path_single(case["root"], tuple(case["segs"]), case["ss"], case["sfl"], case["undef"])
        else:
            raise ValueError(case["family"])
        return [{"signature": s, "what": w, "case": case} for s, w in out]


CHECK = C14()
