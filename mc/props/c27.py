"""C27 -- macro calls and with blocks bind arguments as documented.

Bounded exhaustive enumeration on the real implementation (``Environment(extra=True)``):

* family ``bind``: every macro signature (0..3 distinct parameters over {p,q,r}, in every order,
  each without default / literal default / outer-variable default) x every call (0..4
  positional, 0..3 keyword arguments with names over {p,q,r,x,y} including duplicates and
  non-parameters, in every textual interleaving of positional and keyword arguments).  All
  argument values are distinct literals (the 2nd positional is an outer variable), the macro
  body prints every parameter, ``args`` and the ``kwargs`` pairs, and the rendered text is
  parsed back and compared with the reference binder of ``mc/ref/c27_model.py``.  Calls are
  rendered eight to a template (same macro), so independence of successive calls is checked
  too; any deviation is re-run alone to tell a binding error from a cross-call leak.
  Side dimensions: where an outer-variable default gets its value (render argument / assign
  before the macro / re-assigned after the macro = documented late binding), the default
  ``Undefined`` (renders empty) versus a marker subclass, quoted macro name + comma style,
  render arguments named like the parameters (an unbound parameter is undefined, not the global).
* families ``falsy`` (nil/false/'' arguments still bind), ``dispatch`` (two macros, calls go to
  the named one, repeated calls), ``order`` (calls before definition and to unknown macros
  are executed but *excluded*: neither statement nor docs say what they render; the call
  after them must still bind), ``cross`` (call arguments that read a ``with`` variable).
* family ``with``: every forest of <= 3 (thorough: 4) ``with`` tags over names {v,w} (six
  argument lists per tag: literal or copy of the other name) plus every forest of <= 2 (thorough: 3)
  tags that uses at least one of six *sibling-reference* argument lists (``v: 'L', w: v`` in both
  orders, and the swap ``v: w, w: v``: argument expressions are not inside the block, so they see
  the enclosing scope), a probe printing v and w at the
  start of every block, between and after blocks, under every outer binding of v and w
  (unbound / render argument / assign / capture), inside a ``for`` whose loop variable is v
  and inside a macro whose parameter is v.  Oracle: reference scope stack.

Both ``render`` and ``render_async`` are executed for every template.
"""

from __future__ import annotations

from typing import Any
from typing import Optional

from liquid import Undefined

from mc import util
from mc.core import Check
from mc.core import Result
from mc.ref import c27_model as M

BATCH = 8
SEP = "~"


class MarkerUndefined(Undefined):
    """Documented customisation point (docs/variables_and_drops.md): makes 'undefined' visible."""

    def __str__(self) -> str:
        return M.UNDEF


_ENVS: dict[str, Any] = {}


SHADOW_DATA = {"p": "Xp", "q": "Xq", "r": "Xr"}  # render arguments named like the parameters


def get_env(kind: str) -> Any:
    kind = kind.split("+")[0]
    env = _ENVS.get(kind)
    if env is None:
        if kind == "marker":
            env = util.make_env(extra=True, undefined=MarkerUndefined)
        else:
            env = util.make_env(extra=True)
        for tag in ("macro", "call", "with"):
            if tag not in env.tags:
                raise RuntimeError(f"harness binding lost: Environment(extra=True) has no {tag!r} tag")
        _ENVS[kind] = env
    return env


def undef_text(envk: str) -> str:
    return M.UNDEF if envk.split("+")[0] == "marker" else ""


SIGS = M.signatures()
CANON = [i for i, s in enumerate(SIGS) if M.is_canonical(s)]
_CALLSETS: dict[str, list[M.Call]] = {}


def callset(name: str) -> list[M.Call]:
    cs = _CALLSETS.get(name)
    if cs is None:
        if name == "all":
            cs = M.calls("all")
        elif name == "edge":
            cs = M.calls("edge")
        elif name == "last":
            cs = M.calls("last")
        elif name == "last2":
            cs = M.calls("last", max_kw=2)
        elif name == "last1":
            cs = M.calls("last", max_kw=1)
        elif name == "small":
            cs = M.calls("last", max_pos=2, max_kw=2)
        else:
            raise KeyError(name)
        _CALLSETS[name] = cs
    return cs


def is_uniform_prefix(sig: M.Sig) -> bool:
    """(), (p), (p,q), (p,q,r) with one default kind throughout: the quick tier runs every textual
    interleaving of positional and keyword arguments only for these 10 signatures (the split into
    positional and keyword arguments happens before, and independently of, the signature)."""
    return [n for n, _ in sig] == list(M.PNAMES[: len(sig)]) and len({k for _, k in sig}) <= 1


FALSY = (("nil", ""), ("false", "false"), ("''", ""))
DISPATCH_T: list[M.Sig] = [
    (),
    (("r", "none"), ("q", "lit"), ("p", "none")),
    (("q", "none"),),
    (("p", "var"), ("q", "var"), ("r", "var")),
]


# ---------------------------------------------------------------------------
# execution helpers
# ---------------------------------------------------------------------------
def render_both(envk: str, src: str, data: dict[str, Any]) -> dict[str, util.Outcome]:
    env = get_env(envk)
    t = util.parse(env, src)
    if not t.ok:
        return {"sync": t, "async": t}
    return {"sync": util.render(t.value, data), "async": util.render_async(t.value, data)}


def err_text(o: util.Outcome) -> str:
    return f"{o[1]}: {o[2]}"


def merge_apis(per_api: dict[str, list[tuple[str, str, str]]]) -> list[tuple[str, str, str, str]]:
    """[(clause, feature, api, text)] with api='both' when sync and async fail the same way."""
    keys: dict[tuple[str, str], dict[str, str]] = {}
    for api, bads in per_api.items():
        for clause, feature, text in bads:
            keys.setdefault((clause, feature), {}).setdefault(api, text)
    out = []
    for (clause, feature), apis in keys.items():
        api = "both" if len(apis) == 2 else next(iter(apis))
        out.append((clause, feature, api, next(iter(apis.values()))))
    return out


def check_segments(sig: M.Sig, exps: list[M.Expected], o: util.Outcome,
                   prefix: str = "") -> Optional[list[tuple[list[tuple[str, str, str]], bool]]]:
    """Per call: (deviations, kwargs_in_call_order); None when the output cannot be split."""
    if not o.ok:
        return None
    segs = o.value.split(SEP)
    if len(segs) != len(exps):
        return None
    out = []
    for exp, seg in zip(exps, segs):
        if prefix:
            if not seg.startswith(prefix):
                out.append(([("dispatch", "wrong-macro", f"rendered {seg!r}")], True))
                continue
            seg = seg[len(prefix):]
        out.append(M.compare_segment(sig, exp, seg))
    return out


class BindSpec:
    """One batch: a macro (sig, mode, env, style) and the calls rendered after it."""

    def __init__(self, sig: M.Sig, calls: list[M.Call], mode: str = "G", envk: str = "marker", style: int = 0,
                 falsy: Optional[int] = None) -> None:
        self.sig, self.calls, self.mode, self.envk, self.style, self.falsy = sig, calls, mode, envk, style, falsy
        self.pos_src, self.pos_out, self.kw_src, self.kw_out = M.POS_SRC, M.POS_OUT, M.KW_SRC, M.KW_OUT
        if falsy is not None:
            fs, fo = FALSY[falsy]
            self.pos_src, self.pos_out = (fs,) + M.POS_SRC[1:], (fo,) + M.POS_OUT[1:]
            self.kw_src, self.kw_out = (fs,) + M.KW_SRC[1:], (fo,) + M.KW_OUT[1:]

    def head(self) -> tuple[str, dict[str, Any]]:
        pre, post, data = M.mode_prefix(self.sig, self.mode)
        if self.envk.endswith("+g"):
            # "otherwise to undefined": an unbound parameter must not fall through to a global
            data.update(SHADOW_DATA)
        return pre + M.macro_source(self.sig, style=self.style) + post, data

    def call_src(self, c: M.Call) -> str:
        return M.call_source(c, style=self.style, pos_src=self.pos_src, kw_src=self.kw_src)

    def source(self, calls: Optional[list[M.Call]] = None) -> tuple[str, dict[str, Any]]:
        head, data = self.head()
        return head + SEP.join(self.call_src(c) for c in (self.calls if calls is None else calls)), data

    def expected(self, c: M.Call) -> M.Expected:
        return M.ref_bind(self.sig, c, self.mode, undef_text(self.envk), self.pos_out, self.kw_out)

    def describe(self, i: int) -> dict[str, Any]:
        src, data = self.source()
        return {"family": "falsy" if self.falsy is not None else "bind", "sig": [list(x) for x in self.sig],
                "calls": [[c[0], list(c[1])] for c in self.calls], "index": i, "mode": self.mode,
                "env": self.envk, "style": self.style, "falsy": self.falsy, "source": src, "data": data}


def eval_single(spec: BindSpec, c: M.Call) -> dict[str, list[tuple[str, str, str]]]:
    src, data = spec.source([c])
    outs = render_both(spec.envk, src, data)
    exp = spec.expected(c)
    per_api: dict[str, list[tuple[str, str, str]]] = {}
    for api, o in outs.items():
        if not o.ok:
            per_api[api] = [("no-error", o.error_class or "?", f"{err_text(o)}")]
            continue
        per_api[api] = M.compare_segment(spec.sig, exp, o.value)[0]
    return per_api


def eval_bind(spec: BindSpec) -> list[dict[str, Any]]:
    """-> per call {"exp", "viols": [(signature, what)], "kw_in_order"}."""
    src, data = spec.source()
    outs = render_both(spec.envk, src, data)
    exps = [spec.expected(c) for c in spec.calls]
    checked = {api: check_segments(spec.sig, exps, o) for api, o in outs.items()}
    family = "falsy" if spec.falsy is not None else "bind"
    results = []
    for i, c in enumerate(spec.calls):
        batched: dict[str, list[tuple[str, str, str]]] = {}
        in_order = True
        need_single = False
        for api in ("sync", "async"):
            ch = checked[api]
            if ch is None:
                need_single = True
            else:
                batched[api] = ch[i][0]
                in_order = in_order and ch[i][1]
                if ch[i][0]:
                    need_single = True
        viols: list[tuple[dict[str, Any], str]] = []
        if need_single:
            single = eval_single(spec, c)
            base = {"family": family, "env": spec.envk, "style": spec.style, "default_source": spec.mode}
            call_txt = spec.call_src(c)
            head = spec.head()[0]
            for clause, feature, api, text in merge_apis(single):
                viols.append(({**base, "clause": clause, "feature": feature, "api": api, "batched_only": False},
                              f"{head}{call_txt} -> {text} [{api}]"))
            if not viols:
                # alone the call is right: the deviation needs the preceding calls of the batch
                for api in ("sync", "async"):
                    if checked[api] is None:
                        o = outs[api]
                        text = err_text(o) if not o.ok else f"batch rendered {o.value!r}"
                        batched[api] = [("call-independence", "batch-failed", text)]
                for clause, feature, api, text in merge_apis(batched):
                    viols.append(({**base, "clause": "call-independence", "feature": f"{clause}:{feature}",
                                   "api": api, "batched_only": True},
                                  f"{src} -> call #{i + 1} ({call_txt}) {text}, but the same call alone binds "
                                  f"correctly [{api}]"))
        results.append({"exp": exps[i], "viols": viols, "kw_in_order": in_order})
    return results


def run_bind_job(res: Result, sig_idx: int, cs_name: str, lo: int, hi: int, mode: str, envk: str, style: int,
                 falsy: Optional[int] = None) -> None:
    sig = SIGS[sig_idx]
    cs = callset(cs_name)[lo:hi]
    if falsy is not None:
        # a falsy surplus positional inside `args | join` is not something the statement fixes
        keep = [c for c in cs if not (len(sig) == 0 and c[0].count("P") >= 1)]
        res.count("unspecified_excluded", len(cs) - len(keep))
        res.count("excluded:falsy_surplus_positional", len(cs) - len(keep))
        cs = keep
    for b in range(0, len(cs), BATCH):
        chunk = cs[b : b + BATCH]
        spec = BindSpec(sig, chunk, mode, envk, style, falsy)
        out = eval_bind(spec)
        res.count("templates", 1)
        res.count("renders", 2)
        for i, (c, r) in enumerate(zip(chunk, out)):
            exp = r["exp"]
            mech = sorted(exp.mech)
            nontrivial = None
            if exp.mech - {"pos"}:
                nontrivial = ["falsy" if falsy is not None else "bind", sig, c, mode, envk, style, falsy]
            label = f"{'falsy' if falsy is not None else 'bind'}:{'+'.join(mech) or 'noargs'}:" + (
                "viol" if r["viols"] else "ok")
            sample = None
            if b == (len(cs) // 2 // BATCH) * BATCH and i == len(chunk) - 1:
                sample = {"template": spec.source()[0], "data": spec.source()[1], "env": envk}
            res.case(nontrivial=nontrivial, outcome=label, sample=sample)
            if "dup" in exp.mech:
                res.count("dup_keyword_either_occurrence_accepted")
            if exp.kwargs and len(exp.kwargs) > 1:
                res.count("kwargs_order_unspecified:" + ("call-order" if r["kw_in_order"] else "other-order"))
            for s, what in r["viols"]:
                res.violation(s, what, spec.describe(i))


# ---------------------------------------------------------------------------
# dispatch / order / cross
# ---------------------------------------------------------------------------
def eval_dispatch(sig_idx: int, t_idx: int, c: M.Call) -> tuple[list[tuple[dict[str, Any], str]], dict[str, Any]]:
    s, t = SIGS[sig_idx], DISPATCH_T[t_idx]
    _, _, data = M.mode_prefix(tuple((n, "var") for n in M.PNAMES), "G")
    src = (M.macro_source(s, "m") + M.macro_source(t, "n", body="N" + M.macro_body(t))
           + SEP.join([M.call_source(c, "m"), M.call_source(c, "n"), M.call_source(c, "m")]))
    outs = render_both("marker", src, data)
    es, et = M.ref_bind(s, c), M.ref_bind(t, c)
    per_api: dict[str, list[tuple[str, str, str]]] = {}
    for api, o in outs.items():
        if not o.ok:
            per_api[api] = [("no-error", o.error_class or "?", err_text(o))]
            continue
        segs = o.value.split(SEP)
        if len(segs) != 3:
            per_api[api] = [("output-shape", "segments", f"rendered {o.value!r}")]
            continue
        bads: list[tuple[str, str, str]] = []
        for which, sg, ex, seg, pre in (("m#1", s, es, segs[0], ""), ("n", t, et, segs[1], "N"),
                                        ("m#2", s, es, segs[2], "")):
            if not seg.startswith(pre) or (pre == "" and seg.startswith("N")):
                bads.append(("dispatch", "wrong-macro", f"call {which} rendered {seg!r}"))
                continue
            for clause, feature, text in M.compare_segment(sg, ex, seg[len(pre):])[0]:
                bads.append((clause, feature, f"call {which}: {text}"))
        per_api[api] = bads
    viols = [({"family": "dispatch", "clause": cl, "feature": ft, "api": api}, f"{src} -> {text} [{api}]")
             for cl, ft, api, text in merge_apis(per_api)]
    case = {"family": "dispatch", "sig_idx": sig_idx, "t_idx": t_idx, "call": [c[0], list(c[1])], "source": src,
            "data": data}
    return viols, case


def eval_order(sig_idx: int, c: M.Call) -> tuple[list[tuple[dict[str, Any], str]], dict[str, Any], str]:
    """call before definition ~ call to an unknown macro ~ call after definition (only this one is specified)."""
    s = SIGS[sig_idx]
    _, _, data = M.mode_prefix(s, "G")
    src = (M.call_source(c, "m") + SEP + M.macro_source(s, "m") + M.call_source(c, "zz") + SEP
           + M.call_source(c, "m"))
    outs = render_both("marker", src, data)
    exp = M.ref_bind(s, c)
    per_api: dict[str, list[tuple[str, str, str]]] = {}
    label = ""
    for api, o in outs.items():
        if not o.ok:
            label += f"{api}:error:{o.error_class};"
            per_api[api] = []  # what an unknown macro does (error included) is not specified
            continue
        segs = o.value.split(SEP)
        kinds = []
        for seg in segs[:2]:
            kinds.append("undefined" if seg == M.UNDEF else "empty" if seg == "" else "other")
        label += f"{api}:before={kinds[0] if kinds else '?'},unknown={kinds[1] if len(kinds) > 1 else '?'};"
        if len(segs) != 3:
            per_api[api] = []
            label += "unsplittable;"
            continue
        per_api[api] = M.compare_segment(s, exp, segs[2])[0]
    viols = [({"family": "order", "clause": cl, "feature": ft, "api": api},
              f"{src} -> last call: {text} [{api}]") for cl, ft, api, text in merge_apis(per_api)]
    case = {"family": "order", "sig_idx": sig_idx, "call": [c[0], list(c[1])], "source": src, "data": data}
    return viols, case, label


CROSS_SIGS: list[M.Sig] = [(("p", "none"),), (("p", "none"), ("q", "lit")), (("p", "lit"), ("q", "none"))]


def eval_cross(sig: M.Sig, outer: str) -> tuple[list[tuple[dict[str, Any], str]], dict[str, Any]]:
    pre, data, scope = M.outer_setup({"v": outer, "w": "none"})
    data.update(M.BASE_DATA)
    outer_v = scope["v"][0]
    # (call, positional sources, positional values, keyword sources, keyword values)
    calls: list[tuple[M.Call, tuple[str, ...], tuple[str, ...], tuple[str, ...], tuple[str, ...]]] = [
        (("P", ()), ("v",), ("W1",), (), ()),
        (("K", ("q",)), (), (), ("v",), ("W1",)),
        (("PPPK", ("x",)), ("11", "o2", "v"), ("11", "a2", "W1"), ("v",), ("W1",)),
        (("P", ()), ("v",), (outer_v,), (), ()),  # after endwith: the outer v again
    ]
    srcs = []
    exps = []
    for c, pos_src, pos_out, kw_src, kw_out in calls:
        srcs.append(M.call_source(c, "m", pos_src=pos_src, kw_src=kw_src))
        exps.append(M.ref_bind(sig, c, pos_out=pos_out, kw_out=kw_out))
    src = (pre + M.macro_source(sig, "m") + "{% with v: 'W1' %}" + SEP.join(srcs[:3]) + "{% endwith %}" + SEP
           + srcs[3])
    outs = render_both("marker", src, data)
    per_api: dict[str, list[tuple[str, str, str]]] = {}
    for api, o in outs.items():
        ch = check_segments(sig, exps, o)
        if ch is None:
            per_api[api] = [("no-error" if not o.ok else "output-shape", o.error_class or "segments",
                             err_text(o) if not o.ok else f"rendered {o.value!r}")]
            continue
        per_api[api] = [(cl, f"call#{i + 1}:{ft}", f"call #{i + 1}: {tx}") for i, (bads, _) in enumerate(ch)
                        for cl, ft, tx in bads]
    viols = [({"family": "cross", "clause": cl, "feature": ft, "api": api, "outer": outer},
              f"{src} -> {text} [{api}]") for cl, ft, api, text in merge_apis(per_api)]
    return viols, {"family": "cross", "sig": [list(x) for x in sig], "outer": outer, "source": src, "data": data}


# ---------------------------------------------------------------------------
# with
# ---------------------------------------------------------------------------
_FORESTS: dict[tuple[int, bool], list[M.Forest]] = {}
CTXS = M.with_contexts()


def forests(maxn: int, sibling: bool = False) -> list[M.Forest]:
    if (maxn, sibling) not in _FORESTS:
        _FORESTS[(maxn, sibling)] = M.forests(maxn, sibling)
    return _FORESTS[(maxn, sibling)]


def eval_with(ctx: dict[str, str], forest: M.Forest) -> tuple[list[tuple[dict[str, Any], str]], dict[str, Any]]:
    src, data, probes = M.with_case(ctx, forest)
    outs = render_both("marker", src, data)
    per_api: dict[str, list[tuple[str, str, str]]] = {}
    for api, o in outs.items():
        if not o.ok:
            per_api[api] = [("no-error", o.error_class or "?", err_text(o))]
            continue
        got = M.parse_probes(o.value)
        if got is None or len(got) != len(probes):
            per_api[api] = [("output-shape", "probes", f"rendered {o.value!r}, expected {len(probes)} probes")]
            continue
        bads = []
        for i, (g, e) in enumerate(zip(got, probes)):
            for j, name in enumerate(M.WNAMES):
                if g[j] != e[name][0]:
                    bads.append((e[name][1], f"{name}:outer={ctx[name]}",
                                 f"probe #{i + 1}: {name} rendered {g[j]!r}, expected {e[name][0]!r} ({e[name][1]})"))
        # one deviation per clause is enough
        seen: set[tuple[str, str]] = set()
        per_api[api] = [b for b in bads if not ((b[0], b[1]) in seen or seen.add((b[0], b[1])))]
    viols = [({"family": "with", "clause": cl, "feature": ft, "api": api, "wrapper": ctx["wrapper"]},
              f"{src} data={data} -> {text} [{api}]") for cl, ft, api, text in merge_apis(per_api)]
    return viols, {"family": "with", "ctx": ctx, "forest": forest, "source": src, "data": data}


def eval_withdup(ctx: dict[str, str]) -> tuple[list[tuple[dict[str, Any], str]], dict[str, Any]]:
    """``with v: 'D1', v: 'D2'``: either value inside (unspecified which), outer value afterwards."""
    pre, data, scope = M.outer_setup({"v": ctx["v"], "w": "none"})
    src = pre + "{% with v: 'D1', v: 'D2' %}[{{ v }}]{% endwith %}[{{ v }}]"
    outs = render_both("marker", src, data)
    per_api: dict[str, list[tuple[str, str, str]]] = {}
    want_after = scope["v"][0]
    for api, o in outs.items():
        if not o.ok:
            per_api[api] = [("no-error", o.error_class or "?", err_text(o))]
        elif o.value not in (f"[D1][{want_after}]", f"[D2][{want_after}]"):
            per_api[api] = [("duplicate-keyword", f"v:outer={ctx['v']}",
                             f"rendered {o.value!r}, expected [D1|D2][{want_after}]")]
        else:
            per_api[api] = []
    viols = [({"family": "withdup", "clause": cl, "feature": ft, "api": api}, f"{src} -> {text} [{api}]")
             for cl, ft, api, text in merge_apis(per_api)]
    return viols, {"family": "withdup", "ctx": ctx, "source": src, "data": data}


# ---------------------------------------------------------------------------
# the check
# ---------------------------------------------------------------------------
def plan(tier: str) -> list[tuple[int, tuple[Any, ...]]]:
    """[(cost in call units, job descriptor)] covering the whole bounded space of the tier."""
    jobs: list[tuple[int, tuple[Any, ...]]] = []
    n_all, n_edge = len(callset("all")), len(callset("edge"))
    side = "last2" if tier == "quick" else "edge"
    n_side = len(callset(side))
    chunk = 2500

    def bind(i: int, cs: str, n: int, mode: str, envk: str, style: int) -> None:
        for lo in range(0, n, chunk):
            hi = min(n, lo + chunk)
            jobs.append((hi - lo, ("bind", i, cs, lo, hi, mode, envk, style)))

    for i, sig in enumerate(SIGS):
        if tier == "thorough" or is_uniform_prefix(sig):
            bind(i, "all", n_all, "G", "marker", 0)
        else:
            bind(i, "edge", n_edge, "G", "marker", 0)
        if M.has_var_default(sig):
            for mode in ("A", "L"):
                if tier == "thorough":
                    bind(i, "all", n_all, mode, "marker", 0)
                else:
                    bind(i, side, n_side, mode, "marker", 0)
        bind(i, side, n_side, "G", "default", 0)
        bind(i, side, n_side, "G", "marker", 1)
        if sig:
            bind(i, side, n_side, "G", "marker+g", 0)
    n_small = len(callset("small"))
    n_l1, n_l2 = len(callset("last1")), len(callset("last2"))
    for i in CANON:
        for f in range(len(FALSY)):
            jobs.append((n_small, ("falsy", i, f)))
        jobs.append((3 * n_l1 * len(DISPATCH_T), ("dispatch", i)))
        jobs.append((3 * n_l2, ("order", i)))
    jobs.append((100, ("cross",)))
    jobs.append((20, ("withdup",)))
    for maxn, sib in ((3, False), (2, True)) if tier == "quick" else ((4, False), (3, True)):
        nf = len(forests(maxn, sib))
        for ci in range(len(CTXS)):
            for lo in range(0, nf, 1200):
                hi = min(nf, lo + 1200)
                jobs.append((2 * (hi - lo), ("with", ci, lo, hi, maxn, sib)))
    return jobs


class C27(Check):
    id = "C27"
    level = "exploration"
    rule = (
        "bind: product of every macro signature (ordered lists of 0..3 distinct parameters over {p,q,r}, each "
        "with no / literal / outer-variable default: 226) and every call (0..4 positional, 0..3 keyword "
        "arguments named over {p,q,r,x,y} with duplicates, in every textual interleaving: 9705); quick runs "
        "all interleavings for the 10 signatures (),(p),(p,q),(p,q,r) x uniform default kind and the "
        "keywords-last/keywords-first calls (1400) for the other 216, thorough the full product. Side dimensions on keywords-last calls: "
        "outer-variable default from assign / re-assigned after the macro (late binding), default Undefined, "
        "quoted-name+comma style, render arguments named like the parameters. Calls run 8 per template; a "
        "deviating call is re-run alone. "
        "falsy/dispatch/order/cross: nil,false,'' arguments; two macros; calls before definition and to "
        "unknown macros (executed, excluded, the following call checked); call arguments reading a with "
        "variable. with: every forest of <=3 (thorough 4) with tags x 6 argument lists per tag, plus every "
        "forest of <=2 (thorough 3) tags over 12 argument lists using at least one sibling reference "
        "(an argument expression naming a name the same tag binds: evaluated in the enclosing scope), "
        "x 22 outer contexts, probe in every gap. Every template is rendered with render and render_async. "
        "Non-trivial = a call where something other than plain in-order positional binding decides the "
        "output (surplus, keyword, keyword over positional, duplicate, default, undefined), or a template "
        "with at least one with tag; identity = (family, signature, call, dimensions)."
    )
    assumptions = [
        "parameter/argument names beyond {p,q,r,x,y} and values beyond the distinct literals used behave alike",
        "an Undefined subclass whose __str__ returns a marker (documented customisation) does not change binding",
        "duplicate keyword names: either occurrence is accepted; kwargs iteration order is observed, not asserted",
        "duplicate parameter names, parameters called args/kwargs, macro redefinition, assign inside with: "
        "not fixed by statement or docs, not generated",
        "what a call before the definition / to an unknown macro renders is not specified: executed and counted only",
    ]

    def bounds(self, tier: str) -> dict[str, Any]:
        return {
            "signatures": "226 (0..3 params over {p,q,r}, all orders, default none/literal/variable)",
            "calls": "0..4 positional x 0..3 keyword over 5 names x all interleavings = 9705"
            + (" (all for the 10 uniform-default prefix signatures; keywords-last+first = 1400 for the other 216)"
               if tier == "quick" else " for every signature and for default sources G, A, L"),
            "side_dimensions": "default source {render arg, assign, late re-assign}, Undefined {marker, default}, "
            "style {bare, quoted+comma}, globals named p,q,r {absent, present} on " + ("155 keywords-last calls (<=2 kw)" if tier == "quick"
                                                else "1400 keywords-last/first calls (A,L: all 9705)"),
            "with": f"forests of <= {3 if tier == 'quick' else 4} with tags, 6 argument lists per tag; forests of <= "
            f"{2 if tier == 'quick' else 3} tags over 12 argument lists with >= 1 sibling reference; 22 outer contexts",
        }

    def shards(self, tier: str) -> list[Any]:
        jobs = plan(tier)
        target = 2500 if tier == "quick" else 10000
        shards: list[list[Any]] = []
        cur: list[Any] = []
        cost = 0
        for c, j in jobs:
            if cur and cost + c > target:
                shards.append(cur)
                cur, cost = [], 0
            cur.append(j)
            cost += c
        if cur:
            shards.append(cur)
        return shards

    # -- execution ----------------------------------------------------------
    def run_job(self, res: Result, job: tuple[Any, ...]) -> None:
        kind = job[0]
        if kind == "bind":
            _, i, cs, lo, hi, mode, envk, style = job
            run_bind_job(res, i, cs, lo, hi, mode, envk, style)
        elif kind == "falsy":
            _, i, f = job
            run_bind_job(res, i, "small", 0, len(callset("small")), "G", "marker", 0, falsy=f)
        elif kind == "dispatch":
            i = job[1]
            for ti in range(len(DISPATCH_T)):
                for c in callset("last1"):
                    viols, case = eval_dispatch(i, ti, c)
                    res.count("templates", 1)
                    res.case(nontrivial=["dispatch", i, ti, c], outcome="dispatch:" + ("viol" if viols else "ok"),
                             n=3, sample=case if (i == CANON[-1] and ti == 1 and c == callset("last1")[-1]) else None)
                    for s, what in viols:
                        res.violation(s, what, case)
        elif kind == "order":
            i = job[1]
            for c in callset("last2"):
                viols, case, label = eval_order(i, c)
                res.count("templates", 1)
                res.count("unspecified_excluded", 2)
                res.count("excluded:call_before_definition", 1)
                res.count("excluded:call_to_unknown_macro", 1)
                res.case(nontrivial=["order", i, c], outcome="order:" + label + ("viol" if viols else "ok"), n=3)
                for s, what in viols:
                    res.violation(s, what, case)
        elif kind == "cross":
            for sig in CROSS_SIGS:
                for outer in M.OUTER_KINDS:
                    viols, case = eval_cross(sig, outer)
                    res.case(nontrivial=["cross", sig, outer], outcome="cross:" + ("viol" if viols else "ok"), n=4,
                             sample=case if outer == "assign" and len(sig) == 2 else None)
                    for s, what in viols:
                        res.violation(s, what, case)
        elif kind == "withdup":
            for outer in M.OUTER_KINDS:
                viols, case = eval_withdup({"v": outer})
                res.count("dup_keyword_either_occurrence_accepted")
                res.case(nontrivial=["withdup", outer], outcome="withdup:" + ("viol" if viols else "ok"))
                for s, what in viols:
                    res.violation(s, what, case)
        elif kind == "with":
            _, ci, lo, hi, maxn, sib = job
            ctx = CTXS[ci]
            fs = forests(maxn, sib)
            for k in range(lo, hi):
                f = fs[k]
                viols, case = eval_with(ctx, f)
                n = M.forest_size(f)
                res.count("templates", 1)
                res.case(nontrivial=["with", ctx, f] if n else None,
                         outcome=f"with{'-sibling' if sib else ''}:n{n}d{M.forest_depth(f)}:{ctx['wrapper']}:"
                         + ("viol" if viols else "ok"),
                         sample=case if (k == hi - 1 and ci in (6, 17, 21)) else None)
                for s, what in viols:
                    res.violation(s, what, case)
        else:
            raise AssertionError(job)

    def run_shard(self, shard: Any, tier: str) -> Result:
        res = Result()
        util.reset_memo()
        for job in shard:
            self.run_job(res, tuple(job))
        return res

    # -- replay -------------------------------------------------------------
    def replay(self, case: Any) -> list[dict[str, Any]]:
        fam = case["family"]
        out: list[tuple[dict[str, Any], str]] = []
        if fam in ("bind", "falsy"):
            sig = tuple((a, b) for a, b in case["sig"])
            calls = [(c[0], tuple(c[1])) for c in case["calls"]]
            spec = BindSpec(sig, calls, case["mode"], case["env"], case["style"], case.get("falsy"))
            r = eval_bind(spec)[case["index"]]
            out = r["viols"]
        elif fam == "dispatch":
            c = (case["call"][0], tuple(case["call"][1]))
            out = eval_dispatch(case["sig_idx"], case["t_idx"], c)[0]
        elif fam == "order":
            c = (case["call"][0], tuple(case["call"][1]))
            out = eval_order(case["sig_idx"], c)[0]
        elif fam == "cross":
            out = eval_cross(tuple((a, b) for a, b in case["sig"]), case["outer"])[0]
        elif fam == "with":
            def tup(f: Any) -> Any:
                return tuple((o, tup(k)) for o, k in f)

            out = eval_with(case["ctx"], tup(case["forest"]))[0]
        elif fam == "withdup":
            out = eval_withdup(case["ctx"])[0]
        else:
            raise ValueError(fam)
        print(f"template: {case.get('source')}\ndata: {case.get('data')}")
        return [{"signature": s, "what": w, "case": case} for s, w in out]


CHECK = C27()
