"""C25 -- built-in filters honour their documented contracts.

Bounded exhaustive enumeration: for every filter named by the property, the FULL product
of small typed pools (input x arguments x keyword arguments) is rendered through a real
template on the real engine

    {% assign r = x | <filter>: a0, a1, allow_false: <lit> %}{{ r | c25probe }}

(`x`, `a0`, `a1` are render data; an undefined value is a variable that is not passed).
`c25probe` is a harness-side filter registered through the public ``Environment.add_filter``
that only captures the typed value bound by ``assign`` -- so int vs float, list identity and
input mutation are observable -- the filter under test is always invoked by the engine.

Each captured result is judged by the contract predicates of ``mc/ref/c25_contracts.py``,
every one a literal reading of the property statement or of docs/filter_reference.md
(provenance per clause in ``CLAUSES``).  Cells on which statement and docs are silent or
contradict each other are executed, counted (``unspecified_excluded``) and not judged.
inf/nan and error classes are out of scope (C02).
"""

from __future__ import annotations

import itertools
from typing import Any
from typing import Optional

from mc.core import Check
from mc.core import Result
from mc.ref import c25_contracts as K
from mc.ref.c25_contracts import UNDEF
from mc.ref.c25_contracts import Unspecified


class HarnessError(Exception):
    pass


# ---------------------------------------------------------------------------
# specs (JSON-able descriptions of values; fresh objects are built for every case)
# ---------------------------------------------------------------------------
MISSING = {"__missing__": True}
OMIT = {"__omit__": True}


def rng(a: int, b: int) -> dict[str, Any]:
    return {"__range__": [a, b]}


def build(s: Any) -> Any:
    if isinstance(s, dict):
        if "__missing__" in s:
            return UNDEF
        if "__range__" in s:
            return range(*s["__range__"])
        return {k: build(v) for k, v in s.items()}
    if isinstance(s, (list, tuple)):
        return [build(e) for e in s]
    return s


def is_omit(s: Any) -> bool:
    return isinstance(s, dict) and "__omit__" in s


def words(alpha: list[Any], maxlen: int) -> list[str]:
    return ["".join(t) for n in range(maxlen + 1) for t in itertools.product(alpha, repeat=n)]


def lists(elems: list[Any], maxlen: int) -> list[list[Any]]:
    return [list(t) for n in range(maxlen + 1) for t in itertools.product(elems, repeat=n)]


def dedupe(seq: list[Any]) -> list[Any]:
    out: list[Any] = []
    seen: set[str] = set()
    for s in seq:
        k = repr(s)
        if k not in seen:
            seen.add(k)
            out.append(s)
    return out


HUGE = 10**30


class Pools:
    def __init__(self, tier: str):
        q = tier == "quick"
        self.STR = words(["a", "B", " ", ","], 3 if q else 4)
        self.WS = dedupe(words(["a", " ", "\n", "\t"], 3 if q else 4) + ["\r\n", "a\r\nB", "\r", "a\rb", " a\r\n", "éa", "ßB"])
        self.INTS = [-7, -2, -1, 0, 1, 2, 3, 7, HUGE] + ([] if q else [-HUGE, -3, 5, 10, 100])
        self.FLOATS = [-2.5, -0.5, 0.0, 0.5, 1.5, 2.675] + ([] if q else [0.1, 0.2, 0.3, 1.005, 183.357, 12.2, -7.25, 123456.789])
        self.FLOATS_ROUND = dedupe(self.FLOATS + [1.005, 0.125, 183.357, 2.5, 1.2, 2.7, -1.26, 5.0, -5.4, 0.49999])
        self.NUMSTR = [str(i) for i in self.INTS] + [repr(f) for f in self.FLOATS]
        self.NONNUM = ["a", "", "a B", None, MISSING, [1], {"k": 1}, True]
        self.NUM = self.INTS + self.FLOATS + self.NUMSTR + self.NONNUM
        self.LIST_ELEMS = [1, 2, "a", "B", None, {"k": 1}, {"k": 2}, [1]]
        self.LISTS = lists(self.LIST_ELEMS, 3 if q else 4)
        self.DICTS = [{}, {"k": 1}, {"a": 1, "b": [1, 2]}]
        self.MISC = [None, True, False, MISSING, rng(1, 4), rng(1, 1)]
        self.V_ALL = dedupe(self.STR + self.WS) + self.INTS + self.FLOATS + self.NUMSTR + self.LISTS + self.DICTS + self.MISC
        self.q = q


class Family:
    """One filter with the full product of its pools."""

    def __init__(self, name: str, f: str, dims: list[list[Any]], kwnames: tuple[str, ...] = ()):
        self.name, self.f, self.dims, self.kwnames = name, f, dims, kwnames
        self.npos = len(dims) - 1 - len(kwnames)
        self.total = 1
        for d in dims:
            self.total *= len(d)

    def case_at(self, idx: int) -> Optional[dict[str, Any]]:
        vals: list[Any] = []
        for d in reversed(self.dims):
            idx, r = divmod(idx, len(d))
            vals.append(d[r])
        vals.reverse()
        pos = vals[1 : 1 + self.npos]
        args: list[Any] = []
        omitted = False
        for a in pos:
            if is_omit(a):
                omitted = True
            elif omitted:
                return None  # an argument after an omitted one: not expressible, not a case
            else:
                args.append(a)
        kw = {n: v for n, v in zip(self.kwnames, vals[1 + self.npos :]) if not is_omit(v)}
        return {"f": self.f, "x": vals[0], "a": args, "kw": kw}


_FAMILIES: dict[str, list[Family]] = {}


def families(tier: str) -> list[Family]:
    if tier in _FAMILIES:
        return _FAMILIES[tier]
    p = Pools(tier)
    q = p.q
    n4 = 4 if q else 5
    fams: list[Family] = []
    add = fams.append

    add(Family("size", "size", [p.V_ALL]))

    str_inputs = dedupe(p.STR + p.WS) + p.INTS + p.FLOATS + [None, MISSING, True, [1], {"k": 1}]
    for f in K.STR_OPS:
        add(Family(f, f, [str_inputs]))

    nonempty = [s for s in dedupe(p.STR + p.WS) if s]
    add(Family("split_join", "split_join", [nonempty, p.STR + ["\n", "\t"]]))
    add(Family("split", "split", [p.STR, ["", MISSING, ",", None]]))
    add(Family("join", "join", [lists([1, 2, "a", "B"], 3 if q else 4) + [[None, 1], [1.5], [[1], 2]],
                                [OMIT, "", " ", ",", ", ", "aB"]]))

    add(Family("reverse", "reverse", [p.LISTS]))
    add(Family("reverse_text", "reverse_text", [p.STR]))
    add(Family("sort", "sort", [lists([2, 1, 1.5, -7], n4) + lists(["b", "B", "a", "a b"], n4) + lists(p.LIST_ELEMS, 2)]))
    add(Family("sort:key", "sort", [lists([{"k": 2}, {"k": 1}, {"k": 1, "j": 0}, {"k": 1.5}], n4 - 1)
                                    + lists([{"k": "b"}, {"k": "B"}, {"k": "a"}], n4 - 1)
                                    + [[{"k": 1}, {}], [{"k": 1}, {"k": "a"}], [{"k": None}, {"k": 1}]], ["k"]]))
    add(Family("sort_natural", "sort_natural", [lists(["b", "B", "a", 1, "A"], n4) + lists(p.LIST_ELEMS, 2)]))
    add(Family("sort_natural:key", "sort_natural", [lists([{"k": "b"}, {"k": "B"}, {"k": "a"}, {"k": 1}, {"k": "A", "j": 0}], n4 - 1)
                                                    + [[{"k": 1}, {}], [{"k": None}, {"k": "a"}]], ["k"]]))
    add(Family("uniq", "uniq", [lists([1, "a", "1", None, {"k": 1}, {"k": 2}], n4) + [[1, True], [1, 1.0], [[1], 1, [1]]]]))
    add(Family("uniq:key", "uniq", [lists([{"k": 1}, {"k": 1, "j": 0}, {"k": 2}, {"k": "1"}, {"j": 1}], n4 - 1), ["k"]]))
    add(Family("compact", "compact", [lists([None, 1, "a", False, 0, ""], n4) + [[[None], 1]]]))
    add(Family("compact:key", "compact", [lists([{"k": 1}, {"k": None}, {}, {"k": False}, {"j": 1}], n4 - 1), ["k"]]))
    add(Family("concat", "concat", [p.LISTS + [MISSING, "a"], [[], [1], ["a", [2]], [None, {"k": 1}], "a"]]))
    add(Family("map", "map", [lists([{"k": 1}, {"k": "a"}, {"k": None}, {}, {"j": 2}, {"k": [1]}], n4 - 1) + [[1, {"k": 1}]],
                              ["k", "j"]]))
    wr_elems = [{"k": 1}, {"k": 2}, {"k": "a"}, {"k": None}, {"k": False}, {"k": True}, {"k": 0}, {"k": ""}, {"k": "2"}, {}]
    for f in ("where", "reject"):
        add(Family(f, f, [lists(wr_elems, n4 - 1) + [[1, {"k": 2}], [{"k": 0.0}]], ["k"],
                          [OMIT, 2, "a", 1, None, 0, "", False, 0.0, True, MISSING]]))

    starts = [-HUGE, -7, -3, -2, -1, 0, 1, 2, 3, 7, HUGE]
    lengths = [OMIT, -1, 0, 1, 2, 3, 7, HUGE]
    add(Family("slice", "slice", [p.STR + p.LISTS + [5], starts, lengths]))
    add(Family("first", "first", [p.V_ALL]))
    add(Family("last", "last", [p.V_ALL]))

    long_strs = ["aB ,aB", "aaaaaa", "a a a a", "aB,aB,aB,"]
    add(Family("truncate", "truncate", [p.STR + long_strs, [-7, -2, -1, 0, 1, 2, 3, 4, 5, 6, 7, 9, HUGE],
                                        [OMIT, "", ".", "..", "...", "a B,"]]))
    add(Family("truncate:default", "truncate", [["a" * 49, "a" * 50, "a" * 51, "ab " * 20, "", 5]]))
    tw = dedupe(words(["a", "B", " "], 5 if q else 7) + ["a\nB a", "a\t\tB", " a  B  a ", "\n"])
    add(Family("truncatewords", "truncatewords", [tw, [-1, 0, 1, 2, 3, 7, HUGE], [OMIT, "", ".", "...", " x"]]))
    add(Family("truncatewords:default", "truncatewords", [[" ".join(["a"] * k) for k in (14, 15, 16, 17)] + [" a  a", ""]]))

    for f in ("plus", "minus", "times", "divided_by", "modulo", "at_least", "at_most"):
        add(Family(f, f, [p.NUM, p.NUM]))
    unary = dedupe(p.NUM + p.FLOATS_ROUND + [repr(v) for v in p.FLOATS_ROUND])
    for f in ("abs", "ceil", "floor"):
        add(Family(f, f, [unary]))
    add(Family("round", "round", [unary, [OMIT, 0, 1, 2, 3, "2", -1, 1.5, "a", None, MISSING]]))

    add(Family("default", "default", [p.V_ALL, [OMIT, 5, 0, "d", "", [1], {"k": 1}, [], None, False, MISSING],
                                      [OMIT, True, False]], kwnames=("allow_false",)))
    _FAMILIES[tier] = fams
    return fams


# ---------------------------------------------------------------------------
# calling the real engine
# ---------------------------------------------------------------------------
_ENV: Any = None
_CAPTURED: list[Any] = []
_TEMPLATES: dict[str, Any] = {}
_LIQUID_ERROR: Any = None


def _probe(val: Any, *args: Any, **kwargs: Any) -> str:
    _CAPTURED.append(val)
    return ""


def get_env() -> Any:
    global _ENV, _LIQUID_ERROR
    if _ENV is None:
        from liquid import Environment
        from liquid.exceptions import LiquidError
        from liquid.undefined import is_undefined

        env = Environment()
        if not callable(getattr(env, "add_filter", None)):
            raise HarnessError("harness binding lost: Environment.add_filter")
        env.add_filter("c25probe", _probe)
        K.set_undefined_predicate(is_undefined)
        _LIQUID_ERROR = LiquidError
        _ENV = env
    return _ENV


REAL_FILTERS = sorted({f for f in K.JUDGES if f not in ("split_join", "reverse_text")})


def source_for(f: str, nargs: int, kw: dict[str, Any]) -> str:
    names = [f"a{i}" for i in range(nargs)]
    if f == "split_join":
        expr = "x | split: a0 | join: a0"
    else:
        real = "reverse" if f == "reverse_text" else f
        parts = names + [f"{k}: {'true' if v is True else 'false'}" for k, v in sorted(kw.items())]
        expr = f"x | {real}" + (": " + ", ".join(parts) if parts else "")
    tail = "{{ r }}" if f == "reverse_text" else ""
    return "{% assign r = " + expr + " %}{{ r | c25probe }}" + tail


def call(f: str, x: Any, args: list[Any], kw: dict[str, Any]) -> tuple[tuple[Any, ...], Optional[str], str]:
    """Invoke the filter through a real template. -> (("ok", value) | ("err", class, liquid?), text, source)"""
    env = get_env()
    src = source_for(f, len(args), kw)
    tpl = _TEMPLATES.get(src)
    if tpl is None:
        tpl = env.from_string(src)
        _TEMPLATES[src] = tpl
    data: dict[str, Any] = {}
    if x is not UNDEF:
        data["x"] = x
    for i, a in enumerate(args):
        if a is not UNDEF:
            data[f"a{i}"] = a
    del _CAPTURED[:]
    try:
        text = tpl.render(**data)
    except _LIQUID_ERROR as e:
        return ("err", type(e).__name__, True), None, src
    except Exception as e:  # noqa: BLE001  the class is the observation
        return ("err", type(e).__name__, False), None, src
    if len(_CAPTURED) != 1:
        raise HarnessError(f"harness binding lost: probe filter called {len(_CAPTURED)} times for {src!r}")
    return ("ok", _CAPTURED[0]), text, src


def run_case(case: dict[str, Any]) -> dict[str, Any]:
    f = case["f"]
    x, args = build(case["x"]), [build(a) for a in case["a"]]
    kw = dict(case["kw"])
    ctx = {"x_pristine": build(case["x"]), "a_pristine": [build(a) for a in case["a"]], "text": None}
    res, text, src = call(f, x, args, kw)
    ctx["text"] = text
    out: dict[str, Any] = {"res": res, "src": src, "fails": [], "unspecified": None, "nontrivial": False}
    try:
        out["fails"] = K.judge(f, x, args, kw, res, ctx)
    except Unspecified as u:
        out["unspecified"] = u.reason
        return out
    if res[0] == "ok" and not K.same(res[1], ctx["x_pristine"]):
        out["nontrivial"] = True
    return out


def violation_of(case: dict[str, Any], fail: tuple[str, str, str], src: str) -> dict[str, Any]:
    clause, feature, msg = fail
    f = "split|join" if case["f"] == "split_join" else ("reverse" if case["f"] == "reverse_text" else case["f"])
    parts = feature.split(":")
    sig = {"clause": clause, "filter": f, "feature": ":".join(x for x in parts if not x.startswith("exc=")) or "any"}
    for x in parts:
        if x.startswith("exc="):
            sig["exc"] = x[4:]
    return {
        "signature": sig,
        "what": f"{msg}  [template {src} ; x={case['x']!r} args={case['a']!r} kw={case['kw']!r}; "
                f"clause '{clause}': {K.CLAUSES.get(clause, '?')}]",
        "case": case,
    }


class C25(Check):
    id = "C25"
    level = "exploration"
    title = "Built-in filters honour their documented contracts"
    rule = (
        "Per filter, the full product of typed pools (strings over {a,B,' ',','} and over {a,' ',\\n,\\t}, ints incl. "
        "negative and 10**30, floats, numeric strings, non-numeric values, lists over {1,2,'a','B',nil,{k:1},{k:2},[1]} "
        "and filter-specific lists of hashes, hashes, ranges, nil/bools, undefined) is rendered through a real template "
        "`{% assign r = x | f: a0, a1 %}{{ r | c25probe }}`; the typed value captured by the harness-side probe filter is "
        "judged by contract predicates that are literal readings of the statement / docs/filter_reference.md (provenance "
        "per clause in bounds.clauses). Cells not decided by statement+docs are executed and counted as "
        "unspecified_excluded. A case is non-trivial iff it was judged and the filter's result differs from its input. "
        "The first shard checks the predicates themselves against every worked example of the docs and against "
        "deliberately wrong answers."
    )
    assumptions = [
        "values outside the stated pools behave like their pool representative (e.g. strings longer than the bound)",
        "arguments are passed as render data (variables); literal-argument parsing is another property's business",
        "default Environment (autoescape off, default Undefined, lax string_first_and_last flag off)",
        "inf/nan inputs and which error class is raised are out of scope (C02)",
        "exact decimal arithmetic reads a float as the decimal number denoted by its shortest repr, as the docs examples do",
    ]

    def bounds(self, tier: str) -> dict[str, Any]:
        fams = families(tier)
        return {
            "strings": "all words of length <= %d over {a,B,' ',','} and over {a,' ',\\n,\\t} plus CR/LF and 2 non-ASCII words"
                       % (3 if tier == "quick" else 4),
            "lists": "all lists of length <= %d over {1,2,'a','B',nil,{k:1},{k:2},[1]}; filter-specific lists (numbers, "
                     "strings, hashes with/without the property) of length <= %d"
                     % ((3, 4) if tier == "quick" else (4, 5)),
            "numbers": "ints {-7,-2,-1,0,1,2,3,7,10**30}, floats {-2.5,-0.5,0.0,0.5,1.5,2.675}, their string forms, "
                       "non-numeric {'a','','a B',nil,undefined,[1],{k:1}}" + ("" if tier == "quick" else " plus 5 ints and 8 floats"),
            "families": {fm.name: fm.total for fm in fams},
            "clauses": K.CLAUSES,
        }

    def shards(self, tier: str) -> list[Any]:
        fams = families(tier)
        total = sum(fm.total for fm in fams)
        chunk = max(400, total // 160)
        sh: list[Any] = [("selfcheck",)]
        for i, fm in enumerate(fams):
            for lo in range(0, fm.total, chunk):
                sh.append(("fam", i, lo, min(fm.total, lo + chunk)))
        return sh

    def run_shard(self, shard: Any, tier: str) -> Result:
        from mc.util import reset_memo

        res = Result()
        get_env()
        reset_memo()
        if shard[0] == "selfcheck":
            problems = K.self_check()
            if problems:
                raise HarnessError("contract model disagrees with the documented examples: " + "; ".join(problems[:5]))
            env = get_env()
            lost = [f for f in REAL_FILTERS if f not in env.filters]
            if lost:
                raise HarnessError(f"harness binding lost: filters not registered: {lost}")
            res.count("model_selfcheck_examples", len(K.DOC_EXAMPLES) + len(K.WRONG_ANSWERS))
            return res
        fm = families(tier)[shard[1]]
        for idx in range(shard[2], shard[3]):
            case = fm.case_at(idx)
            if case is None:
                continue
            out = run_case(case)
            r = out["res"]
            if out["unspecified"] is not None:
                res.case(outcome=f"{fm.f}:unspecified")
                res.count("unspecified_excluded")
                res.count("unspecified: " + out["unspecified"])
                if r[0] == "err":
                    res.count("out_of_scope_error:" + r[1])
                continue
            res.count("judged")
            if out["fails"]:
                for fail in out["fails"]:
                    v = violation_of(case, fail, out["src"])
                    res.violation(v["signature"], v["what"], v["case"])
                res.case(nontrivial=case if out["nontrivial"] else None, outcome=f"{fm.f}:viol:{out['fails'][0][0]}")
                continue
            label = f"{fm.f}:ok:{type(r[1]).__name__}"
            sample = None
            if out["nontrivial"] and idx == shard[2] + (shard[3] - shard[2]) // 2:
                sample = {"template": out["src"], "x": case["x"], "args": case["a"], "kw": case["kw"], "result": K.show(r[1])}
            res.case(nontrivial=case if out["nontrivial"] else None, outcome=label, sample=sample)
        return res

    def replay(self, case: Any) -> list[dict[str, Any]]:
        get_env()
        out = run_case(case)
        print(f"  template: {out['src']}\n  data: x={case['x']!r} args={case['a']!r} kw={case['kw']!r}\n"
              f"  observed: {out['res'][:2]!r}" + (f"\n  unspecified: {out['unspecified']}" if out["unspecified"] else ""))
        return [violation_of(case, fail, out["src"]) for fail in out["fails"]]


CHECK = C25()
