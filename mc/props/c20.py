"""C20 — reported locations point at the reported item.

S  spans.  The C19 corpus (mc/ref/c19_gen.py) re-printed in four layouts -- ``plain``;
   ``ml`` (leading non-ASCII text, newlines inside tags/outputs and between filters and
   arguments, ``{%- -%}`` / ``{{- -}}``); ``crlf`` (tabs, CRLF, one-sided whitespace
   control); ``liquid`` (the whole template as indented line statements of one
   ``{% liquid %}`` tag) -- with the partials printed in the same layout.  Every program is
   parsed in STRICT mode, analysed with ``analyze()`` and ``analyze_tags_from_string()``
   (partials additionally with ``analyze_tags(name)``), and every reported ``Span`` is
   checked: the named template's source (looked up by the harness: "main" or a partial)
   satisfies ``source[index:].startswith(name)``; for a variable the name is its root
   segment, where a quoted root may appear as ``['name'`` / ``["name"`` and a root that is
   itself a path (``[x]``) as ``[``.  For every span ``Span.line_col(source)`` ("(line number,
   column number) for this span in source") must equal the line and column the harness
   computes from the raw index (bases calibrated on a mid-line canary); the ml / crlf /
   liquid layouts put tag names, variable roots, assigned names, filter names and arguments
   first on their line (column 0).

E  errors.  Every malformed source M(k), every single-deviation token mutant of the corpus
   programs (n <= 2) in all four layouts (token mutants also with a lone \\r as line ending),
   every "one character broken at a reference" mutant, and every M(k) source that has a line
   break again with \\r\\n line endings, parsed with ``from_string`` in STRICT mode.  For every LiquidError raised: it
   carries a token whose ``start_index`` lies inside ``token.source`` and that source is the
   text being parsed; ``str(err)``, ``err.detailed_message()`` and ``err.context()``
   (whichever exist) return without raising; the line (1-based), the column and the current
   line text of ``context()`` equal those the harness recomputes from the index, and the
   formatted message shows that ``line:column``.  The column base (0 or 1) is not documented:
   it is calibrated once per process on a canary and must then be the same everywhere.
"""

from __future__ import annotations

import bisect
import itertools
import json
import re
import warnings
from typing import Any
from typing import Iterator
from typing import Optional

from liquid.exceptions import LiquidError

from mc import util as U
from mc.core import Check
from mc.core import Result
from mc.core import jdumps
from mc.gen import programs as P
from mc.ref import c19_gen as G

FLAGS = {"ternary_expressions": True}
LAYOUTS = ["plain", "ml", "crlf", "liquid"]
_ENVS: dict[str, Any] = {}


def env_for(layout: str) -> Any:
    env = _ENVS.get(layout)
    if env is None:
        parts = {n: p.source for n, p in G.partials_for(layout).items()}
        env = U.make_env(flags=FLAGS, templates=parts, extra=True, globals=dict(G.ENV_GLOBALS))
        _ENVS[layout] = env
    return env


# ---------------------------------------------------------------------------------------
# S: spans
# ---------------------------------------------------------------------------------------
def root_matches(source: str, index: int, root: Any) -> bool:
    rest = source[index:]
    if isinstance(root, list):  # the root is itself a path: the item starts at its bracket
        return rest.startswith("[")
    name = str(root)
    if rest.startswith(name):
        return True
    return re.match(r"\[\s*(?:'" + re.escape(name) + r"'|\"" + re.escape(name) + r"\")", rest) is not None


def span_problems(sources: dict[str, str], kind: str, name: Any, span: Any, layout: str = "plain") -> Optional[str]:
    src = sources.get(span.template_name)
    if src is None:
        return f"template {span.template_name!r} is not one of {sorted(sources)}"
    idx = span.index
    if not isinstance(idx, int) or not 0 <= idx < len(src):
        return f"index {idx!r} is outside the source of {span.template_name!r} (len {len(src)})"
    ok = root_matches(src, idx, name) if kind in ("variables", "globals", "locals") else src[idx:].startswith(str(name))
    if not ok:
        return f"source[{idx}:] of {span.template_name!r} starts with {src[idx:idx + 16]!r}, not with {name!r}"
    tname = str(span.template_name)
    key = (layout, tname, idx)
    if tname != "main":
        if key in _LINECOL_DONE:
            return None
        _LINECOL_DONE.add(key)
    why = linecol_problem(src, span)
    if why:
        return "LINECOL " + why
    return None


_BREAK = re.compile(r"\r\n|\r|\n")
_STARTS: dict[int, tuple[str, list[int]]] = {}
_SPAN_BASE: Optional[tuple[int, int]] = None
_LINECOL_DONE: set[tuple[str, str, int]] = set()   # (layout, partial name, index) already compared (partials are fixed)


def line_starts(src: str) -> list[int]:
    got = _STARTS.get(id(src))
    if got is None or got[0] is not src:
        if len(_STARTS) > 64:
            _STARTS.clear()
        got = (src, [0] + [m.end() for m in _BREAK.finditer(src)])
        _STARTS[id(src)] = got
    return got[1]


def span_base(span: Any) -> tuple[int, int]:
    """How ``Span.line_col`` counts lines and columns (its docstring does not say from which number):
    calibrated once per process on a position in the middle of a line, then required everywhere."""
    global _SPAN_BASE
    if _SPAN_BASE is None:
        line, col = type(span)("canary", 4).line_col("ab\ncd\nef")  # the 'd': second line, one character in
        _SPAN_BASE = (line - 1, col - 1)
        if _SPAN_BASE not in ((0, 0), (0, 1), (1, 0), (1, 1)):
            raise RuntimeError(f"harness binding lost: Span.line_col() gives {(line, col)} for the canary")
    return _SPAN_BASE


def linecol_problem(src: str, span: Any) -> Optional[str]:
    """``Span.line_col(source)`` -- "(line number, column number) for this span in source" -- against the
    line and column the harness computes from the raw index (a line ends with \\r\\n, \\r or \\n)."""
    fn = getattr(span, "line_col", None)
    if fn is None:
        return None
    starts = line_starts(src)
    i = bisect.bisect_right(starts, span.index) - 1
    lb, cb = span_base(span)
    want = (i + lb, span.index - starts[i] + cb)
    try:
        got = tuple(fn(src))
    except Exception as e:  # noqa: BLE001
        return f"line_col() raised {type(e).__name__}: {e} for index {span.index} (expected {want})"
    if got != want:
        return f"line_col() says {got}, index {span.index} is line/column {want} ({src[starts[i]:starts[i] + 20]!r})"
    return None


def line_kind(src: str, idx: int) -> str:
    """Coarse position class of an index (for signatures): first line / later line."""
    return "first-line" if "\n" not in src[: max(idx, 0)] else "later-line"


def check_spans(res: Result, shape: list[Any], layout: str) -> None:
    try:
        world = G.World(shape, layout)
    except G.Unprintable:
        res.count("no_rendition_in_layout")  # a raw/doc/nested-comment/translate block inside a line-statement block
        return
    env = env_for(layout)
    src = world.main.source
    sources = {n: p.source for n, p in world.templates.items()}
    case = {"part": "S", "shape": shape, "layout": layout, "source": src}
    with warnings.catch_warnings():
        warnings.simplefilter("ignore")
        p = U.parse(env, src, name="main")
    if not p.ok:
        res.case(outcome=f"S:{layout}:parse:{p.error_class}")
        res.count("rejected_by_parser")
        if p.error_class not in ("TemplateInheritanceError",):
            raise RuntimeError(f"generator emitted a program the parser rejects: {src!r}: {p!r}")
        return
    an = U.outcome(lambda: p.value.analyze())
    nspans = 0
    if an.ok:
        a = an.value
        for kind in ("variables", "globals", "locals"):
            for _key, vs in getattr(a, kind).items():
                for v in vs:
                    nspans += 1
                    why = span_problems(sources, kind, v.segments[0], v.span, layout)
                    if why:
                        res.violation({"clause": "span-linecol" if why.startswith("LINECOL") else "span", "api": "analyze",
                                       "kind": kind, "layout": layout,
                                       "template": str(v.span.template_name), "where": line_kind(src, v.span.index)},
                                      f"{kind} {str(v)!r}: {why}; main = {src!r}", case)
        for kind in ("filters", "tags"):
            for name, spans in getattr(a, kind).items():
                for sp in spans:
                    nspans += 1
                    why = span_problems(sources, kind, name, sp, layout)
                    if why:
                        res.violation({"clause": "span-linecol" if why.startswith("LINECOL") else "span", "api": "analyze",
                                       "kind": kind, "name": name, "layout": layout,
                                       "template": str(sp.template_name)},
                                      f"{kind} {name!r}: {why}; main = {src!r}", case)
    else:
        res.count("analysis_raised")
    ta = U.outcome(lambda: env.analyze_tags_from_string(src, name="main"))
    if ta.ok:
        nspans += check_tag_analysis(res, ta.value, {"main": src}, layout, case)
    else:
        res.count("tag_analysis_raised")
    res.case(nontrivial=[shape, layout] if nspans else None,
             outcome=f"S:{layout}:{'ok' if an.ok else an.error_class}:{'ok' if ta.ok else ta.error_class}",
             sample=case if layout != "plain" and nspans > 6 else None)
    res.count("spans_checked", nspans)


def check_tag_analysis(res: Result, ta: Any, sources: dict[str, str], layout: str, case: Any) -> int:
    n = 0
    for attr in ("all_tags", "tags", "unclosed_tags", "unexpected_tags", "unknown_tags"):
        m = getattr(ta, attr, None)
        if m is None:
            continue
        for name, spans in m.items():
            for sp in spans:
                n += 1
                why = span_problems(sources, "tags", name, sp, layout)
                if why:
                    res.violation({"clause": "span-linecol" if why.startswith("LINECOL") else "span", "api": "analyze_tags",
                                   "kind": attr, "name": name, "layout": layout},
                                  f"{attr} {name!r}: {why}", case)
    return n


def check_partial_tags(res: Result, layout: str) -> None:
    env = env_for(layout)
    for name, pr in G.partials_for(layout).items():
        case = {"part": "T", "partial": name, "layout": layout}
        ta = U.outcome(lambda: env.analyze_tags(name))
        n = 0
        if ta.ok:
            n = check_tag_analysis(res, ta.value, {name: pr.source}, layout, case)
        res.case(nontrivial=["T", name, layout] if n else None, outcome=f"T:{layout}:{'ok' if ta.ok else ta.error_class}")
        res.count("spans_checked", n)


# ---------------------------------------------------------------------------------------
# E: errors raised while parsing
# ---------------------------------------------------------------------------------------
_COL_BASE: Optional[int] = None


def harness_line_col(src: str, idx: int) -> tuple[int, int, str]:
    """1-based line, 0-based column and line text of ``idx``; a line ends with \\r\\n, \\r or \\n (the break
    characters belong to the line they end)."""
    line, start = 1, 0
    end = len(src)
    for m in _BREAK.finditer(src):
        if m.end() <= idx:
            line += 1
            start = m.end()
        else:
            end = m.start()
            break
    return line, idx - start, src[start:max(end, start)]


def column_base(env: Any) -> int:
    """0 or 1: how the library counts columns (undocumented -> calibrated, then required everywhere)."""
    global _COL_BASE
    if _COL_BASE is None:
        for src in ("ab\n  {% if %}", "ab\n  {{ x ! }}", "ab\n  {% nosuchtag %}"):
            try:
                env.from_string(src)
            except LiquidError as e:
                ctx = e.context() if e.token is not None and e.token.start_index >= 0 else None
                if ctx is not None:
                    _COL_BASE = ctx[1] - harness_line_col(src, e.token.start_index)[1]
                    break
        if _COL_BASE is None:
            raise RuntimeError("harness binding lost: no canary syntax error carries a position and a context")
        if _COL_BASE not in (0, 1):
            raise RuntimeError(f"harness binding lost: column base {_COL_BASE} is neither 0 nor 1")
    return _COL_BASE


def error_case(env: Any, src: str) -> tuple[str, list[dict[str, Any]]]:
    """Parse ``src`` in STRICT mode; return (outcome label, violations)."""
    out: list[dict[str, Any]] = []
    case = {"part": "E", "source": src}
    try:
        with warnings.catch_warnings():
            warnings.simplefilter("ignore")
            env.from_string(src)
        return "parsed", out
    except LiquidError as e:
        err = e
    except RecursionError:
        return "other:RecursionError", out
    except Exception as e:  # noqa: BLE001  (C02's business; not an error of this property)
        return f"other:{type(e).__name__}", out
    cls = type(err).__name__

    def bad(clause: str, feature: str, what: str, **extra: Any) -> None:
        sig = {"clause": clause, "feature": feature, "error": cls}
        sig.update(extra)
        out.append({"signature": sig, "what": f"{src!r}: {cls}({err.args[0] if err.args else ''!r}): {what}", "case": case})

    tok = getattr(err, "token", None)
    located = False
    if tok is None:
        bad("error-position", "no-token", "the error carries no token")
    elif tok.start_index < 0:
        bad("error-position", "index<0", f"token {tok.kind!r} has start_index {tok.start_index}", token_kind=tok.kind,
            where=U.innermost_repo_frame(err))
    elif tok.start_index >= max(1, len(tok.source)):
        bad("error-position", "index>=len(source)", f"start_index {tok.start_index} but its source has {len(tok.source)} "
            f"characters", token_kind=tok.kind, where=U.innermost_repo_frame(err))
    elif tok.source != src:
        bad("error-position", "foreign-source", f"token.source is {tok.source[:40]!r}, not the text being parsed",
            token_kind=tok.kind, where=U.innermost_repo_frame(err))
    else:
        located = True

    texts: dict[str, Any] = {}
    for meth in ("__str__", "detailed_message", "context"):
        fn = getattr(err, meth, None)
        if fn is None:
            continue
        try:
            texts[meth] = fn()
        except Exception as x:  # noqa: BLE001
            bad("error-format", f"{meth}-raises", f"{meth}() raised {type(x).__name__}: {x}", raised=type(x).__name__,
                position="located" if located else "unlocated")
    if located:
        line, col0, text = harness_line_col(src, tok.start_index)
        base = column_base(env)
        ctx = texts.get("context")
        if "context" in texts:
            if ctx is None:
                bad("error-format", "context-none", "context() is None although the token has a position")
            else:
                if ctx[0] != line or ctx[1] != col0 + base:
                    bad("error-linecol", "context", f"context() says line {ctx[0]} column {ctx[1]}, index {tok.start_index} "
                        f"is line {line} column {col0 + base}", last_line=("\n" not in src[tok.start_index:]))
                elif str(ctx[3]).rstrip() != text.rstrip():
                    bad("error-linecol", "context-line-text", f"context() current line {ctx[3]!r} != {text.rstrip()!r}",
                        last_line=("\n" not in src[tok.start_index:]))
        for meth in ("__str__", "detailed_message"):
            msg = texts.get(meth)
            if isinstance(msg, str) and f"{line}:{col0 + base}" not in msg:
                bad("error-linecol", f"{meth}-shows-other-position", f"{meth}() does not show {line}:{col0 + base}: {msg!r}",
                    last_line=("\n" not in src[tok.start_index:]))
    return f"{cls}:{'located' if located else 'unlocated'}", out


def run_errors(res: Result, env: Any, sources: Iterator[str], family: str) -> None:
    for src in sources:
        label, viols = error_case(env, src)
        for v in viols:
            res.violation(v["signature"], v["what"], v["case"])
        res.case(nontrivial=[family, src] if label not in ("parsed",) and not label.startswith("other:") else None,
                 outcome=f"E:{family}:{label}",
                 sample={"part": "E", "source": src} if "\n" in src and label.endswith(":located") and len(src) > 12 else None)


def malformed_from(prefix: tuple[int, ...], k: int) -> Iterator[str]:
    """Every M(k) source whose fragment sequence starts with ``prefix`` (the prefix itself included); a source
    that contains a line break is also given with \\r\\n as the line ending."""
    fr = P.FRAGMENTS
    head = [fr[i] for i in prefix]

    def variants(src: str) -> Iterator[str]:
        yield src
        if "\n" in src:
            yield src.replace("\n", "\r\n")

    yield from variants(" ".join(head))
    for n in range(1, k - len(prefix) + 1):
        for combo in itertools.product(fr, repeat=n):
            yield from variants(" ".join(head + list(combo)))


def reference_mutants(pr: G.Printed) -> Iterator[str]:
    """One character broken at every reference of the printed template."""
    s = pr.source
    for pos in sorted(pr.refs):
        yield s[:pos] + "!" + s[pos + 1:]      # illegal character in place of the first character
        yield s[:pos] + "| " + s[pos:]         # a pipe where a primitive is expected
        yield s[:pos] + "]" + s[pos:]          # a stray closing bracket
        yield s[:pos] + "'" + s[pos:]          # an unterminated string
    for m in re.finditer(r"\|\s*([a-z_]+)", s):    # an unknown filter in place of every filter name
        yield s[: m.start(1)] + "zz9" + s[m.end(1):]
    for m in re.finditer(r"(?<![\w'])(if|for|assign|include|render|with|echo|capture)(?=\s)", s):
        yield s[: m.start(1)] + "zz9" + s[m.end(1):]   # an unknown tag in place of a tag name


class C20(Check):
    id = "C20"
    level = "exploration"
    title = "Reported locations point at the reported item"
    rule = (
        "S: every C19 corpus program x layouts {plain, ml, crlf, liquid}, analyze() and analyze_tags_from_string(), every "
        "reported Span checked against the named source (non-trivial = at least one span reported); T: analyze_tags(name) "
        "of every partial x layout; E: every malformed source M(k), every token mutant and every reference mutant of the "
        "corpus programs with n <= 2 in layouts plain/ml/liquid, parsed in STRICT (non-trivial = a LiquidError was raised)."
    )
    assumptions = [
        "a line ends with \\r\\n, \\r or \\n (universal newlines); the corpus contains no other line separator",
        "the column base (0 or 1) is undocumented: calibrated on one canary error per process, then required to be constant",
    ]

    def bounds(self, tier: str) -> dict[str, Any]:
        n = 3 if tier == "quick" else 4
        return {"lexer_level_programs": f"every program of <= {2 if tier == 'quick' else 3} constructs over the full menu + "
                                        f"{len(G.EXTRA_LEAVES)} extra leaves / {len(G.EXTRA_BLOCKS)} extra blocks (comment, nested "
                                        "comment, raw, doc, inline comment, break/continue, translate/plural) that contains an "
                                        "extra construct, x 4 layouts",
                "span_programs": f"C19 corpus: <= {n - 1} constructs over the full menu and = {n} over the core menu, depth <= 2",
                "layouts": LAYOUTS if tier != "quick" else "plain (n <= 2 only), ml, crlf, liquid", "malformed_k": self.k(tier), "fragments": len(P.FRAGMENTS),
                "mutant_programs": "C19 corpus n <= 2, layouts plain/ml/crlf/liquid + CR-only variant of crlf; M(k) sources with a line break also with CRLF; reference mutants in ml/crlf/liquid"}

    @staticmethod
    def k(tier: str) -> int:
        return 4 if tier == "quick" else 5

    def programs(self, tier: str) -> Iterator[list[Any]]:
        if tier == "quick":
            yield from G.shapes(2, 2)
            yield from G.shapes_exact(3, 2, G.CORE_LEAVES, G.CORE_BLOCKS)
        else:
            yield from G.shapes(3, 2)
            yield from G.shapes_exact(4, 2, G.CORE4_LEAVES, G.CORE4_BLOCKS)

    def shards(self, tier: str) -> list[Any]:
        ns = 48 if tier == "quick" else 192
        sh: list[Any] = [("S", i, ns) for i in range(ns)]
        nf = len(P.FRAGMENTS)
        if tier == "quick":
            sh += [("M", (f,)) for f in range(nf)]
        else:
            sh += [("M", (f, g)) for f in range(nf) for g in range(nf)] + [("M1", f) for f in range(nf)]
        sh += [("X", i, 16) for i in range(16)]
        sh += [("K", i, 8) for i in range(8)]
        sh += [("T",)]
        return sh

    def run_shard(self, shard: Any, tier: str) -> Result:
        res = self._run_shard(shard, tier)
        # liquid hands out str subclasses (Identifier) as template names: keep only plain JSON types in the result
        res.violations = json.loads(jdumps(res.violations))
        return res

    def _run_shard(self, shard: Any, tier: str) -> Result:
        res = Result()
        kind = shard[0]
        if kind == "S":
            _, i, n = shard
            for idx, shape in enumerate(self.programs(tier)):
                if idx % n == i:
                    # quick: the largest programs skip the plain layout (C19 itself runs them in plain and
                    # cannot locate a reference whose offset is wrong)
                    skip_plain = tier == "quick" and G.size_of(shape) >= 3
                    for layout in LAYOUTS:
                        if not (skip_plain and layout == "plain"):
                            check_spans(res, shape, layout)
        elif kind == "K":  # comment / raw / doc / inline comment / break / continue / translate, alone and combined
            _, i, n = shard
            for idx, shape in enumerate(G.lexer_shapes(2 if tier == "quick" else 3, 2)):
                if idx % n == i:
                    for layout in LAYOUTS:
                        check_spans(res, shape, layout)
        elif kind == "M":
            run_errors(res, env_for("plain"), malformed_from(shard[1], self.k(tier)), "M")
        elif kind == "M1":  # thorough shards by two fragments: the length-1 sources are covered here
            run_errors(res, env_for("plain"), iter([P.FRAGMENTS[shard[1]]]), "M")
        elif kind == "X":
            _, i, n = shard
            for idx, shape in enumerate(G.shapes(2, 2)):
                if idx % n != i:
                    continue
                for layout in LAYOUTS:
                    pr = G.World(shape, layout).main
                    env = env_for(layout)
                    run_errors(res, env, (m for _k, m in P.token_mutants(pr.source)), "X-token")
                    if layout != "plain":
                        run_errors(res, env, reference_mutants(pr), "X-ref")
                    if layout == "crlf":  # the same sources with a lone carriage return as the line ending
                        run_errors(res, env, (m.replace("\r\n", "\r") for _k, m in P.token_mutants(pr.source)), "X-token-cr")
        else:
            for layout in LAYOUTS:
                check_partial_tags(res, layout)
        return res

    def replay(self, case: Any) -> list[dict[str, Any]]:
        res = Result()
        if case["part"] == "S":
            check_spans(res, case["shape"], case["layout"])
            return json.loads(jdumps(res.violations))
        if case["part"] == "T":
            check_partial_tags(res, case["layout"])
            return json.loads(jdumps(res.violations))
        # the layout only selects the partials of the loader; errors of from_string never involve them
        return error_case(env_for("plain"), case["source"])[1]


CHECK = C20()
