"""C04 — serialising a template back to source preserves its meaning.

Bounded exhaustive enumeration on the real engine.  For every generated template T over the
standard tags (environment with logical_not_operator, logical_parentheses, ternary_expressions):

    s1 = str(T)                         (str-total: str() returns a text)
    T2 = env.from_string(s1)            (reparse:   must not raise)
    render(T2, d) == render(T, d)       (same-render: for every data assignment d; errors by class)
    str(T2) == s1                       (idempotent)

All four clauses are literal readings of the property statement.  Partials come from a dict
loader so include/render are real.  Menus and enumerators live in mc/ref/c04_menu.py.

Signatures.  A failing template is attributed to the first of its components (host tag,
expression kind, boolean operand pattern ...) whose *probe* -- a minimal template showing that
component alone -- fails on its own; the signature is then (clause of the probe, component kind,
component feature).  Probes are themselves enumerated singles, so a component-level failure is
always reported under its own signature.  If no probe fails the signature names the instance
combination (scope = interaction) and the clause observed.
"""

from __future__ import annotations

import warnings
from typing import Any
from typing import Optional

from mc import util as U
from mc.core import Check
from mc.core import Result
from mc.ref import c04_menu as M

FLAGS = {"logical_not_operator": True, "logical_parentheses": True, "ternary_expressions": True}
CLAUSES = ("str-total", "reparse", "same-render", "idempotent")

_ENV: Any = None
_DATA: Optional[list[tuple[str, dict[str, Any]]]] = None
_PROBE_CACHE: dict[str, Optional[str]] = {}


def env() -> Any:
    global _ENV
    if _ENV is None:
        _ENV = U.make_env(flags=FLAGS, templates=M.PARTIALS)
        for name in FLAGS:
            if getattr(_ENV, name, None) is not True:
                raise RuntimeError(f"harness binding lost: Environment.{name} is not an attribute any more")
    return _ENV


def data() -> list[tuple[str, dict[str, Any]]]:
    global _DATA
    if _DATA is None:
        _DATA = M.data_sets()
    return _DATA


class Verdict:
    __slots__ = ("status", "failed", "detail", "s1", "s2", "render_mix", "changed", "nonempty")

    def __init__(self) -> None:
        self.status = "ok"            # ok | orig-rejected | violation
        self.failed: list[str] = []   # failing clauses in CLAUSES order
        self.detail: dict[str, Any] = {}
        self.s1: Optional[str] = None
        self.s2: Optional[str] = None
        self.render_mix = ""
        self.changed = False
        self.nonempty = False

    @property
    def primary(self) -> Optional[str]:
        return self.failed[0] if self.failed else None


def roundtrip(source: str) -> Verdict:
    """Apply the oracle to one template source."""
    v = Verdict()
    e = env()
    with warnings.catch_warnings():
        warnings.simplefilter("ignore")
        p = U.parse(e, source)
        if not p.ok:
            v.status = "orig-rejected"
            v.detail["orig"] = f"{p.error_class}: {p[2][:80]}"
            return v
        t = p.value
        s = U.outcome(lambda: str(t))
        if not s.ok or not isinstance(s.value, str):
            v.status = "violation"
            v.failed.append("str-total")
            v.detail["str-total"] = f"str(T) raised {s.error_class}" if not s.ok else "str(T) is not a str"
            return v
        s1 = v.s1 = s.value
        v.changed = s1 != source
        p2 = U.parse(e, s1)
        if not p2.ok:
            v.status = "violation"
            v.failed.append("reparse")
            v.detail["reparse"] = f"{p2.error_class}: {str(p2[2]).splitlines()[0][:80] if p2[2] else ''}"
            return v
        t2 = p2.value
        classes = set()
        for lab, d in data():
            r1 = U.render(t, d)
            r2 = U.render(t2, d)
            k1, k2 = r1.kind(), r2.kind()
            if r1.ok:
                if r1.value:
                    v.nonempty = True
            else:
                classes.add(r1.error_class)
            if k1 != k2 and "same-render" not in v.failed:
                v.failed.append("same-render")
                v.detail["same-render"] = {"data": lab, "original": list(k1), "reparsed": list(k2)}
        v.render_mix = "renders-ok" if not classes else "errors:" + ",".join(sorted(map(str, classes)))
        s2o = U.outcome(lambda: str(t2))
        s2 = v.s2 = s2o.value if s2o.ok else f"<str(T2) raised {s2o.error_class}>"
        if s2 != s1:
            v.failed.append("idempotent")
            v.detail["idempotent"] = {"second": s2}
        if v.failed:
            v.status = "violation"
    return v


def probe_clause(src: str) -> Optional[str]:
    """Primary failing clause of a probe template alone (cached per worker), else None."""
    if src not in _PROBE_CACHE:
        v = roundtrip(src)
        _PROBE_CACHE[src] = v.primary if v.status == "violation" else None
    return _PROBE_CACHE[src]


def attribute(insts: tuple[M.Inst, ...], observed: str) -> tuple[dict[str, Any], bool]:
    """(signature, attributed-to-a-component?)"""
    for inst in insts:
        for comp in inst.comps:
            c = probe_clause(comp.probe)
            if c is not None:
                return {"clause": c, "kind": comp.kind, "feature": comp.feature}, True
    if len(insts) > 1:
        # no component fails alone: does one of the instances (an interaction inside it)?
        for inst in insts:
            if inst.src and probe_clause(inst.fill(M.DEFAULT_BODY)) is not None:
                sig, _ = attribute((inst,), probe_clause(inst.fill(M.DEFAULT_BODY)) or observed)
                return sig, True
    return {
        "clause": observed,
        "kind": "+".join(i.kind for i in insts),
        "feature": " + ".join(i.feature for i in insts),
        "scope": "interaction" if len(insts) > 1 or len(insts[0].comps) > 1 else "instance",
    }, False


def comps_json(insts: tuple[M.Inst, ...]) -> list[Any]:
    return [[i.kind, i.feature, [list(c) for c in i.comps], i.src] for i in insts]


def insts_from_json(js: list[Any]) -> tuple[M.Inst, ...]:
    return tuple(M.Inst(j[3] if len(j) > 3 else "", j[0], j[1], tuple(M.Comp(*c) for c in j[2])) for j in js)


class C04(Check):
    id = "C04"
    level = "exploration"
    rule = (
        "Singles: every construct instance alone = structural tag instances (every for/tablerow argument "
        "combination, if/unless/case shapes, cycle group forms, include/render forms, liquid/comment/raw bodies), "
        "every host slot x every primitive expression (string quoting, floats, keywords, plain/bracketed/quoted-root "
        "paths, ranges), every and/or/not tree of depth<=3 over 3 atoms (+ bare forms, comparisons, grouped operands) "
        "in condition hosts, filter chains and ternaries in output/echo/assign/liquid hosts. Pairs: all ordered pairs "
        "and all (block, inner) nestings over the core menu; thorough adds core x full-menu pairs/nestings and all "
        "triples (5 shapes) over a reduced menu. Each template is rendered with 8 data assignments in which (p,q,r) "
        "runs through all truth assignments. A case is non-trivial when the original parsed and either str() changed "
        "the text (the re-parse is of a different string) or some render produced non-empty output; identity = the "
        "instance sources."
    )
    assumptions = [
        "only constructs/expressions in mc/ref/c04_menu.py; environment flags logical_not_operator, logical_parentheses, "
        "ternary_expressions on, everything else default (strict mode, default Undefined, no autoescape)",
        "'for all data' is decided on 8 fixed assignments covering all truth assignments of the 3 boolean atoms",
        "whitespace control markers and custom delimiters are outside the quantifier (C10/C11)",
        "a composite template containing a component that already fails alone is attributed to that component "
        "(counted under composite_attributed_to_failing_component); interactions with it are therefore not separately decided",
    ]

    # ------------------------------------------------------------------
    def spaces(self, tier: str) -> list[tuple[str, int]]:
        core = M.core_menu(tier)
        full = M.singles(tier)
        blocks, nnest = M.nest_space(core)
        sp = [("S", len(full)), ("P", M.pair_space(core)), ("N", nnest)]
        if tier != "quick":
            nb = len(blocks)
            sp += [("PF", 2 * len(core) * len(full)), ("NF", nb * len(full)), ("T", M.triple_count(M.reduced_menu(tier)))]
        return sp

    def bounds(self, tier: str) -> dict[str, Any]:
        core = M.core_menu(tier)
        b: dict[str, Any] = {
            "singles": len(M.singles(tier)),
            "core_menu": len(core),
            "core_blocks": len([m for m in core if m.block]),
            "primitives": len(M.PRIMS),
            "hosts": len(M.HOSTS),
            "boolean_trees_depth<=3_over_3_atoms": len(M.trees(3)),
            "data_assignments": len(data()),
            "spaces": dict(self.spaces(tier)),
        }
        if tier != "quick":
            b["reduced_menu_for_triples"] = len(M.reduced_menu(tier))
        return b

    def shards(self, tier: str) -> list[Any]:
        sh: list[Any] = []
        per = {"S": 48, "P": 96, "N": 24, "PF": 400, "NF": 64, "T": 400}
        for name, total in self.spaces(tier):
            for lo, hi in U.index_shards(total, per[name]):
                sh.append((name, lo, hi))
        return sh

    # ------------------------------------------------------------------
    def cases(self, shard: Any, tier: str) -> Any:
        name, lo, hi = shard
        core = M.core_menu(tier)
        full = M.singles(tier)
        if name == "S":
            for i in range(lo, hi):
                inst = full[i]
                yield M.Case(inst.fill(M.DEFAULT_BODY), ["S", inst.src], (inst,))
        elif name == "P":
            for i in range(lo, hi):
                yield M.pair_case(core, i)
        elif name == "N":
            blocks, _ = M.nest_space(core)
            for i in range(lo, hi):
                yield M.nest_case(blocks, core, i)
        elif name == "PF":
            D = M.DEFAULT_BODY
            n = len(core) * len(full)
            for i in range(lo, hi):
                k, rest = divmod(i, n)
                ci, fi = divmod(rest, len(full))
                a, b = core[ci], full[fi]
                if b.core or not b.pairable:
                    continue  # already in P / checked alone only
                if k == 0:
                    yield M.Case(a.fill(D) + b.fill(D), ["P", a.src, b.src], (a, b))
                else:
                    yield M.Case(b.fill(D) + a.fill(D), ["P", b.src, a.src], (b, a))
        elif name == "NF":
            blocks, _ = M.nest_space(core)
            for i in range(lo, hi):
                bi, fi = divmod(i, len(full))
                if full[fi].core or not full[fi].pairable:
                    continue
                yield M.Case(blocks[bi].fill(full[fi].fill(M.DEFAULT_BODY)), ["N", blocks[bi].src, full[fi].src],
                             (blocks[bi], full[fi]))
        elif name == "T":
            import itertools

            yield from itertools.islice(M.triple_cases(M.reduced_menu(tier)), lo, hi)

    def run_shard(self, shard: Any, tier: str) -> Result:
        res = Result()
        U.reset_memo()
        for case in self.cases(shard, tier):
            self.check_case(res, case, single=shard[0] == "S")
        return res

    def check_case(self, res: Result, case: M.Case, *, single: bool) -> None:
        v = roundtrip(case.source)
        if v.status == "orig-rejected":
            if single and len(case.insts[0].comps) == 1:
                # a hand-written instance must be inside the language: generator bug, be loud
                raise RuntimeError(f"C04 generator: instance rejected by the parser: {case.source!r}: {v.detail['orig']}")
            res.case(outcome="excluded:original-rejected-by-parser")
            res.count("excluded_original_rejected")
            return
        nontrivial = case.shape if (v.changed or v.nonempty) else None
        if v.status == "ok":
            res.case(nontrivial=nontrivial,
                     outcome=f"ok:{'text-changed' if v.changed else 'text-identical'}:{v.render_mix}",
                     sample={"source": case.source, "str": v.s1} if v.changed and v.nonempty else None)
            return
        sig, attributed = attribute(case.insts, v.primary or "?")
        res.case(nontrivial=nontrivial, outcome="violation:" + "+".join(v.failed))
        if attributed and not single:
            res.count("composite_attributed_to_failing_component")
        what = (f"{case.source!r} -> str() = {v.s1!r}: fails {', '.join(v.failed)} "
                f"({'; '.join(k + ': ' + str(v.detail[k])[:160] for k in v.failed)})")
        res.violation(sig, what, {"source": case.source, "insts": comps_json(case.insts), "observed": v.failed})

    # ------------------------------------------------------------------
    def replay(self, case: Any) -> list[dict[str, Any]]:
        _PROBE_CACHE.clear()
        res = Result()
        insts = insts_from_json(case["insts"])
        self.check_case(res, M.Case(case["source"], ["replay"], insts), single=False)
        v = roundtrip(case["source"])
        print(f"source : {case['source']!r}\nstr(T) : {v.s1!r}\nstr(T2): {v.s2!r}\nfailed : {v.failed} {v.detail}")
        return res.violations


CHECK = C04()
