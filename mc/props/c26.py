"""C26 -- null translations leave message text intact.

Bounded exhaustive enumeration on the real implementation (``Environment(extra=True)``,
no ``translations`` variable, so every construct falls back to ``NullTranslations``):

(i)  every message string made of <= L tokens of ``TOKENS`` is given to the ``t``,
     ``gettext``, ``ngettext``, ``pgettext`` and ``npgettext`` filters, as a string literal
     and as a variable, alone and as one half of a singular/plural pair, for every count,
     with/without a message context, with the message variables supplied as keyword
     arguments / outer variables / mixed / missing, autoescape off and on;
(ii) every body made of <= L tokens of ``TOKENS + {{ v }} + {{ w }}`` is given to
     ``{% translate %}..{% plural %}..{% endtranslate %}`` in the same way.

The oracle is ``mc.ref.c26_model`` (each rule tagged with its provenance).
"""

from __future__ import annotations

import itertools
from collections import Counter
from typing import Any
from typing import Iterator
from typing import Optional

from mc.core import Check
from mc.core import Result
from mc.ref import c26_model as ref

# ---------------------------------------------------------------------------
# alphabets
# ---------------------------------------------------------------------------
TOKENS = ["%", "%s", "%d", "%(v)s", "%(w)s", "%(", ")", "(", "a", " ", "\n ", "<", "100% "]
TAG_TOKENS = TOKENS + ["{{ v }}", "{{ w }}"]

COUNTS: list[Any] = [0, 1, 2, 5, -1, "2"]  # None = the count argument is absent
# numeric strings and integral floats: the docs call the count "a number" and are silent on
# conversion, so where the raw value and its integer conversion select different forms ("1")
# either form is accepted -- but t must agree with ngettext/npgettext (see differential())
EXTRA_COUNTS: list[Any] = ["1", "0", 1.0, 0.0]
CTX = "ctx"
VAL_V = "V%(w)s%%"  # a value that looks like message syntax: it must appear verbatim (one pass)
VAL_W = 7
OUTER_SHADOWED = {"v": "O1", "w": "O2"}

OTHERS = ["a", "(%(w)s"]  # the other half of a singular/plural pair (filters)
TAG_OTHERS = ["a", "({{ w }}"]  # ... (tag)
SUPPLIES = ["missing", "kw", "outer", "mixed"]
TAG_SUPPLIES = ["missing", "kw", "outer", "mixed", "shadow"]

N_FULL = 3  # messages of <= N_FULL tokens get the full matrix (both tiers)


def max_tokens(tier: str) -> int:
    return 3 if tier == "quick" else 4


_MSG_CACHE: dict[tuple[str, int], list[tuple[str, int]]] = {}


def messages(kind: str, n: int) -> list[tuple[str, int]]:
    """Every distinct string that is a concatenation of <= n tokens, shortest first,
    with the minimal number of tokens that produces it."""
    key = (kind, n)
    if key not in _MSG_CACHE:
        toks = TOKENS if kind == "filter" else TAG_TOKENS
        seen: dict[str, int] = {}
        for k in range(n + 1):
            for seq in itertools.product(toks, repeat=k):
                s = "".join(seq)
                if s not in seen:
                    seen[s] = k
        _MSG_CACHE[key] = list(seen.items())
    return _MSG_CACHE[key]


# ---------------------------------------------------------------------------
# template construction
# ---------------------------------------------------------------------------
def lit(v: Any) -> str:
    if isinstance(v, str):
        assert "'" not in v and "\\" not in v
        return "'" + v + "'"
    if isinstance(v, float):
        return repr(v)
    assert isinstance(v, int)
    return str(v)


def supplied(supply: str) -> tuple[dict[str, Any], dict[str, Any], dict[str, Any]]:
    """(keyword arguments, outer render data, variables the reference sees)."""
    both = {"v": VAL_V, "w": VAL_W}
    if supply in ("none", "missing", "strict"):
        return {}, {}, {}
    if supply == "kw":
        return both, {}, both
    if supply == "outer":
        return {}, both, both
    if supply == "outerB":  # other values, used between the renders of a history
        other = {"v": "B%", "w": 8}
        return {}, other, other
    if supply == "mixed":
        return {"v": VAL_V}, {"w": VAL_W}, both
    if supply == "shadow":  # docs/optional_tags.md: keyword arguments "add (or shadow existing) variables"
        return both, dict(OUTER_SHADOWED), both
    raise AssertionError(supply)


def filter_program(case: dict[str, Any]) -> tuple[str, dict[str, Any], dict[str, Any]]:
    """(template source, render data, variables as the reference sees them)."""
    construct, form = case["construct"], case["form"]
    s, p, count, ctx = case["s"], case["p"], case["count"], case["ctx"]
    kw, outer, refvars = supplied(case["supply"])
    # docs/babel.md: "Filter keyword arguments are merged with the current render context before
    # being used to replace variables in message text"
    kw = dict(kw, **case.get("extra_kw", {}))
    outer = dict(outer, **case.get("outer", {}))
    refvars = dict(case.get("outer", {}), **refvars)
    refvars.update(case.get("extra_kw", {}))
    data: dict[str, Any] = dict(outer)
    if form == "lit":
        left, plural, n, c = lit(s), (lit(p) if p is not None else None), (lit(count) if count is not None else None), lit(CTX)
        kwsrc = [f"{k}: {lit(val)}" for k, val in kw.items()]
    else:
        left, plural, n, c = "m", "p", "n", "c"
        data["m"] = s
        if p is not None:
            data["p"] = p
        if count is not None:
            data["n"] = count
        if ctx is not None:
            data["c"] = CTX
        kwsrc = []
        for k, val in kw.items():
            data["k" + k] = val
            kwsrc.append(f"{k}: k{k}")
    args: list[str] = []
    if construct == "t":
        if ctx is not None:
            args.append(c)
        if p is not None:
            args.append(f"plural: {plural}")
        if count is not None:
            args.append(f"count: {n}")
    elif construct == "gettext":
        assert p is None and count is None and ctx is None
    elif construct == "pgettext":
        assert p is None and count is None and ctx is not None
        args.append(c)
    elif construct == "ngettext":
        assert p is not None and count is not None and ctx is None
        args += [str(plural), str(n)]
    elif construct == "npgettext":
        assert p is not None and count is not None and ctx is not None
        args += [c, str(plural), str(n)]
    else:
        raise AssertionError(construct)
    args += kwsrc
    src = "[{{ " + left + " | " + construct + ((": " + ", ".join(args)) if args else "") + " }}]"
    return src, data, refvars


def tag_program(case: dict[str, Any]) -> tuple[str, dict[str, Any], dict[str, Any]]:
    s, p, count, ctx = case["s"], case["p"], case["count"], case["ctx"]
    kw, outer, refvars = supplied(case["supply"])
    data = dict(case.get("outer", {}), **outer)
    refvars = dict(case.get("outer", {}), **refvars)
    args: list[str] = []
    if ctx is not None:
        args.append(f"context: {lit(CTX)}")
    if count is not None:
        # docs/optional_tags.md: "Keyword arguments are used to add (or shadow existing) variables";
        # `count` is one of them, so {{ count }} shows the value the template supplied
        refvars["count"] = count
        if case.get("count_var"):
            args.append("count: n")
            data["n"] = count
        else:
            args.append(f"count: {lit(count)}")
    args += [f"{k}: {lit(val)}" for k, val in kw.items()]
    src = "[{% translate" + ((" " + ", ".join(args)) if args else "") + " %}" + s
    if p is not None:
        src += "{% plural %}" + p
    src += "{% endtranslate %}]"
    return src, data, refvars


# ---------------------------------------------------------------------------
# case enumeration
# ---------------------------------------------------------------------------
def _case(kind: str, construct: str, form: str, s: str, p: Optional[str], count: Any, ctx: Optional[str],
          supply: str, autoescape: bool, **extra: Any) -> dict[str, Any]:
    """``extra``: ``outer`` (more outer variables), ``extra_kw`` (more filter keyword arguments),
    ``count_var`` (the tag's count is passed as the variable ``n``)."""
    return {"kind": kind, "construct": construct, "form": form, "s": s, "p": p, "count": count, "ctx": ctx,
            "supply": supply, "autoescape": autoescape, **extra}


def filter_cases(m: str, full: bool) -> Iterator[dict[str, Any]]:
    """All filter cases of one message.  ``full`` = the complete matrix; otherwise the
    reduced matrix used for the 4-token layer of the thorough tier."""
    has = ref.has_placeholder(m)
    sup_m = SUPPLIES if has else ["none"]
    forms = ["lit", "var"]
    # A. no plural text: nothing to choose
    for construct, ctx in (("t", None), ("t", CTX), ("gettext", None), ("pgettext", CTX)):
        for form in forms:
            for ae in (False, True):
                for sup in sup_m:
                    yield _case("filter", construct, form, m, None, None, ctx, sup, ae)
    if not has:  # no placeholder in the message: no variable may be looked up (StrictUndefined env)
        for construct in ("t", "gettext"):
            for form in forms:
                yield _case("filter", construct, form, m, None, None, None, "strict", False)
    for count in (0, 2):  # t with a count but no plural text
        for form in forms:
            for sup in sup_m:
                yield _case("filter", "t", form, m, None, count, None, sup, False)
    # B. singular/plural pairs; m is the singular (role s) or the plural (role p)
    plural_constructs = (("t", None), ("t", CTX), ("ngettext", None), ("npgettext", CTX))
    # B1. partner "a" (no placeholder): every count
    o = OTHERS[0]
    sup_b = sup_m if full else sup_m[:2]
    for s, p in ((m, o), (o, m)):
        for count, extra in [(c, False) for c in COUNTS + [None]] + [(c, True) for c in EXTRA_COUNTS[:3]]:
            for form in forms if full else ["var"]:
                for ae in (False, True) if (full and not extra) else (False,):
                    if ae and count not in (1, 2):
                        continue
                    for sup in sup_b[:1] if extra else sup_b:
                        # t next to ngettext, t+context next to npgettext: see differential()
                        for construct, ctx in plural_constructs:
                            if count is None and construct != "t":
                                continue  # the count is a required argument of (n|np)gettext
                            yield _case("filter", construct, form, s, p, count, ctx, sup, ae)
    # B2. partner with a placeholder of its own: one singular and one plural count
    if full:
        o = OTHERS[1]
        for s, p in ((m, o), (o, m)):
            for count in (1, 2):
                for form, sup in (("lit", "kw"), ("var", "outer")):
                    for construct, ctx in plural_constructs:
                        yield _case("filter", construct, form, s, p, count, ctx, sup, False)


def tag_cases(b: str, full: bool) -> Iterator[dict[str, Any]]:
    has = ref.has_tag_var(b)
    sup_m = TAG_SUPPLIES if has else ["none"]
    for ctx in (None, CTX):
        for count in (None, 0, 2):  # a count without a plural block: nothing to choose
            for ae in (False, True):
                for sup in sup_m:
                    yield _case("tag", "translate", "lit", b, None, count, ctx, sup, ae)
    if not has:
        yield _case("tag", "translate", "lit", b, None, None, None, "strict", False)
    o = TAG_OTHERS[0]
    sup_b = sup_m if full else sup_m[:2]
    for s, p in ((b, o), (o, b)):
        for ctx, ae in ((None, False), (CTX, False), (None, True), (CTX, True)) if full else ((None, False),):
            counts = [None] + COUNTS if (ctx is None and not ae) else [None, 1, 2]
            for count in counts:
                for sup in sup_b:
                    yield _case("tag", "translate", "lit", s, p, count, ctx, sup, ae)
        for count in EXTRA_COUNTS:
            yield _case("tag", "translate", "lit", s, p, count, None, sup_b[0], False)
    if full:
        o = TAG_OTHERS[1]
        for s, p in ((b, o), (o, b)):
            for count in (1, 2):
                for sup in ("kw", "outer", "shadow"):
                    yield _case("tag", "translate", "lit", s, p, count, None, sup, False)


# -- placeholders that name the reserved variable `count` ------------------------------------
COUNT_ARGS: list[Any] = [None, 0, 1, 2, "2", "1", 1.0, 2.5, "many"]
OUTER_COUNT = {"count": 5}


def count_messages(kind: str) -> list[str]:
    toks = [""] + (TOKENS if kind == "count-filter" else TAG_TOKENS)
    ph = "%(count)s" if kind == "count-filter" else "{{ count }}"
    return [pre + ph + post for pre in toks for post in toks]


def count_tag_cases(b: str, full: bool = True) -> Iterator[dict[str, Any]]:
    """A body that shows {{ count }}: the placeholder is replaced by the variable named count,
    i.e. the `count:` argument as the template supplied it, else the outer variable, else nothing."""
    for outer in ({}, OUTER_COUNT):
        for count in COUNT_ARGS:
            for count_var in (False, True) if count is not None else (False,):
                for s, p in ((b, None), (b, "a"), ("a", b)):
                    yield _case("tag", "translate", "lit", s, p, count, None, "none", False,
                                outer=outer, count_var=count_var)


def count_filter_cases(m: str, full: bool = True) -> Iterator[dict[str, Any]]:
    """A message that shows %(count)s.  Not generated: `t` with a `count:` argument -- docs/
    optional_filters.md reserves plural and count and says "The remaining keyword arguments are used
    to populate translatable message variables", so whether count itself is one is not settled."""
    for form in ("lit", "var"):
        for outer in ({}, OUTER_COUNT):
            for construct, ctx in (("t", None), ("t", CTX), ("gettext", None), ("pgettext", CTX)):
                yield _case("filter", construct, form, m, None, None, ctx, "none", False, outer=outer)
                if construct != "t":
                    yield _case("filter", construct, form, m, None, None, ctx, "none", False,
                                outer=outer, extra_kw={"count": 3})
            for s, p in ((m, "a"), ("a", m)):
                for construct, ctx in (("ngettext", None), ("npgettext", CTX)):
                    for n in (1, 2):  # the positional count is not a variable named count
                        for extra_kw in ({}, {"count": 3}):
                            yield _case("filter", construct, form, s, p, n, ctx, "none", False,
                                        outer=outer, extra_kw=extra_kw)


# -- histories: one parsed translate node formats several messages ---------------------------
HISTORY_SEQS_VARS = [[(1, "outer"), (2, "outerB"), (1, "missing")], [(2, "outer"), (1, "outerB"), (5, "outer")]]
HISTORY_SEQS_PLAIN = [[(1, "none"), (2, "none"), (1, "none")], [(2, "none"), (1, "none"), (0, "none")]]
LOOP_COUNTS = [[1, 2, 1], [2, 1, 0]]


def history_cases(b: str) -> Iterator[dict[str, Any]]:
    for o in TAG_OTHERS:
        for s, p in ((b, o), (o, b)):
            has = ref.has_tag_var(s) or ref.has_tag_var(p)
            for seq in HISTORY_SEQS_VARS if has else HISTORY_SEQS_PLAIN:
                yield {"kind": "tag-history", "mode": "renders", "s": s, "p": p,
                       "steps": [{"count": c, "supply": sup} for c, sup in seq]}
            for ns in LOOP_COUNTS:
                yield {"kind": "tag-history", "mode": "loop", "s": s, "p": p, "counts": ns,
                       "supply": "outer" if has else "none"}


def run_history(h: dict[str, Any]) -> list[tuple[str, Optional[dict[str, Any]], Any]]:
    """Render ONE parsed template several times (mode renders) or let one translate node format
    several messages inside a for loop (mode loop); every output is compared with the reference
    for its own data.  Returns (label, violation, non-trivial identity) per render."""
    from mc.util import outcome

    _, env = get_env({"supply": "none", "autoescape": False})
    s, p = h["s"], h["p"]

    def step_case(count: Any, supply: str) -> dict[str, Any]:
        return _case("tag", "translate", "lit", s, p, count, None, supply, False, count_var=True)

    out: list[tuple[str, Optional[dict[str, Any]], Any]] = []
    if h["mode"] == "renders":
        steps = [step_case(st["count"], st["supply"]) for st in h["steps"]]
        src = tag_program(steps[0])[0]
        parsed = outcome(lambda: env.from_string(src))
        for i, sc in enumerate(steps):
            src_i, data, _ = tag_program(sc)
            assert src_i == src
            got = outcome(lambda: parsed.value.render(**data)) if parsed.ok else parsed
            label, viol, nontrivial, _ = check_case(sc, got=got)
            if viol is not None:
                viol["signature"]["history"] = "renders"
                viol["what"] = f"render {i + 1} of {len(steps)} of one parsed template ({h['steps']!r}): " + viol["what"]
                viol["case"] = h
            out.append(("history-renders:" + label, viol, ["history", i, h] if nontrivial is not None else None))
        return out
    counts, supply = h["counts"], h["supply"]
    cases = [step_case(c, supply) for c in counts]
    inner, data, _ = tag_program(cases[0])
    src = "{% for n in ns %}" + inner + "{% endfor %}"
    data = dict(data, ns=list(counts))
    data.pop("n", None)
    wants = {""}
    for sc in cases:
        wants = {a + b for a in wants for b in accepted_outputs(sc)}
    got = outcome(lambda: env.from_string(src).render(**data))
    if got.ok and got.value in wants:
        return [("history-loop:ok", None, ["history-loop", h])]
    sig = {"clause": "message-intact", "kind": "tag", "construct": "translate", "history": "loop", "autoescape": False,
           "feature": "none", "got": "wrong-output" if got.ok else "raise:" + str(got.error_class)}
    observed = repr(got.value) if got.ok else f"{got.error_class}: {got[2]!r}" + (f" at {got.where}" if got.where else "")
    what = f"{src!r} data={data!r} -> {observed}; reference (per iteration, its own count): {sorted(wants)!r}"
    return [("history-loop:VIOL:" + sig["got"], {"signature": sig, "what": what, "case": h}, ["history-loop", h])]


# ---------------------------------------------------------------------------
# execution on the real library
# ---------------------------------------------------------------------------
_ENVS: dict[str, Any] = {}
COUNTERS: Counter[str] = Counter()  # per-shard counters filled by check_case
_TEMPLATES: dict[tuple[str, str], Any] = {}


def get_env(case: dict[str, Any]) -> tuple[str, Any]:
    key = "strict" if case["supply"] == "strict" else ("autoescape" if case["autoescape"] else "plain")
    env = _ENVS.get(key)
    if env is None:
        from liquid import StrictUndefined
        from mc.util import make_env

        if key == "strict":
            env = make_env(extra=True, undefined=StrictUndefined)
        else:
            env = make_env(extra=True, autoescape=(key == "autoescape"))
        for name in ("t", "gettext", "ngettext", "pgettext", "npgettext"):
            if name not in env.filters:
                raise RuntimeError(f"harness binding lost: filter {name!r} is not registered by extra=True")
        if "translate" not in env.tags:
            raise RuntimeError("harness binding lost: tag 'translate' is not registered by extra=True")
        _ENVS[key] = env
    return key, env


def execute(case: dict[str, Any], src: str, data: dict[str, Any]) -> Any:
    from mc.util import outcome

    key, env = get_env(case)
    if case["form"] == "var":  # the template does not depend on the message: parse once
        tkey = (key, src)
        tmpl = _TEMPLATES.get(tkey)
        if tmpl is None:
            o = outcome(lambda: env.from_string(src))
            if not o.ok:
                return o
            tmpl = _TEMPLATES[tkey] = o.value
        return outcome(lambda: tmpl.render(**data))
    return outcome(lambda: env.from_string(src).render(**data))


def program(case: dict[str, Any]) -> tuple[str, dict[str, Any], dict[str, Any]]:
    return filter_program(case) if case["kind"] == "filter" else tag_program(case)


def excluded(case: dict[str, Any]) -> Optional[str]:
    """Cells the statement/docs do not settle (never guessed, always counted)."""
    if case["kind"] != "filter":
        return None
    texts = [case["s"]] + ([case["p"]] if case["p"] is not None else [])
    if case["autoescape"] and case["form"] == "var" and any("<" in t for t in texts):
        # a message taken from render data containing markup under autoescape: "text unchanged"
        # (C26) and "render data is escaped" (C05) pull in opposite directions
        return "autoescape-markup-in-message-variable"
    return None


def _expect(case: dict[str, Any]) -> tuple[Any, ...]:
    kind = case["kind"]
    s, p, count = case["s"], case["p"], case["count"]
    src, data, refvars = program(case)
    chosen, plural_chosen = ref.select(s, p, count, count is not None)
    other = None
    if p is not None and count is not None:
        other = s if plural_chosen else p
    if kind == "filter":
        wants = {"[" + e + "]" for e in ref.format_filter(chosen, refvars)}
        wants_other = {"[" + e + "]" for e in ref.format_filter(other, refvars)} if other is not None else set()
        flags = (("%" if ref.has_bare_percent(chosen) else "") + ("v" if ref.has_placeholder(chosen) else "")
                 + ("2" if ref.has_percent_digraph(chosen) else ""))
    else:
        wants = {"[" + e + "]" for e in ref.format_tag(chosen, refvars)}
        wants_other = {"[" + e + "]" for e in ref.format_tag(other, refvars)} if other is not None else set()
        flags = (("%" if "%" in chosen else "") + ("v" if ref.has_tag_var(chosen) else "")
                 + ("w" if ref.tag_collapses(chosen) else ""))
    return src, data, refvars, chosen, plural_chosen, other, wants, wants_other, flags


def accepted_outputs(case: dict[str, Any]) -> set[str]:
    """Every output the reference accepts for one case."""
    _, _, _, _, _, other, wants, wants_other, _ = _expect(case)
    if other is not None and ref.form_unspecified(case["count"]):
        return wants | wants_other
    return wants


def check_case(case: dict[str, Any], got: Any = None) -> tuple[str, Optional[dict[str, Any]], Any, Any]:
    """Run one case (or judge the observation ``got`` made elsewhere for it).  Returns (outcome
    label, violation or None, non-trivial identity or None, the observed outcome)."""
    kind, construct = case["kind"], case["construct"]
    s, p, count = case["s"], case["p"], case["count"]
    src, data, refvars, chosen, plural_chosen, other, wants, wants_other, flags = _expect(case)
    choice_visible = bool(wants_other) and not (wants & wants_other)
    either_form = other is not None and ref.form_unspecified(count)
    if either_form:  # which form a numeric-string count selects is not settled: accept both
        if choice_visible:
            COUNTERS["unspecified_excluded"] += 1
            COUNTERS["unspecified_excluded:form-selected-by-non-integer-count"] += 1
        wants, wants_other, choice_visible = wants | wants_other, set(), False
    nontrivial = None
    if flags or choice_visible:
        nontrivial = [kind, construct, case["form"], s, p, count, case["ctx"], case["supply"], case["autoescape"],
                      case.get("outer"), case.get("extra_kw"), case.get("count_var")]

    if got is None:
        got = execute(case, src, data)
    form_label = "none" if p is None or count is None else ("plural" if plural_chosen else "singular")
    if either_form:
        form_label = "either"
    if got.ok and got.value in wants:
        return f"{construct}:ok:{form_label}:{flags or '-'}", None, nontrivial, got

    def text_feature(t: Optional[str]) -> Optional[str]:
        """The input feature of one message text that discriminates a class of failures."""
        if t is None:
            return None
        if kind == "filter":
            if ref.has_percent_digraph(t):
                return "percent-digraph"
            return "literal-percent" if ref.has_bare_percent(t) else None
        return "percent-before-placeholder" if "%{{" in t else None

    sig: dict[str, Any] = {"kind": kind, "construct": construct, "autoescape": case["autoescape"]}
    if got.ok and choice_visible and got.value in wants_other:
        sig.update(clause="plural-choice", feature=f"count=={count!r}", got="other-form")
    else:
        sig.update(clause="message-intact", got="wrong-output" if got.ok else "raise:" + str(got.error_class))
        unselected = None if p is None else (s if plural_chosen else p)
        if text_feature(chosen):
            sig["feature"] = text_feature(chosen)
        elif text_feature(unselected):
            # only the text the reference does NOT select carries the feature: reachable only when
            # the implementation picks (or also formats) the other form
            sig["feature"] = f"{text_feature(unselected)}-in-unselected-form"
            sig["count"] = count
        elif kind == "tag" and "%" in chosen:
            sig["feature"] = "literal-percent"
        else:
            sig["feature"] = "none"
    clause, gotlabel = sig["clause"], sig["got"]
    observed = repr(got.value) if got.ok else f"{got.error_class}: {got[2]!r}" + (f" at {got.where}" if got.where else "")
    what = (f"{src!r} data={data!r}{' [StrictUndefined]' if case['supply'] == 'strict' else ''}"
            f"{' [autoescape]' if case['autoescape'] else ''} -> {observed}; reference: "
            f"{sorted(wants)!r} ({form_label} form, variables {refvars!r})")
    return f"{construct}:VIOL:{clause}:{gotlabel}", {"signature": sig, "what": what, "case": case}, nontrivial, got


SIBLING = {("t", None): "ngettext", ("t", CTX): "npgettext"}


def sibling_case(case: dict[str, Any]) -> Optional[dict[str, Any]]:
    """The ngettext / npgettext case with the same singular, plural, count, context and
    variables as a ``t`` case that has both a plural text and a count."""
    if case["kind"] != "filter" or case["construct"] != "t" or case["p"] is None or case["count"] is None:
        return None
    sib = dict(case)
    sib.pop("differential", None)
    sib["construct"] = SIBLING[(case["construct"], case["ctx"])]
    return sib


def differential(case: dict[str, Any], got_t: Any, got_sib: Any) -> Optional[dict[str, Any]]:
    """docs/babel.md "Translations": "The `t` filter can behave like any of the *gettext
    filters, depending on the arguments it is given. Where the *gettext filters require
    positional arguments for `context`, `count` and `plural`, `t` reserves optional `count`
    and `plural` keyword arguments."  So t with plural+count is ngettext (npgettext when a
    context is given) on the same arguments: same output, or the same kind of error."""
    if got_t.kind() == got_sib.kind():
        return None
    sib = sibling_case(case)
    assert sib is not None
    count = case["count"]
    sig = {"clause": "t-equals-sibling", "kind": "filter", "construct": "t", "sibling": sib["construct"],
           "feature": f"count:{type(count).__name__}", "autoescape": case["autoescape"]}
    src_t, data, _ = program(case)
    src_s, _, _ = program(sib)
    what = (f"{src_t!r} -> {got_t.kind()!r} but {src_s!r} -> {got_sib.kind()!r} with data={data!r} "
            f"(count {count!r}); docs/babel.md: t behaves like {sib['construct']} for these arguments")
    return {"signature": sig, "what": what, "case": dict(case, differential=True)}


# ---------------------------------------------------------------------------
class C26(Check):
    id = "C26"
    level = "exploration"
    rule = (
        "Messages = every distinct concatenation of <= L tokens of the 13-token alphabet (filters) / the same "
        "alphabet plus the placeholders {{ v }} and {{ w }} (translate tag bodies). Each message is executed on "
        "the real Environment(extra=True) without a translations variable: alone in t, t+context, gettext, "
        "pgettext (literal and variable left value, variables missing/keyword/outer/mixed, autoescape off/on, "
        "StrictUndefined when it has no placeholder), in t with a count but no plural, and as the singular and as "
        "the plural of a pair in t, t+context, ngettext, npgettext and {% translate %}{% plural %} for every "
        "count in {absent,0,1,2,5,-1,'2'} plus the numeric-string / integral-float counts {'1','0',1.0,0.0} (first "
        "supply only). Every t case with plural+count is also compared with the ngettext (npgettext when a context "
        "is given) case on the same arguments: same output or same error class (docs/babel.md: t 'can behave like "
        "any of the *gettext filters, depending on the arguments it is given'). Extra sections: (count) messages "
        "pre+%(count)s+post / bodies pre+{{ count }}+post for every pre, post in alphabet+{''}, with the count argument "
        "in {absent,0,1,2,'2','1',1.0,2.5,'many'} (literal and variable), an outer variable count absent/5 and (filters "
        "other than t) a keyword count: 3 -- the placeholder shows the variable the template supplied; (history) for "
        "every tag body of <= 3 tokens paired with each partner in both roles, ONE parsed template rendered 3 times "
        "with different counts and outer variables, and the tag inside {% for n in ns %} with counts [1,2,1] / "
        "[2,1,0], each output compared with the reference for its own data. Filter templates of the variable form "
        "are parsed once per shard and reused for every message, so filters are exercised with histories too. Oracle = mc/ref/c26_model.py (form chosen by calling "
        "gettext.NullTranslations.ngettext; one-pass %(name)s / {{ name }} substitution with the values verbatim; "
        "every other character unchanged (in filter messages %% may also come out as %); tag text stripped and whitespace runs collapsed); any exception is a violation. Non-trivial = "
        "the selected text contains a % or a placeholder or (tag) whitespace to collapse, or a plural text and a "
        "count are given and the two forms format differently."
    )
    assumptions = [
        "variable values are the str 'V%(w)s%%' and the int 7; names are v and w; other values/names behave alike",
        "the other half of a singular/plural pair ranges over a fixed 2-element set, not over all messages",
        "the %% digraph in filter messages is two-valued: '%%' (unchanged) and '%' (printf) are both accepted, "
        "consistently per message; a %(name)s after an even run of % may be text (printf pairing) or substituted",
        "a message variable holding markup under autoescape is excluded (C05 vs C26 conflict)",
        "for whitespace runs without a newline in a tag body both 'collapsed' and 'kept' are accepted",
        "thorough tier: 4-token messages get a reduced matrix (see bounds)",
        "for a numeric-string count whose integer conversion selects another form than the raw string ('1') either "
        "form is accepted (docs call the count 'a number' and are silent on strings); t must still agree with "
        "ngettext/npgettext; non-integral floats are outside gettext's domain and not generated",
    ]

    def bounds(self, tier: str) -> dict[str, Any]:
        n = max_tokens(tier)
        b: dict[str, Any] = {
            "tokens": TOKENS,
            "tag_extra_tokens": ["{{ v }}", "{{ w }}"],
            "max_tokens": n,
            "filter_messages": len(messages("filter", n)),
            "tag_bodies": len(messages("tag", n)),
            "counts": ["absent"] + COUNTS,
            "extra_counts_first_supply_only": {"filters": EXTRA_COUNTS[:3], "tag": EXTRA_COUNTS},
            "full_matrix_filters": (
                "messages of <= 3 tokens: no-plural forms t, t+context, gettext, pgettext x {literal, variable} x "
                "autoescape {off,on} x supplies {missing,kw,outer,mixed} (only 'none' when the message has no "
                "placeholder; then also t/gettext under StrictUndefined); t with count {0,2} and no plural; pairs with "
                "partner 'a' in both roles x {t, t+context, ngettext, npgettext} x every count (autoescape on for "
                "counts 1,2) x {literal, variable} x supplies; pairs with partner '(%(w)s' x counts {1,2} x "
                "{literal+kw, variable+outer}; extra counts {'1','0',1.0} x {literal, variable} x first supply"
            ),
            "full_matrix_tag": (
                "bodies of <= 3 tokens: no plural block x context {absent,'ctx'} x count {absent,0,2} x autoescape "
                "{off,on} x supplies {missing,kw,outer,mixed,shadow} (StrictUndefined when there is no {{ }} "
                "placeholder); pairs with partner 'a' in both roles x every count (context absent, autoescape off) and "
                "counts {absent,1,2} for the other context/autoescape combinations x supplies; partner '({{ w }}' x "
                "counts {1,2} x supplies {kw,outer,shadow}"
            ),
        }
        if n > N_FULL:
            b["reduced_matrix_4_tokens"] = ("no-plural forms in full; pairs only with partner 'a', variable form "
                                            "(filters), autoescape off, no context (tag), supplies {missing, kw}")
        return b

    def shards(self, tier: str) -> list[Any]:
        n = 48 if tier == "quick" else 384
        k = 16 if tier == "quick" else 64
        return ([(kind, r, n) for r in range(n) for kind in ("filter", "tag")]
                + [(kind, r, k) for r in range(k) for kind in ("count-filter", "count-tag", "history")])

    def run_shard(self, shard: Any, tier: str) -> Result:
        from mc.util import reset_memo

        reset_memo()
        kind, r, n = shard
        res = Result()
        sampled: set[Any] = set()
        pending: dict[Any, Any] = {}
        COUNTERS.clear()
        if kind == "history":
            bodies = messages("tag", max_tokens(tier))
            for i in range(r, len(bodies), n):
                if bodies[i][1] > N_FULL:
                    continue  # histories: bodies of <= 3 tokens in both tiers
                res.count("history_bodies")
                for h in history_cases(bodies[i][0]):
                    for label, viol, nontrivial in run_history(h):
                        sample = None
                        if h["mode"] not in sampled and i > 200 and viol is None:
                            sampled.add(h["mode"])
                            sample = dict(h, outcome=label)
                        res.case(nontrivial=nontrivial, outcome=label, sample=sample)
                        if viol is not None:
                            res.violation(viol["signature"], viol["what"], viol["case"])
            for k, v in COUNTERS.items():
                res.count(k, v)
            return res
        if kind in ("count-filter", "count-tag"):
            msgs = [(m, 0) for m in count_messages(kind)]
            gen = count_filter_cases if kind == "count-filter" else count_tag_cases
            if kind == "count-filter":
                res.count("unspecified_excluded:t-count-argument-shown-as-%(count)s(not generated)", len(msgs[r::n]))
        else:
            msgs = messages(kind, max_tokens(tier))
            gen = filter_cases if kind == "filter" else tag_cases
        for i in range(len(msgs) - 1 - r, -1, -n):  # longest messages first (only affects which samples are kept)
            m, ntok = msgs[i]
            res.count(f"{kind.replace('-', '_')}_messages")
            if kind == "tag" and ref.tag_ws_ambiguous(m):
                res.count("tag_bodies_with_newline_free_ws_run(both_readings_accepted)")
            for case in gen(m, ntok <= N_FULL):
                why = excluded(case)
                if why is not None:
                    res.count("unspecified_excluded")
                    res.count("unspecified_excluded:" + why)
                    continue
                label, viol, nontrivial, got = check_case(case)
                if kind == "filter" and case["p"] is not None and case["count"] is not None:
                    if case["construct"] == "t":
                        pending[case["ctx"]] = (case, got)
                    else:  # ngettext / npgettext directly follows its t twin in the enumeration
                        t_case, got_t = pending.pop(case["ctx"], (None, None))
                        if t_case is None or sibling_case(t_case) != case:
                            raise RuntimeError(f"enumeration order lost: no t twin for {case!r}")
                        dv = differential(t_case, got_t, got)
                        res.count("t_vs_sibling_comparisons")
                        res.outcomes[f"t-vs-{case['construct']}:{'VIOL' if dv else 'same'}"] += 1
                        if dv is not None:
                            res.violation(dv["signature"], dv["what"], dv["case"])
                sample = None
                if (len(res.samples) < Result.MAX_SAMPLES and nontrivial is not None and viol is None
                        and label not in sampled and (case["s"], case["p"]) not in sampled):
                    sampled.update((label, (case["s"], case["p"])))
                    src, data, _ = program(case)
                    sample = {"template": src, "data": data, "autoescape": case["autoescape"], "outcome": label}
                res.case(nontrivial=nontrivial, outcome=label, sample=sample)
                if viol is not None:
                    res.violation(viol["signature"], viol["what"], viol["case"])
        _TEMPLATES.clear()
        if pending:
            raise RuntimeError(f"enumeration order lost: t cases without a sibling: {list(pending.values())[:1]!r}")
        for k, v in COUNTERS.items():
            res.count(k, v)
        return res

    def replay(self, case: Any) -> list[dict[str, Any]]:
        if case["kind"] == "tag-history":
            return [v for _, v, _ in run_history(case) if v is not None]
        if excluded(case) is not None:
            return []
        if case.get("differential"):
            sib = sibling_case(case)
            assert sib is not None
            got_t, got_sib = check_case(case)[3], check_case(sib)[3]
            dv = differential(case, got_t, got_sib)
            return [dv] if dv else []
        _, viol, _, _ = check_case(case)
        return [viol] if viol else []


CHECK = C26()
