"""C01 — synchronous and asynchronous APIs behave identically.

Parts (all exhaustive within their stated bounds, executed on the real engine):
  R  render(): every program of the shared corpus, every tag template of C02 with its holes
     filled from the pool, every filter (arity 0/1) over the pool, and a dedicated corpus
     (bracketed roots, if/elsif/else shapes, offset forms, partial names with directories,
     extends, macros, with, translate, ternaries) under the FULL PRODUCT of the eight
     boolean environment flags (+ autoescape), rendered with render() and render_async().
  L  loaders: get_template vs get_template_async on FRESH loaders of every kind, with and
     without namespace arguments, over a pool of names.
  A  analysis: analyze()/analyze_async() and friends, analyze_tags/analyze_tags_async.
Oracle: same output, or both fail with the same error class; a non-Liquid exception on
exactly one side is a violation too.
"""

from __future__ import annotations

import itertools
import os
import shutil
import tempfile
import warnings
from typing import Any
from typing import Iterator

import liquid
from mc import util as U
from mc.core import Check
from mc.core import Result
from mc.gen import programs as G
from mc.props import c02 as C02

BOOL_FLAGS = ("string_sequences", "string_first_and_last", "shorthand_indexes", "logical_not_operator",
              "logical_parentheses", "ternary_expressions", "keyword_assignment",
              "suppress_blank_control_flow_blocks")

PARTIALS = dict(G.PARTIALS)
PARTIALS.update({
    "base": "<base>{% block a %}A{{ x }}{% endblock %}|{% block b %}B{% endblock %}</base>",
    "mid": "{% extends 'base' %}{% block a %}M{{ block.super }}{% endblock %}",
    "leaf": "{% extends 'mid' %}{% block a %}L{{ block.super }}{% endblock %}{% block b %}{{ v }}{% endblock %}",
    "inc/deep/t.html": "<t:{{ t }}{{ x }}>",
    "loop": "{% for i in a %}{{ i }}{% break %}{% endfor %}{% break %}after",
    "self": "{% render 'self' %}",
    # partials that keep state while they render: what a reused (instead of fresh) context would leak
    "st": "<{{ s }}{% assign s = 'set' %}{% increment c %}{% cycle 'a', 'b' %}{% capture k %}K{{ k }}{% endcapture %}{{ k }}>",
    "stv": "<{{ v }}{% assign v = 'over' %}{{ forloop.index }}>",
    # interrupts that reach a loop from inside a partial, required blocks, circular / missing parents
    "brk": "{% if i == x %}{% break %}{% endif %}",
    "cnt": "{% if i == x %}{% continue %}{% endif %}",
    "reqbase": "<rb>{% block a required %}{% endblock %}|{% block b %}B{% endblock %}</rb>",
    "reqleaf": "{% extends 'reqbase' %}{% block b %}b{% endblock %}",
    "reqok": "{% extends 'reqbase' %}{% block a %}a{{ x }}{% endblock %}",
    "cyc1": "{% extends 'cyc2' %}{% block a %}1{% endblock %}",
    "cyc2": "{% extends 'cyc1' %}{% block a %}2{% endblock %}",
    "orphan": "{% extends 'nosuchparent' %}{% block a %}o{% endblock %}",
})

DEDICATED: list[str] = [
    "{{ [x] }}|{{ ['a b'] }}|{{ [y].a }}|{{ y[x] }}|{{ a[x] }}",
    "{{ ['a b'].c }}{{ [x][0] }}{{ [y.a] }}",
    "{{ y.b.0 }}{{ a.0 }}{{ a.first }}{{ x.first }}{{ x.last }}{{ x[0] }}{{ x.size }}",
    "{% if x %}1{% endif %}",
    "{% if x %}1{% else %}2{% endif %}",
    "{% if x == 1 %}1{% elsif x == 'a b' %}2{% endif %}",
    "{% if x == 9 %}1{% elsif y.a %}2{% elsif a %}3{% else %}4{% endif %}",
    "{% if x == 9 %}1{% elsif nosuch %}2{% elsif a.size > 1 %}3{% endif %}",
    "{% unless x %}1{% elsif y %}2{% else %}3{% endunless %}",
    "{% if not x and (y or a) %}1{% else %}2{% endif %}",
    "{% case x %}{% when 1 %}1{% when 'a b' %}2{% else %}3{% endcase %}",
    "{% case x %}{% when y.a, a[0] %}1{% else %}3{% endcase %}",
    "{% for i in a offset: '1' %}{{ i }}{% endfor %}",
    "{% for i in a offset: x limit: '2' %}{{ i }}{% endfor %}",
    "{% for i in a limit: 1 %}{{ i }}{% endfor %}{% for i in a offset: continue %}{{ i }}{% endfor %}",
    "{% for i in a offset: 'continue' %}{{ i }}{% endfor %}",
    "{% tablerow i in a offset: '1' cols: '2' %}{{ i }}{% endtablerow %}",
    "{% tablerow i in a cols: x limit: x %}{{ i }}{{ tablerowloop.col_last }}{% endtablerow %}",
    "{% for c in x %}{{ c }}{% endfor %}|{% for c in 'ab' %}{{ c }}{% endfor %}",
    "{% include 'sub/p.liquid' with x %}|{% include 'sub/p.liquid' for a %}",
    "{% include 'inc/deep/t.html' with x %}|{% include 'inc/deep/t.html' for a %}",
    "{% render 'sub/p.liquid' with x %}|{% render 'sub/p.liquid' for a %}|{% render 'inc/deep/t.html' with x %}",
    "{% render 'sub/p.liquid' with x as p %}|{% render 'inc/deep/t.html' for a as t %}",
    "{% include 'p' with x as v %}|{% include 'p' for a as v %}|{% include 'p', v: x, x: 2 %}",
    "{% render 'p', v = x %}{% include 'p', v = 2 %}",
    "{% render 'leaf', v: x %}|{% include 'leaf' %}",
    "{% render 'nosuch' %}",
    "{% include 'nosuch' %}",
    "{% include x %}|{% render 'p' for x as v %}",
    "{% for i in a %}{% include 'loop' %}{{ i }}{% endfor %}",
    "{% for i in a %}{% render 'loop' %}{{ i }}{% endfor %}",
    "{% render 'self' %}",
    "{% render 'st' for a %}|{% render 'st' for a as s %}|{% render 'stv' for a as v %}",
    "{% include 'st' for a %}|{% include 'stv' for a as v %}{{ v }}{{ s }}",
    "{% for i in a %}{% render 'st' %}{% render 'stv' with i as v %}{% endfor %}",
    "{% case x %}{% when 1, 1 %}a{% when x or 2 %}b{% when y.a, x, 'a b' %}c{% else %}d{% endcase %}",
    "{% with v: 2, w: v %}{{ v }}{{ w }}{% endwith %}{% with w: v, v: 3 %}{{ w }}{% endwith %}",
    # short-circuit evaluation: the right operand would raise if it were evaluated
    "{% if nosuch and nosuch < 1 %}a{% else %}b{% endif %}|{% if x or nosuch < 1 %}c{% else %}d{% endif %}",
    "{% if y.zz and y.zz >= x %}a{% else %}b{% endif %}{% unless x or a > x %}c{% else %}d{% endunless %}",
    "{{ 'T' if x or a < 1 else 'F' }}{% if false and a > 1 %}a{% elsif nil and y < 1 %}b{% else %}c{% endif %}",
    # found with tools/line_cov.py: lines of async code paths that no case above executed
    "{% tablerow i in a %}{{ i }}{{ tablerowloop.col }}{{ tablerowloop.row }}{{ tablerowloop.col_last }}{% endtablerow %}|{% tablerow i in (1..x) %}{{ i }}{% endtablerow %}",
    "{% for j in y.b %}[{% tablerow i in a cols: 2 %}{% include 'brk' %}{{ i }}{% endtablerow %}]{% endfor %}",
    "{% for j in y.b %}[{% tablerow i in a %}{% include 'cnt' %}{{ i }}{% endtablerow %}]{% endfor %}",
    "{% for i in a %}{% include 'brk' %}{{ i }}{% endfor %}|{% for i in a %}{% include 'cnt' %}{{ i }}{% endfor %}",
    "{% cycle 'g': 1, 2, 3 %}{% cycle 'g': 1, 2, 3 %}{% cycle 'g': 1 %}{% cycle 'g': 1 %}{% cycle 1, 2, 3 %}{% cycle 1, 2, 3 %}{% cycle 1 %}",
    "{% macro m p, q %}[{{ p }}|{{ q }}|{{ q | default: 'dq' }}]{% endmacro %}{% call m 1 %}{% call m %}{% call m q: x %}",
    "{% snippet s %}S{{ x }}{{ v }}{% endsnippet %}{% render s %}{% render s, v: 2 %}{% render s for a as v %}",
    "{% render nosuch %}",
    "{% render x %}",
    "{% assign s = 'p' %}{% render s %}",
    "{% block a required %}{% endblock %}",
    "{% include 'reqleaf' %}",
    "{% extends 'reqbase' %}{% block b %}page{% endblock %}",
    "{% extends 'reqbase' %}{% block a %}page{{ x }}{% endblock %}",
    "{% include 'reqok' %}|{% render 'reqok' %}",
    "{% extends 'cyc1' %}{% block a %}0{% endblock %}",
    "{% include 'cyc2' %}",
    "{% extends 'orphan' %}",
    "{% include 'orphan' %}",
    "{% extends 'nosuchparent' %}{% block a %}{{ x }}{% endblock %}",
    "{% for i in a %}{{ forloop.nosuch }}{{ forloop['index'] }}{{ forloop[x] }}{% endfor %}{% tablerow i in a %}{{ tablerowloop.nosuch }}{{ tablerowloop[x] }}{% endtablerow %}",
    "{% block b %}{{ block.nosuch }}{{ block[x] }}{{ block.super }}{% endblock %}|{{ a.0.k }}{{ a.1.0 }}{{ y.b.0.1 }}",
    "{{ x | nosuchfilter: 1 }}{{ '<script>a</script>b<style>c</style>' | strip_html }}",
    # inheritance state within one render: an inheriting partial, then the same block names without inheritance
    "{% include 'leaf' %}|{% include 'base' %}|{% render 'leaf' %}|{% render 'base' %}",
    "{% include 'mid' %}{% block a %}page-a{{ x }}{% endblock %}{% block b %}page-b{% endblock %}",
    "{% render 'leaf', v: 1 %}{% block a %}P{% endblock %}{% include 'mid' %}{% block b %}Q{% endblock %}",
    "{{ y | first }}{{ y.b | last }}{{ nosuch | first }}{{ a | first | first }}",
    "{% macro m p, q: x %}[{{ p }}{{ q }}{{ args | join: ',' }}{{ kwargs.k }}]{% endmacro %}{% call m 1 %}{% call m x, 2, 3, k: y.a %}{% call nom %}",
    "{% with v: x, w: y.a %}{{ v }}{{ w }}{% with v: 2 %}{{ v }}{% endwith %}{{ v }}{% endwith %}{{ v }}",
    "{% translate count: x, v: y.a %}One {{ v }}{% plural %}Many {{ count }} {{ v }}{% endtranslate %}",
    "{{ 'm %(v)s' | t: v: x }}|{{ 'one' | ngettext: 'many', x }}|{{ 'c' | pgettext: 'm' }}",
    "{{ 'T' if x else 'F' }}|{{ x | upcase if y.a else a | join: '' || append: '!' }}",
    "{{ x if not y else a | first }}",
    "{% assign q = x if y else 2 %}{{ q }}{% echo 'a' if nosuch else 'b' | upcase %}",
    "{% assign q = a | map: 'k' %}{{ q | join: ',' }}{{ a | where: 'k', 2 | size }}{{ a | sum: 'k' }}",
    "{% capture c %}{% cycle 'g': 1, 2 %}{% cycle 'g': 1, 2 %}{% cycle x: 'a', 'b' %}{% endcapture %}{{ c }}{{ c | size }}",
    "{% increment x %}{% increment x %}{{ x }}{% decrement z %}{{ z }}",
    "{% ifchanged %}{{ x }}{% endifchanged %}{% ifchanged %}{{ x }}{% endifchanged %}",
    "{% liquid\nfor i in a\nif i == x\necho 'E'\nelsif forloop.last\necho 'L'\nelse\necho i\nendif\nendfor %}",
    "{% for i in a %}{% for j in y.b %}{{ forloop.parentloop.index0 }}{{ forloop.rindex }}{% endfor %}{% else %}E{% endfor %}",
    "{% if a contains x %}1{% endif %}{% if x contains 'a' %}2{% endif %}{% if y contains 'a' %}3{% endif %}",
    "{% if x < y %}1{% endif %}",
    "{% if x == empty or a == blank %}1{% else %}2{% endif %}",
    "{{ x | date: '%Y' }}{{ x | default: y.a | json }}{{ y | json }}",
    "{{ nosuch | upcase }}{{ x | nosuchfilter }}",
    "{% assign x.y = 1 %}",
    "{% break %}x{% continue %}y",
    "{# c #}{{ x }}{% comment %}{% if %}{% endcomment %}{% raw %}{{ y }}{% endraw %}{% doc %}d{% enddoc %}{% # i %}",
]

DATA: list[tuple[str, dict[str, Any]]] = list(G.DATA_SETS) + [
    ("D6", {"x": "a", "y": {"a": "a"}, "a": ["a", "b"]}),
    ("D7", {"x": 2, "y": {"a": 2, "b": []}, "a": [{"k": 2}, {"k": 1}]}),
]


def both(tpl: Any, data: dict[str, Any]) -> tuple[U.Outcome, U.Outcome]:
    with warnings.catch_warnings():
        warnings.simplefilter("ignore")
        s = U.render(tpl, data)
        a = U.render_async(tpl, data)
    return s, a


def same(s: U.Outcome, a: U.Outcome) -> bool:
    return s.kind() == a.kind()


class C01(Check):
    id = "C01"
    level = "exploration"
    rule = (
        "R: render vs render_async on (a) all shared-corpus programs x data sets, (b) every C02 tag template x "
        "pool^holes, (c) every filter arity 0/1 x pool, (d) a 56-template dedicated corpus x 8 data sets x the full "
        "product of 8 boolean environment flags x autoescape x {strict,lax}; L: get_template vs get_template_async "
        "on fresh loaders of 7 kinds x namespace modes x names; A: sync vs async analysis on every corpus program "
        "and dedicated template; X: liquid.render / Environment.render vs their _async twins on the dedicated corpus. "
        "The dedicated corpus includes one template per async code line that tools/line_cov.py (line coverage of "
        "every `async def` in the library under this check) found unexecuted and that is reachable from the "
        "statement's domain. Non-trivial = both renders completed with non-empty output or an error."
    )
    assumptions = ["render coroutines over dict loaders never suspend (driven with send(None)); file-system loaders run on a private event loop"]

    def bounds(self, tier: str) -> dict[str, Any]:
        return {"programs": "n<=2 core" if tier == "quick" else "n<=2 full+extra, n<=3 core",
                "flag_product": 2 ** len(BOOL_FLAGS) * 2, "pool": len(U.pool(tier))}

    def shards(self, tier: str) -> list[Any]:
        sh: list[Any] = []
        nprog = 16 if tier == "quick" else 64
        sh += [("P", i, nprog) for i in range(nprog)]
        sh += [("T", i) for i in range(len(C02.TAG_TEMPLATES))]
        names = sorted(C02.env_for("A").filters)
        sh += [("F", names[i::16]) for i in range(16)]
        combos = list(itertools.product([False, True], repeat=len(BOOL_FLAGS)))
        for i in range(32):
            sh.append(("D", combos[i::32]))
        sh += [("L", k) for k in range(len(loader_kinds()))]
        sh += [("A", i, 8) for i in range(8)]
        sh.append(("X",))
        return sh

    def run_shard(self, shard: Any, tier: str) -> Result:
        res = Result()
        k = shard[0]
        if k == "P":
            self.run_programs(shard[1], shard[2], tier, res)
        elif k == "T":
            self.run_tag(shard[1], tier, res)
        elif k == "F":
            self.run_filters(shard[1], tier, res)
        elif k == "D":
            self.run_dedicated(shard[1], tier, res)
        elif k == "L":
            self.run_loader(shard[1], tier, res)
        elif k == "X":
            self.run_api(res)
        else:
            self.run_analysis(shard[1], shard[2], tier, res)
        return res

    # -- render comparisons ---------------------------------------------------
    def compare(self, res: Result, tpl: Any, src: str, data: dict[str, Any], labels: Any, family: str,
                envdesc: Any) -> None:
        s, a = both(tpl, data)
        nt = None
        if (s.ok and s.value) or not s.ok:
            nt = [family, src, labels, envdesc]
        res.case(nontrivial=nt, outcome=f"{family}:{'ok' if s.ok else s[0] + ':' + str(s.error_class)}")
        if not same(s, a):
            construct = src if family in ("D", "T") else family
            res.violation(
                {"clause": "render-sync-vs-async", "family": family, "sync": s.kind()[0] if s.ok else s.error_class,
                 "async": a.kind()[0] if a.ok else a.error_class, "construct": construct[:120]},
                f"{src!r} data={labels} env={envdesc}: sync -> {s.kind()!r}  async -> {a.kind()!r}",
                {"part": "R", "source": src, "data": C02.encode_data(data), "env": envdesc},
            )

    def run_programs(self, i: int, n: int, tier: str, res: Result) -> None:
        if tier == "quick":
            progs: Iterator[Any] = G.programs(2, 2, level="core", extra=False)
        else:
            progs = itertools.chain(G.programs(2, 2, level="full", extra=True), G._progs_exact(3, 2, *G.menus("core")))
        mine = [prog for j, prog in enumerate(progs) if j % n == i]
        for mode in ("strict", "lax"):
            envdesc = {"kind": "A", "mode": mode}
            env = make_env_desc(envdesc)
            for prog in mine:
                with warnings.catch_warnings():
                    warnings.simplefilter("ignore")
                    p = U.parse(env, prog.source)
                if not p.ok:
                    continue
                for lab, data in G.DATA_SETS:
                    self.compare(res, p.value, prog.source, data, lab, "P", envdesc)

    def run_tag(self, idx: int, tier: str, res: Result) -> None:
        src = C02.TAG_TEMPLATES[idx]
        if "'now'" in src or "'today'" in src:
            # prints the current time: two renders may straddle a clock tick (the statement compares outputs,
            # and the clock is not an input); C02 keeps the template, it only looks at error classes
            res.count("tag_templates_excluded:current-time")
            return
        pool = U.pool(tier)
        hs = C02.holes(src)
        for envdesc in ({"kind": "A", "mode": "strict"}, {"kind": "A", "mode": "lax"}, {"kind": "B", "mode": "strict"}):
            env = make_env_desc(envdesc)
            with warnings.catch_warnings():
                warnings.simplefilter("ignore")
                p = U.parse(env, src)
            if not p.ok:
                continue
            sub = pool if len(hs) <= 2 or envdesc["mode"] == "strict" and envdesc["kind"] == "A" else pool[::2]
            for combo in itertools.product(sub, repeat=len(hs)):
                data: dict[str, Any] = {"x": 1, "a": [1, 2]}
                for h, (_, v) in zip(hs, combo):
                    if v is not U.MISSING:
                        data[h] = v
                self.compare(res, p.value, src, data, [c[0] for c in combo], "T", envdesc)

    def run_filters(self, names: list[str], tier: str, res: Result) -> None:
        pool = U.pool(tier)
        for envdesc in ({"kind": "A", "mode": "strict"}, {"kind": "B", "mode": "strict"}):
            env = make_env_desc(envdesc)
            for nm in names:
                for src, ar in (("{{ l | %s }}" % nm, 0), ("{{ l | %s: m }}" % nm, 1), ("{{ l | %s: m, n }}" % nm, 2)):
                    p = U.parse(env, src)
                    if not p.ok:
                        continue
                    for (ll, lv) in pool:
                        d0 = U.data_with("l", lv)
                        if ar == 0:
                            self.compare(res, p.value, src, d0, [ll], "F", envdesc)
                            continue
                        for (ml, mv) in pool:
                            d1 = U.data_with("m", mv, d0)
                            if ar == 1:
                                self.compare(res, p.value, src, d1, [ll, ml], "F", envdesc)
                            elif tier != "quick" or envdesc["kind"] == "A":
                                for (nl, nv) in pool[::3] if tier == "quick" else pool:
                                    self.compare(res, p.value, src, U.data_with("n", nv, d1), [ll, ml, nl], "F", envdesc)

    def run_dedicated(self, combos: list[tuple[bool, ...]], tier: str, res: Result) -> None:
        for combo in combos:
            flags = dict(zip(BOOL_FLAGS, combo))
            for autoescape in (False, True):
                for mode in ("strict", "lax"):
                    if mode == "lax" and autoescape:
                        continue
                    envdesc = {"kind": "flags", "flags": flags, "autoescape": autoescape, "mode": mode}
                    env = make_env_desc(envdesc)
                    for src in DEDICATED:
                        with warnings.catch_warnings():
                            warnings.simplefilter("ignore")
                            p = U.parse(env, src)
                        if not p.ok:
                            res.count("dedicated_rejected_by_parser")
                            continue
                        for lab, data in DATA:
                            self.compare(res, p.value, src, data, lab, "D", envdesc)

    # -- loaders ---------------------------------------------------------------
    def run_loader(self, k: int, tier: str, res: Result) -> None:
        kind = loader_kinds()[k]
        sandbox = tempfile.mkdtemp(prefix="c01_")
        try:
            for ns_mode in ("none", "kwarg", "context", "kwarg-missing-ns"):
                for name in LOADER_NAMES:
                    for glb in (None, {"g": 7}):
                        case = {"part": "L", "kind": kind, "ns_mode": ns_mode, "name": name, "globals": glb}
                        for v in loader_case(case, sandbox):
                            res.violation(v["signature"], v["what"], case)
                        res.case(nontrivial=[kind, ns_mode, name, glb is not None], outcome=f"L:{kind}")
            # request sequences on one loader (miss then hit), sync API vs async API
            if kind.startswith("caching"):
                seqs = [[None, {"g": 7}], [{"g": 7}, None], [{"g": 7}, {"g": 8}], [{"g": 7}, {"g": 7}, None]]
                for ns_mode in ("none", "kwarg", "context"):
                    for name in ("a", "sub/b", "missing", "both"):
                        for auto in (True, False):
                            for envg in (True, False):
                                for gs in seqs:
                                    case = {"part": "LS", "kind": kind, "ns_mode": ns_mode, "name": name,
                                            "auto_reload": auto, "env_globals": envg, "globals_seq": gs}
                                    for v in loader_seq_case(case, sandbox):
                                        res.violation(v["signature"], v["what"], case)
                                    res.case(nontrivial=["LS", kind, ns_mode, name, auto, envg, gs], outcome=f"LS:{kind}")
        finally:
            shutil.rmtree(sandbox, ignore_errors=True)

    # -- convenience render APIs ------------------------------------------------
    def run_api(self, res: Result) -> None:
        """liquid.render / liquid.render_async and Environment.render / render_async (source + data in one call)."""
        import liquid

        env = make_env_desc({"kind": "A", "mode": "strict"})
        srcs = DEDICATED + ["{{ x }}{{ y.a }}{% for i in a %}{{ i }}{% endfor %}", "{% if %}", "{{ x | nosuchfilter }}", ""]
        for src in srcs:
            for lab, data in DATA:
                kw = {k: v for k, v in data.items() if isinstance(k, str)}
                for api, sfn, afn in (("liquid.render", liquid.render, liquid.render_async),
                                      ("Environment.render", env.render, env.render_async)):
                    with warnings.catch_warnings():
                        warnings.simplefilter("ignore")
                        so = U.outcome(lambda: sfn(src, **kw))
                        ao = U.outcome(lambda: U.run_coro(afn(src, **kw)))
                    res.case(nontrivial=["X", api, src, lab], outcome="X:" + (so.kind()[0] if not so.ok else "ok"))
                    if so.kind() != ao.kind():
                        res.violation({"clause": "render-sync-vs-async", "family": "X", "api": api,
                                       "sync": "ok" if so.ok else so.error_class, "async": "ok" if ao.ok else ao.error_class},
                                      f"{api}({src!r}, **{lab}): sync {so.kind()!r} != async {ao.kind()!r}",
                                      {"part": "X", "api": api, "source": src, "data": lab})

    # -- analysis ----------------------------------------------------------------
    def run_analysis(self, i: int, n: int, tier: str, res: Result) -> None:
        env = make_env_desc({"kind": "A", "mode": "strict"})
        srcs: list[str] = [p.source for p in G.programs(2, 2, level="full" if tier != "quick" else "core", extra=True)]
        srcs += DEDICATED
        for j, src in enumerate(srcs):
            if j % n != i:
                continue
            case = {"part": "A", "source": src}
            for v in analysis_case(case, env):
                res.violation(v["signature"], v["what"], case)
            res.case(nontrivial=["A", src], outcome="A")
        if i == 0:
            for name in list(PARTIALS) + ["nosuch"]:
                case = {"part": "AT", "name": name}
                for v in analyze_tags_case(case, env):
                    res.violation(v["signature"], v["what"], case)
                res.case(nontrivial=["AT", name], outcome="AT")

    # -- replay ---------------------------------------------------------------------
    def replay(self, case: Any) -> list[dict[str, Any]]:
        res = Result()
        part = case["part"]
        if part == "R":
            env = make_env_desc(case["env"])
            p = U.parse(env, case["source"])
            if p.ok:
                self.compare(res, p.value, case["source"], C02.decode_data(case["data"]), "replay", "D", case["env"])
            return res.violations
        if part in ("L", "LS"):
            sandbox = tempfile.mkdtemp(prefix="c01_")
            try:
                return loader_case(case, sandbox) if part == "L" else loader_seq_case(case, sandbox)
            finally:
                shutil.rmtree(sandbox, ignore_errors=True)
        env = make_env_desc({"kind": "A", "mode": "strict"})
        if part == "X":
            import liquid

            data = {k: v for k, v in dict(DATA)[case["data"]].items() if isinstance(k, str)}
            sfn, afn = (liquid.render, liquid.render_async) if case["api"] == "liquid.render" else (env.render, env.render_async)
            so = U.outcome(lambda: sfn(case["source"], **data))
            ao = U.outcome(lambda: U.run_coro(afn(case["source"], **data)))
            return [] if so.kind() == ao.kind() else [{"signature": {"clause": "render-sync-vs-async", "family": "X"},
                                                       "what": f"sync {so.kind()!r} != async {ao.kind()!r}"}]
        if part == "A":
            return analysis_case(case, env)
        return analyze_tags_case(case, env)


def make_env_desc(d: dict[str, Any]) -> Any:
    mode = U.MODES[d.get("mode", "strict")]
    if d["kind"] == "A":
        return U.make_env(flags=C02.ALL_FLAGS, templates=PARTIALS, extra=True, tolerance=mode)
    if d["kind"] == "B":
        return U.make_env(flags=C02.ALT_FLAGS, templates=PARTIALS, extra=True, tolerance=mode, autoescape=True)
    return U.make_env(flags=d["flags"], templates=PARTIALS, extra=True, tolerance=mode,
                      autoescape=d.get("autoescape", False), template_comments=True)


# ---------------------------------------------------------------------------------
LOADER_NAMES = ["a", "a.liquid", "sub/b", "sub/b.liquid", "u1/a", "missing", "sub/missing.liquid", "../outside",
                "both", "", "é"]
FILES = {
    "a": "A[{{ g }}{{ x }}]", "a.liquid": "AL[{{ g }}{{ x }}]", "sub/b": "B[{{ g }}]", "sub/b.liquid": "BL[{{ b }}{{ x }}]",
    "u1/a": "U1A[{{ g }}]", "u1/a.liquid": "U1AL[{{ g }}]", "u2/a": "U2A[{{ g }}]", "both": "first", "é": "E[{{ x }}]",
    "u1/sub/b": "U1B", "u1/both": "U1BOTH",
}
FILES2 = {"both": "second", "only2": "O2[{{ x }}]", "a": "A-second"}


def loader_kinds() -> list[str]:
    return ["dict", "choice", "fs", "fs-ext", "caching-dict", "caching-choice", "caching-fs", "caching-fs-ext",
            "package"]


def write_tree(root: str, files: dict[str, str]) -> None:
    for rel, body in files.items():
        path = os.path.join(root, rel)
        os.makedirs(os.path.dirname(path), exist_ok=True)
        with open(path, "w", encoding="utf-8") as fd:
            fd.write(body)


def make_loader(kind: str, sandbox: str, namespaced: bool, auto_reload: bool = True) -> Any:
    nk: dict[str, Any] = {"namespace_key": "uid"} if namespaced else {}
    if kind.startswith("caching"):
        nk["auto_reload"] = auto_reload
    r1, r2 = os.path.join(sandbox, "r1"), os.path.join(sandbox, "r2")
    if not os.path.isdir(r1):
        write_tree(r1, FILES)
        write_tree(r2, FILES2)
        write_tree(os.path.join(sandbox, "outside"), {"secret": "S"})
    if kind == "dict":
        return liquid.DictLoader(dict(FILES))
    if kind == "choice":
        return liquid.ChoiceLoader([liquid.DictLoader(dict(FILES)), liquid.DictLoader(dict(FILES2))])
    if kind == "fs":
        return liquid.FileSystemLoader([r1, r2])
    if kind == "fs-ext":
        return liquid.FileSystemLoader([r1, r2], ext=".liquid")
    if kind == "caching-dict":
        return liquid.CachingDictLoader(dict(FILES), **nk)
    if kind == "caching-choice":
        return liquid.CachingChoiceLoader([liquid.DictLoader(dict(FILES)), liquid.DictLoader(dict(FILES2))], **nk)
    if kind == "caching-fs":
        return liquid.CachingFileSystemLoader([r1, r2], **nk)
    if kind == "caching-fs-ext":
        return liquid.CachingFileSystemLoader([r1, r2], ext=".liquid", **nk)
    if kind == "package":
        import sys

        pkgroot = os.path.join(sandbox, "pkgs")
        pkg = os.path.join(pkgroot, "c01pkg")
        if not os.path.isdir(pkg):
            write_tree(os.path.join(pkg, "templates"), FILES)
            with open(os.path.join(pkg, "__init__.py"), "w") as fd:
                fd.write("")
        if pkgroot not in sys.path:
            sys.path.insert(0, pkgroot)
        import importlib

        importlib.invalidate_caches()
        sys.modules.pop("c01pkg", None)
        return liquid.PackageLoader("c01pkg", package_path="templates")
    raise AssertionError(kind)


def describe_template(t: Any) -> Any:
    def rnd(fn: Any) -> Any:
        o = fn()
        return o.kind()

    return {
        "name": t.name,
        "path": str(t.path),
        "source": str(t),
        "globals": sorted((k, repr(v)) for k, v in dict(t.globals).items()),
        "matter": sorted((k, repr(v)) for k, v in dict(t.matter).items()),
        "render": rnd(lambda: U.render(t, {"x": 5, "b": 6})),
        "render_async": rnd(lambda: U.outcome(lambda: U.run_coro_loop(t.render_async(x=5, b=6)))),
        # NOTE: is_up_to_date() is deliberately not compared: the statement lists name, source and
        # rendering behaviour; freshness checks of mixed sync/async use belong to C23.
    }


def loader_case(case: dict[str, Any], sandbox: str) -> list[dict[str, Any]]:
    kind, ns_mode, name, glb = case["kind"], case["ns_mode"], case["name"], case["globals"]
    namespaced = ns_mode != "none"
    out: list[dict[str, Any]] = []

    def request(is_async: bool) -> U.Outcome:
        loader = make_loader(kind, sandbox, namespaced)  # fresh loader per request
        env = U.make_env(loader=loader, extra=True, globals={"eg": 1})
        kwargs: dict[str, Any] = {}
        if glb is not None:
            kwargs["globals"] = dict(glb)
        if ns_mode == "kwarg":
            kwargs["uid"] = "u1"
        elif ns_mode == "context":
            ctx_t = env.from_string("")
            kwargs["context"] = liquid.RenderContext(ctx_t, globals={"uid": "u1"})
        elif ns_mode == "kwarg-missing-ns":
            kwargs["uid"] = "u9"
        if is_async:
            return U.outcome(lambda: describe_template(U.run_coro_loop(env.get_template_async(name, **kwargs))))
        return U.outcome(lambda: describe_template(env.get_template(name, **kwargs)))

    s, a = request(False), request(True)
    if s.kind() != a.kind():
        diff: Any = None
        if s.ok and a.ok:
            diff = sorted(k for k in s.value if s.value[k] != a.value[k])
        out.append({
            "signature": {"clause": "load-sync-vs-async", "loader": kind, "ns_mode": ns_mode,
                          "differs": diff if diff is not None else [s.kind()[0] if s.ok else s.error_class,
                                                                    a.kind()[0] if a.ok else a.error_class]},
            "what": f"{kind} loader ns={ns_mode} name={name!r} globals={glb}: get_template -> {s.kind()!r}; "
                    f"get_template_async -> {a.kind()!r}",
            "case": case,
        })
    return out


def loader_seq_case(case: dict[str, Any], sandbox: str) -> list[dict[str, Any]]:
    """Two requests in a row on ONE loader (cache miss, then cache hit) through the sync API, and the same
    two requests on another fresh loader through the async API: both results must agree pairwise."""
    kind, ns_mode, name = case["kind"], case["ns_mode"], case["name"]

    def run(is_async: bool) -> list[Any]:
        loader = make_loader(kind, sandbox, ns_mode != "none", case["auto_reload"])
        env = U.make_env(loader=loader, extra=True, globals={"eg": 1} if case["env_globals"] else None)
        outs = []
        for glb in case["globals_seq"]:
            kwargs: dict[str, Any] = {}
            if glb is not None:
                kwargs["globals"] = dict(glb)
            if ns_mode == "kwarg":
                kwargs["uid"] = "u1"
            elif ns_mode == "context":
                kwargs["context"] = liquid.RenderContext(env.from_string(""), globals={"uid": "u1"})
            if is_async:
                o = U.outcome(lambda: describe_template(U.run_coro_loop(env.get_template_async(name, **kwargs))))
            else:
                o = U.outcome(lambda: describe_template(env.get_template(name, **kwargs)))
            outs.append(o.kind())
        return outs

    s, a = run(False), run(True)
    if s != a:
        idx = next(i for i, (x, y) in enumerate(zip(s, a)) if x != y)
        return [{"signature": {"clause": "load-sequence-sync-vs-async", "loader": kind, "ns_mode": ns_mode,
                               "auto_reload": case["auto_reload"], "request_index": idx},
                 "what": f"{kind} loader (auto_reload={case['auto_reload']}, ns={ns_mode}) requests {case['globals_seq']} for "
                         f"{name!r}: request #{idx} sync -> {s[idx]!r}; async -> {a[idx]!r}",
                 "case": case}]
    return []


def norm_analysis(an: Any) -> Any:
    def var(v: Any) -> Any:
        return (str(v), repr(v.segments), v.span.template_name, v.span.index)

    def vmap(m: Any) -> Any:
        return sorted((k, [var(v) for v in vs]) for k, vs in m.items())

    def smap(m: Any) -> Any:
        return sorted((k, [(s.template_name, s.index) for s in ss]) for k, ss in m.items())

    return {"variables": vmap(an.variables), "globals": vmap(an.globals), "locals": vmap(an.locals),
            "filters": smap(an.filters), "tags": smap(an.tags)}


ANALYSIS_PAIRS = [
    ("analyze", "analyze_async", norm_analysis),
    ("variables", "variables_async", list),
    ("variable_paths", "variable_paths_async", list),
    ("variable_segments", "variable_segments_async", lambda x: [repr(s) for s in x]),
    ("global_variables", "global_variables_async", list),
    ("global_variable_paths", "global_variable_paths_async", list),
    ("global_variable_segments", "global_variable_segments_async", lambda x: [repr(s) for s in x]),
    ("filter_names", "filter_names_async", list),
    ("tag_names", "tag_names_async", list),
]


def analysis_case(case: dict[str, Any], env: Any) -> list[dict[str, Any]]:
    out: list[dict[str, Any]] = []
    p = U.parse(env, case["source"])
    if not p.ok:
        return out
    t = p.value
    for sname, aname, norm in ANALYSIS_PAIRS:
        if not hasattr(t, sname) or not hasattr(t, aname):
            continue
        for inc in (True, False):
            s = U.outcome(lambda: norm(getattr(t, sname)(include_partials=inc)))
            a = U.outcome(lambda: norm(U.run_coro(getattr(t, aname)(include_partials=inc))))
            if s.kind() != a.kind():
                out.append({
                    "signature": {"clause": "analysis-sync-vs-async", "api": sname,
                                  "sync": "ok" if s.ok else s.error_class, "async": "ok" if a.ok else a.error_class},
                    "what": f"{sname}(include_partials={inc}) of {case['source']!r}: sync {s.kind()!r} != async {a.kind()!r}",
                    "case": case,
                })
    return out


def analyze_tags_case(case: dict[str, Any], env: Any) -> list[dict[str, Any]]:
    def norm(ta: Any) -> Any:
        def m(d: Any) -> Any:
            return sorted((k, [(s.template_name, s.index) for s in v]) for k, v in d.items())

        return {k: m(getattr(ta, k)) for k in ("all_tags", "tags", "unclosed_tags", "unexpected_tags", "unknown_tags")
                if hasattr(ta, k)}

    s = U.outcome(lambda: norm(env.analyze_tags(case["name"])))
    a = U.outcome(lambda: norm(U.run_coro(env.analyze_tags_async(case["name"]))))
    if s.kind() != a.kind():
        return [{"signature": {"clause": "analyze-tags-sync-vs-async", "sync": "ok" if s.ok else s.error_class,
                               "async": "ok" if a.ok else a.error_class},
                 "what": f"analyze_tags({case['name']!r}): sync {s.kind()!r} != async {a.kind()!r}", "case": case}]
    return []


CHECK = C01()
