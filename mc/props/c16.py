"""C16 — strict undefined types only refine the default behaviour.

Bounded exhaustive enumeration on the real engine, differential between the four undefined
types (Undefined, StrictUndefined, FalsyStrictUndefined, StrictDefaultUndefined):

  G  the shared program corpus x every data assignment of DATA_SETS x EVERY valid subset of
     <= 2 deleted keys / sub-paths (mc/ref/c16_model.py) x the 4 undefined types;
  P  a dedicated probe menu: (operation template) x (target path expression) where the operation
     outputs / iterates / compares / tests / filters the target (every registered filter, several
     argument shapes) or passes it to a tag, x probe data assignments x every deletion subset
     of <= 2 paths x the 4 types.

Oracle clauses (see ``rule``): 1 strict ok => same output as default; 2a default never raises
UndefinedError; 2b default raises nothing that 'present but nil' does not raise; 3 documented
raise / no-raise behaviour of the strict types on a target that the reference resolver says
is missing.
"""

from __future__ import annotations

import itertools
import warnings
from typing import Any
from typing import Iterator
from typing import Optional

import liquid
from mc import util as U
from mc.core import Check
from mc.core import Result
from mc.gen import programs as G
from mc.props import c02 as C02
from mc.ref import c16_model as M

FLAGS = {"logical_not_operator": True, "logical_parentheses": True, "ternary_expressions": True}

TYPES: list[tuple[str, str]] = [
    ("U", "Undefined"),
    ("S", "StrictUndefined"),
    ("F", "FalsyStrictUndefined"),
    ("D", "StrictDefaultUndefined"),
]
STRICT = ("S", "F", "D")

_ENVS: dict[str, Any] = {}


def env_for(t: str) -> Any:
    env = _ENVS.get(t)
    if env is None:
        cls = getattr(liquid, dict(TYPES)[t], None)
        if cls is None:
            raise RuntimeError(f"harness binding lost: liquid.{dict(TYPES)[t]} does not exist")
        env = U.make_env(flags=FLAGS, templates=G.PARTIALS, extra=True, undefined=cls)
        _ENVS[t] = env
    return env


# ---------------------------------------------------------------------------------------------
# dedicated probes
# ---------------------------------------------------------------------------------------------
# (text, static path or None, static paths the expression mentions)
TARGETS: list[tuple[str, Optional[tuple], list[tuple]]] = [
    ("x", ("x",), [("x",)]),
    ("x.a", ("x", "a"), [("x", "a")]),
    ("x.a.b", ("x", "a", "b"), [("x", "a", "b")]),
    ("x[0]", ("x", 0), [("x", 0)]),
    ("x['a']", ("x", "a"), [("x", "a")]),
    ("x.a[0]", ("x", "a", 0), [("x", "a", 0)]),
    ("x[0].a", ("x", 0, "a"), [("x", 0, "a")]),
    ("x[-1]", ("x", -1), [("x",)]),
    ("x[k]", ("x", ("$", ("k",))), [("x",), ("k",)]),
    ("x[k].a", ("x", ("$", ("k",)), "a"), [("x",), ("k",)]),
    ("x.a[k]", ("x", "a", ("$", ("k",))), [("x", "a"), ("k",)]),
    ("y[x.a]", ("y", ("$", ("x", "a"))), [("y",), ("x", "a")]),
    ("y[x.a].a", ("y", ("$", ("x", "a")), "a"), [("y",), ("x", "a")]),
    ("x.first.a", ("x", "first", "a"), [("x",)]),
    ("x.size", ("x", "size"), [("x",)]),
    ("x.first", ("x", "first"), [("x",)]),
    ("nosuch", ("nosuch",), [("nosuch",)]),
    ("nosuch.a[0]", ("nosuch", "a", 0), [("nosuch", "a", 0)]),
]

PROBE_DATA: list[tuple[str, dict[str, Any]]] = [
    ("P0", {"x": {"a": {"b": "B"}}, "k": "a", "y": {"B": 1}}),
    ("P1", {"x": ["p", "q"], "k": 1}),
    ("P2", {"x": [{"a": ["u"]}], "k": 0}),
    ("P3", {"x": {"a": [1, 2]}, "k": "a"}),
    ("P4", {"x": {"a": {"b": [2, 1]}}, "y": [3]}),
    ("P5", {"x": "st", "k": 0}),
    ("P6", {"x": 3, "y": {"3": "t"}}),
    ("P7", {"x": None, "y": [None, False, 1]}),
    ("P8", {"x": False, "y": [False, None]}),
    ("P9", {"x": []}),
    ("P10", {"x": {}}),
    ("P11", {"x": ""}),
    ("P12", {"x": {"a": "B"}, "y": {"B": {"a": 1}}, "k": "a", "n": 0}),
    ("P13", {"x": ["p", "q"], "k": None, "n": -1}),
    ("P14", {"x": [["p"], "q"], "k": "w", "y": {"w": 1}}),
]

CMP_LITS = ["nil", "1", "'a'", "false", "empty", "blank", "nosuch2", "y"]


def build_ops(filter_names: list[str]) -> list[tuple[str, Optional[str]]]:
    """(template with {T}, kind).  kind: output | iterate | equality | compare | truthy | filter | default | None."""
    ops: list[tuple[str, Optional[str]]] = [
        ("{{ {T} }}", "output"),
        ("{% echo {T} %}", "output"),
        ("a{{- {T} -}}b", "output"),
        ("{% liquid echo {T} %}", "output"),
        ("{% capture z %}{{ {T} }}{% endcapture %}Z", "output"),
        ("{% ifchanged %}{{ {T} }}{% endifchanged %}", "output"),
        ("{{ {T} if true else 'b' }}", "output"),
        ("{{ 'a' if false else {T} }}", "output"),
        ("{% for i in {T} %}[{{ i }}]{% endfor %}", "iterate"),
        ("{% for i in {T} %}[{{ i }}]{% else %}E{% endfor %}", "iterate"),
        ("{% for i in {T} limit: 1 offset: 0 %}[{{ i }}]{% endfor %}", "iterate"),
        ("{% for i in {T} reversed %}[{{ i }}]{% endfor %}", "iterate"),
        ("{% for i in {T} %}{% break %}{% endfor %}", "iterate"),
        ("{% tablerow i in {T} %}{{ i }}{% endtablerow %}", "iterate"),
        ("{% tablerow i in {T} cols: 2 limit: 1 %}{{ i }}{% endtablerow %}", "iterate"),
        ("{% for i in {T} limit: 0 %}[{{ i }}]{% else %}E{% endfor %}", "iterate"),
        ("{% for i in {T} limit: -1 %}[{{ i }}]{% else %}E{% endfor %}", "iterate"),
        ("{% for i in {T} limit: n %}[{{ i }}]{% else %}E{% endfor %}", "iterate"),
        ("{% for i in {T} limit: n reversed %}[{{ i }}]{% else %}E{% endfor %}", "iterate"),
        ("{% for i in {T} limit: 0 reversed %}[{{ i }}]{% endfor %}", "iterate"),
        ("{% for i in {T} offset: 1 %}[{{ i }}]{% else %}E{% endfor %}", "iterate"),
        ("{% for i in {T} offset: n %}[{{ i }}]{% else %}E{% endfor %}", "iterate"),
        ("{% for i in {T} limit: 0 offset: 1 %}[{{ i }}]{% else %}E{% endfor %}", "iterate"),
        ("{% for i in {T} limit: n offset: n %}[{{ i }}]{% else %}E{% endfor %}", "iterate"),
        ("{% for i in {T} offset: continue %}[{{ i }}]{% else %}E{% endfor %}", "iterate"),
        ("{% tablerow i in {T} limit: 0 %}{{ i }}{% endtablerow %}", "iterate"),
        ("{% tablerow i in {T} limit: -1 %}{{ i }}{% endtablerow %}", "iterate"),
        ("{% tablerow i in {T} cols: 2 limit: n %}{{ i }}{% endtablerow %}", "iterate"),
        ("{% tablerow i in {T} cols: n %}{{ i }}{% endtablerow %}", "iterate"),
        ("{% tablerow i in {T} offset: 1 %}{{ i }}{% endtablerow %}", "iterate"),
        ("{% tablerow i in {T} cols: 2 offset: n limit: 0 %}{{ i }}{% endtablerow %}", "iterate"),
        ("{% liquid for i in {T} limit: 0\necho i\nelse\necho 'E'\nendfor %}", "iterate"),
        ("{% if {T} %}T{% else %}F{% endif %}", "truthy"),
        ("{% if {T} %}T{% endif %}", "truthy"),
        ("{% unless {T} %}U{% else %}E{% endunless %}", "truthy"),
        ("{% if false %}0{% elsif {T} %}T{% else %}F{% endif %}", "truthy"),
        ("{% if not {T} %}T{% else %}F{% endif %}", "truthy"),
        ("{% if {T} and true %}T{% else %}F{% endif %}", "truthy"),
        ("{% if {T} or false %}T{% else %}F{% endif %}", "truthy"),
        ("{% if true and {T} %}T{% else %}F{% endif %}", "truthy"),
        ("{% if ({T}) %}T{% else %}F{% endif %}", "truthy"),
        ("{{ 'a' if {T} else 'b' }}", "truthy"),
        ("{% if false and {T} %}T{% else %}F{% endif %}", None),
        ("{% if true or {T} %}T{% else %}F{% endif %}", None),
        ("{% if y and {T} %}T{% else %}F{% endif %}", None),
        ("{% case {T} %}{% when 1 %}1{% when 'a', nil %}2{% else %}E{% endcase %}", "compare"),
        ("{% case 1 %}{% when {T} %}1{% else %}E{% endcase %}", "compare"),
        ("{% assign z = {T} %}{{ z }}", None),
        ("{% assign z = {T} %}Z", None),
        ("{% assign z = {T} %}{% if z %}T{% else %}F{% endif %}", None),
        ("{{ y[{T}] }}", None),
        ("{% for i in (1..{T}) %}{{ i }}{% endfor %}", "range-bound"),
        ("{% for i in ({T}..2) %}{{ i }}{% endfor %}", "range-bound"),
        ("{% for i in ({T}..{T}) %}{{ i }}{% else %}E{% endfor %}", "range-bound"),
        ("{% for i in (1..{T}) limit: 1 reversed %}{{ i }}{% else %}E{% endfor %}", "range-bound"),
        ("{% tablerow i in (1..{T}) cols: 2 %}{{ i }}{% endtablerow %}", "range-bound"),
        ("{% tablerow i in ({T}..2) %}{{ i }}{% endtablerow %}", "range-bound"),
        ("{{ (1..{T}) | join: ',' }}", "range-bound"),
        ("{{ ({T}..2) | size }}", "range-bound"),
        ("{{ ({T}..2) }}", "range-bound"),
        ("{% assign r = (1..{T}) %}{{ r | join: ',' }}", "range-bound"),
        ("{% if (1..{T}) contains 2 %}T{% else %}F{% endif %}", "range-bound"),
        ("{% if ({T}..3) contains 2 %}T{% else %}F{% endif %}", "range-bound"),
        ("{% if ({T}..3) == (1..3) %}T{% else %}F{% endif %}", "range-bound"),
        ("{% for i in y limit: {T} %}{{ i }}{% endfor %}", None),
        ("{% for i in y offset: {T} %}{{ i }}{% endfor %}", None),
        ("{% tablerow i in y cols: {T} %}{{ i }}{% endtablerow %}", None),
        ("{% cycle {T}, 'b' %}", None),
        ("{% cycle {T}: 'a', 'b' %}", None),
        ("{% include 'p' with {T} %}", None),
        ("{% include 'p', v: {T} %}", None),
        ("{% include 'p' for {T} as v %}", None),
        ("{% render 'p', v: {T} %}", None),
        ("{% render 'p' with {T} as v %}", None),
        ("{% render 'p' for {T} as v %}", None),
        ("{% include {T} %}", None),
        ("{% with v: {T} %}{{ v }}{% endwith %}", None),
        ("{% with v: {T} %}V{% endwith %}", None),
        ("{% macro m p %}[{{ p }}]{% endmacro %}{% call m {T} %}", None),
        ("{% macro m p, q: {T} %}[{{ q }}]{% endmacro %}{% call m 1 %}", None),
        ("{% translate count: {T} %}a{% plural %}b{% endtranslate %}", None),
        ("{% translate v: {T} %}a {{ v }}{% endtranslate %}", None),
        ("{{ {T} | upcase | default: 'd' }}", "filter"),
        ("{{ {T} | default: 'd' | upcase }}", "default"),
        ("{{ {T} | default: 'd', allow_false: true }}", "default"),
        ("{{ {T} | default: nosuch2 }}", None),  # the default value is itself missing: two targets
        ("{% assign z = {T} | default: 'd' %}{{ z }}", "default"),
        ("{% if {T} | default: false %}T{% else %}F{% endif %}", None),
    ]
    for op in ("==", "!=", "<>"):
        for lit in CMP_LITS:
            ops.append(("{% if {T} " + op + " " + lit + " %}T{% else %}F{% endif %}", "equality"))
            ops.append(("{% if " + lit + " " + op + " {T} %}T{% else %}F{% endif %}", "equality"))
        ops.append(("{% if {T} " + op + " {T} %}T{% else %}F{% endif %}", "equality"))
        ops.append(("{% unless {T} " + op + " 1 %}T{% else %}F{% endunless %}", "equality"))
    for op in ("<", ">", "<=", ">=", "contains"):
        for lit in CMP_LITS:
            if lit in ("empty", "blank", "false") and op != "contains":
                continue
            ops.append(("{% if {T} " + op + " " + lit + " %}T{% else %}F{% endif %}", "compare"))
            # `lit contains T`: the missing value is only the needle of a membership test; whether a left operand
            # that is not a container "compares" anything is not specified -> clauses 1/2 only
            ops.append(("{% if " + lit + " " + op + " {T} %}T{% else %}F{% endif %}", "compare" if op != "contains" else None))
    FILTER_SWEEP_FROM[0] = len(ops)
    for f in filter_names:
        kind = "default" if f == "default" else "filter"
        ops.append(("{{ {T} | %s }}" % f, kind))
        ops.append(("{{ {T} | %s: 'a' }}" % f, kind))
        ops.append(("{{ {T} | %s: 1 }}" % f, kind))
        ops.append(("{{ {T} | %s: 'a', 'b' }}" % f, kind))
        ops.append(("{{ {T} | %s: 1, 1 }}" % f, kind))
        ops.append(("{{ 'a' | %s: {T} }}" % f, None))
        ops.append(("{{ y | %s: 'a', {T} }}" % f, None))
        ops.append(("{{ y | %s: {T} }}" % f, None))
    return ops


_OPS: Optional[list[tuple[str, Optional[str]]]] = None
# ops from this index on are the per-filter sweep; the path shape is independent of the filter applied, so the
# sweep uses one target per resolution mechanism (the other ops use every target)
FILTER_SWEEP_FROM = [0]
FILTER_SWEEP_TARGETS = {"x", "x.a.b", "x[0]", "x.a[0]", "x[-1]", "x[k]", "y[x.a]", "nosuch"}
# ... and the container-valued probe data (the scalar / empty assignments only serve as "defined" controls for
# the truthiness / comparison ops and as validity baselines)
FILTER_SWEEP_DATA = {"P0", "P1", "P2", "P3", "P7", "P8", "P12"}


def all_ops() -> list[tuple[str, Optional[str]]]:
    global _OPS
    if _OPS is None:
        _OPS = build_ops(sorted(env_for("U").filters))
    return _OPS


# ---------------------------------------------------------------------------------------------
def quiet_render(tpl: Any, data: dict[str, Any]) -> U.Outcome:
    with warnings.catch_warnings():
        warnings.simplefilter("ignore")
        return U.render(tpl, data)


def quiet_render_async(tpl: Any, data: dict[str, Any]) -> U.Outcome:
    with warnings.catch_warnings():
        warnings.simplefilter("ignore")
        return U.render_async(tpl, data)


APIS: list[tuple[str, Any]] = [("sync", quiet_render), ("async", quiet_render_async)]


def parse4(src: str) -> Optional[dict[str, Any]]:
    out = {}
    for t, _ in TYPES:
        with warnings.catch_warnings():
            warnings.simplefilter("ignore")
            p = U.parse(env_for(t), src)
        if not p.ok:
            return None
        out[t] = p.value
    return out


def site(o: U.Outcome) -> str:
    if o.is_liquid_error:
        return U.innermost_repo_frame(o[3])
    return str(o.where)


def err_at(o: U.Outcome) -> Optional[tuple]:
    """(template name, start index, token text) of the expression a Liquid error points at (public ``.token``)."""
    if not o.is_liquid_error:
        return None
    tok = getattr(o[3], "token", None)
    if tok is None or getattr(tok, "start_index", -1) < 0:
        return None
    return (str(getattr(o[3], "template_name", None)), tok.start_index, str(tok.value)[:40], len(str(tok.value)))


def same_place(a: Optional[tuple], b: Optional[tuple]) -> bool:
    """Two error locations lie in the same template and their token spans overlap (one error may point at the
    whole ``{{ ... }}`` statement and the other at a filter name inside it)."""
    if a is None or b is None or a[0] != b[0]:
        return False
    return a[1] < b[1] + max(b[3], 1) and b[1] < a[1] + max(a[3], 1)


def short(o: U.Outcome) -> str:
    return ("ok:" + repr(o.value)[:80]) if o.ok else f"{o.error_class}({str(o[2])[:80]})"


def enc_paths(subset: tuple) -> list[list[Any]]:
    return [list(p) for p in subset]


def dec_paths(paths: list[list[Any]]) -> tuple:
    return tuple(tuple(p) for p in paths)


class C16(Check):
    id = "C16"
    level = "exploration"
    rule = (
        "G: every program of the shared corpus x every DATA_SETS assignment x every valid subset of <=2 deleted "
        "keys/sub-paths (all dict keys at any depth, list suffixes) x {Undefined, StrictUndefined, FalsyStrictUndefined, "
        "StrictDefaultUndefined}; P: every (operation, target path) probe (output/iterate/equality/compare/truthiness/"
        "every registered filter x 5 argument shapes/filter argument x 3 shapes (8 of the targets, 7 of the data assignments)/tag argument) x 14 probe data assignments (incl. arrays holding nil and false) x every "
        "deletion subset of <=2 paths x the 4 types. Clauses: 1 (statement) a strict type that renders ok gives the default "
        "type's output; 2a (statement) the default type never raises UndefinedError; 2c (statement) when the full data renders ok "
        "the default type with deletions never lets a non-Liquid exception escape (no nil baseline); 2d (statement) nor does it "
        "for a valid probe whose target the resolver calls MISSING, deletions or not; 2b (statement) when the full data "
        "renders ok, the default type with deletions raises only what 'present but nil' raises too (only where the "
        "deleted paths are top-level keys or lie on the probe's target path, and -- when both raise -- both errors point "
        "at the same expression; else excluded); 3 (statement + "
        "docs/variables_and_drops.md 'Strict undefined'/'Falsy strict undefined' + API docstring of StrictDefaultUndefined) "
        "on a target the reference resolver calls MISSING, for probes that render ok on some data where the target is "
        "FOUND: StrictUndefined raises UndefinedError for output/iterate/equality/compare/truthy/filter/range bound; "
        "FalsyStrictUndefined raises UndefinedError for output/iterate and does not raise for truthy/equality (filters, ordering/contains/case: unspecified, tallied); "
        "StrictDefaultUndefined raises UndefinedError for all but `default`, where it must not raise. "
        "Every clause is applied to render() and to render_async() outcomes; 4 (C01/statement 'for every template and "
        "data'): per undefined type the async outcome kind equals the sync one. "
        "A case is non-trivial when some strict type raised UndefinedError (an undefined object was created and used) "
        "or the deletion changed the default output."
    )
    assumptions = [
        "tolerance mode STRICT only (errors are observable); every cell is rendered with render() and render_async()",
        "DebugUndefined is not part of the statement and is not exercised",
        "list sub-path deletions are suffix deletions (a middle element cannot be removed without renumbering)",
        "`default` filter with StrictUndefined/FalsyStrictUndefined, ordering/contains/case comparisons with "
        "FalsyStrictUndefined, and operations that only pass a missing value on (assign, with, tag arguments) are "
        "unspecified for clause 3 (excluded and counted); clauses 1/2 still apply to them",
    ]

    def bounds(self, tier: str) -> dict[str, Any]:
        return {
            "programs": "n<=2 core menu + every single item of the full+extra menu" if tier == "quick" else "n<=2 full+extra menu; n=3 core menu (depth 2) with <=1 deletion",
            "deletions_per_assignment": "every valid subset of <=2 paths (n=3 programs in thorough: <=1 path)",
            "data_assignments": len(G.DATA_SETS),
            "probe_ops": len(all_ops()),
            "probe_targets": len(TARGETS),
            "probe_data": len(PROBE_DATA),
            "undefined_types": [n for _, n in TYPES],
        }

    # -------------------------------------------------------------------------------------
    def shards(self, tier: str) -> list[Any]:
        sh: list[Any] = []
        ng = 48 if tier == "quick" else 480
        sh += [("G", i, ng) for i in range(ng)]
        npb = 48
        sh += [("P", i, npb) for i in range(npb)]
        return sh

    def run_shard(self, shard: Any, tier: str) -> Result:
        res = Result()
        U.reset_memo()
        if shard[0] == "G":
            self.run_programs(shard[1], shard[2], tier, res)
        else:
            self.run_probes(shard[1], shard[2], tier, res)
        return res

    # -------------------------------------------------------------------------------------
    def corpus(self, tier: str) -> Iterator[tuple[Any, int]]:
        """(program, deletion bound) pairs, simplest first."""
        if tier == "quick":
            core = G.menus("core")
            seen = set(core[0]) | set(core[1])
            lv, bl = G.menus("full", extra=True)
            more = G.programs(1, 1, leaves=[x for x in lv if x not in seen], blocks=[x for x in bl if x not in seen])
            return ((p, 2) for p in itertools.chain(G.programs(2, 2, level="core"), more))
        return itertools.chain(((p, 2) for p in G.programs(2, 2, level="full", extra=True)),
                               ((p, 1) for p in G._progs_exact(3, 2, *G.menus("core"))))

    def run_programs(self, i: int, n: int, tier: str, res: Result) -> None:
        variants = []
        for lab, full in G.DATA_SETS:
            for subset in M.subsets(full, 2):
                variants.append((lab, full, subset, M.apply(full, subset, "delete")))
        for j, (prog, kmax) in enumerate(self.corpus(tier)):
            if j % n != i:
                continue
            tpls = parse4(prog.source)
            if tpls is None:
                res.count("program_rejected_by_parser")
                continue
            full_cache: dict[str, U.Outcome] = {}
            for lab, full, subset, data in variants:
                if len(subset) <= kmax:
                    self.check_cell(res, "G", prog.source, tpls, lab, full, subset, data, None, full_cache)

    def run_probes(self, i: int, n: int, tier: str, res: Result) -> None:
        ops = all_ops()
        variants = []
        for lab, full in PROBE_DATA:
            for subset in M.subsets(full, 2):
                variants.append((lab, full, subset, M.apply(full, subset, "delete")))
        for oi in range(i, len(ops), n):
            op, kind = ops[oi]
            for text, path, mentions in TARGETS:
                if oi >= FILTER_SWEEP_FROM[0] and text not in FILTER_SWEEP_TARGETS:
                    continue
                src = op.replace("{T}", text)
                tpls = parse4(src)
                if tpls is None:
                    res.count("probe_rejected_by_parser")
                    continue
                probe = {"op": op, "kind": kind, "target": list(path) if path is not None else None,
                         "mentions": [list(m) for m in mentions], "valid": self.probe_valid(tpls["U"], path)}
                if kind is not None and path is not None and not probe["valid"]:
                    res.count("probe_never_valid_clause3_excluded")
                full_cache: dict[str, U.Outcome] = {}
                for lab, full, subset, data in variants:
                    if oi >= FILTER_SWEEP_FROM[0] and lab not in FILTER_SWEEP_DATA:
                        continue
                    self.check_cell(res, "P", src, tpls, lab, full, subset, data, probe, full_cache)

    @staticmethod
    def probe_valid(tpl_default: Any, path: Optional[tuple]) -> bool:
        """The operation is a well-formed use: it renders without error on some probe data where the target resolves."""
        if path is None:
            return False
        for _, full in PROBE_DATA:
            if M.resolve(full, path) == M.FOUND and quiet_render(tpl_default, full).ok:
                return True
        return False

    # -------------------------------------------------------------------------------------
    def check_cell(self, res: Result, family: str, src: str, tpls: dict[str, Any], lab: str, full: dict[str, Any],
                   subset: tuple, data: dict[str, Any], probe: Optional[dict[str, Any]],
                   full_cache: Optional[dict[Any, U.Outcome]] = None) -> None:
        """One (program, data variant) cell: every clause on render() and on render_async(), then agreement."""
        outs = {}
        for api, rend in APIS:
            outs[api] = self.judge(res, api, rend, family, src, tpls, lab, full, subset, data, probe, full_cache)
        for t, name in TYPES:
            a, b = outs["sync"][t], outs["async"][t]
            if a.kind() != b.kind():
                case = {"family": family, "source": src, "full": C02.encode_data(full), "full_label": lab,
                        "subset": enc_paths(subset), "probe": probe}
                res.violation({"family": family, "clause": "4-async-differs-from-sync", "utype": t,
                               "sync": "ok" if a.ok else a.error_class, "async": "ok" if b.ok else b.error_class,
                               "site": None if b.ok else site(b), "construct": probe["op"] if probe else src[:160]},
                              f"{src!r} data={lab} minus {enc_paths(subset)}: {name} render() -> {short(a)} but "
                              f"render_async() -> {short(b)}", case)

    def judge(self, res: Result, api: str, rend: Any, family: str, src: str, tpls: dict[str, Any], lab: str,
              full: dict[str, Any], subset: tuple, data: dict[str, Any], probe: Optional[dict[str, Any]],
              full_cache: Optional[dict[Any, U.Outcome]] = None) -> dict[str, U.Outcome]:
        o = {t: rend(tpls[t], data) for t, _ in TYPES}
        ou = o["U"]
        construct = probe["op"] if probe else src[:160]

        def viol(sig: dict[str, Any], what: str) -> None:
            case = {"family": family, "source": src, "full": C02.encode_data(full), "full_label": lab,
                    "subset": enc_paths(subset), "probe": probe}
            base: dict[str, Any] = {"family": family, "api": api}
            if probe:
                base["construct"] = construct
                base["target_form"] = target_form(probe)
            elif "exc" not in sig:
                base["construct"] = construct
            res.violation({**base, **sig}, f"[{api}] {src!r} data={lab} minus {enc_paths(subset)}: {what}", case)

        # full-data baseline under the default type (the size-0 subset of this assignment)
        if not subset:
            ofull = ou
            if full_cache is not None:
                full_cache[(lab, api)] = ou
        elif full_cache is not None and (lab, api) in full_cache:
            ofull = full_cache[(lab, api)]
        else:
            ofull = rend(tpls["U"], full)

        # clause 1 -------------------------------------------------------------------------
        for t in STRICT:
            if o[t].ok:
                if not ou.ok:
                    viol({"clause": "1-strict-ok-default-raises", "utype": t, "exc": ou.error_class, "site": site(ou),
                          "at": (err_at(ou) or (None, None, None, 0))[2]},
                         f"{dict(TYPES)[t]} renders {o[t].value!r} but Undefined raises {short(ou)}")
                elif ou.value != o[t].value:
                    viol({"clause": "1-strict-output-differs", "utype": t},
                         f"{dict(TYPES)[t]} renders {o[t].value!r} but Undefined renders {ou.value!r}")
            elif o[t].is_other_error:
                res.count("non_liquid_error_seen_(C02_territory)")

        # clause 2 -------------------------------------------------------------------------
        if not ou.ok:
            if ou.error_class == "UndefinedError":
                viol({"clause": "2a-default-raises-UndefinedError", "site": site(ou)},
                     f"default Undefined raised {short(ou)}")
            elif subset:
                if not ofull.ok:
                    res.count("clause2b_baseline_raises_excluded")
                elif ou.is_other_error:
                    # a non-Liquid exception is never excused by the nil baseline
                    if self.nil_comparison_justified(subset, probe):
                        viol({"clause": "2c-default-raises-non-liquid", "exc": ou.error_class, "site": site(ou)},
                             f"default Undefined raised non-Liquid {short(ou)}; full data renders ok")
                    else:
                        res.count("unspecified_excluded")
                        res.count("clause2c_deletion_not_attributable")
                else:
                    onil = rend(tpls["U"], M.apply(full, subset, "nil"))
                    if onil.error_class == ou.error_class:
                        res.count("clause2b_same_class_as_nil")
                    elif not onil.ok and not same_place(err_at(onil), err_at(ou)):
                        # both raise, but not at the same expression: 'nil' failed somewhere the undefined value
                        # did not (or the location is unknown), so the two classes are not comparable
                        res.count("unspecified_excluded")
                        res.count("clause2b_nil_raises_elsewhere_excluded")
                    elif self.nil_comparison_justified(subset, probe):
                        viol({"clause": "2b-default-raises-unlike-nil", "exc": ou.error_class, "site": site(ou),
                              "at": (err_at(ou) or (None, None, None, 0))[2],
                              "nil": "ok" if onil.ok else onil.error_class},
                             f"default Undefined raised {short(ou)}; full data renders ok; present-but-nil gives {short(onil)}")
                    else:
                        res.count("unspecified_excluded")
                        res.count("clause2b_nil_comparison_not_justified")
            else:
                res.count("clause2b_no_deletion_no_baseline")

        # clause 3 -------------------------------------------------------------------------
        c3 = False
        if probe is not None and probe["kind"] is not None and probe["target"] is not None:
            st = M.resolve(data, tuple(probe["target"]))
            if st == M.UNSPEC:
                res.count("unspecified_excluded")
                res.count("clause3_target_resolution_unspecified")
            elif st == M.MISSING and probe["valid"]:
                c3 = True
                kind = probe["kind"]
                if ou.is_other_error and not (subset and ofull.ok):  # (with an ok baseline clause 2c reports it)
                    viol({"clause": "2d-default-raises-non-liquid-on-missing-target", "exc": ou.error_class,
                          "site": site(ou), "kind": kind},
                         f"default Undefined raised non-Liquid {short(ou)} for a target the resolver calls missing")
                for t in STRICT:
                    exp = expectation(t, kind)
                    if exp is None:
                        res.count("unspecified_excluded")
                        res.count(f"clause3_unspecified_{t}_{kind}")
                    elif exp == "raise":
                        if o[t].error_class != "UndefinedError":
                            viol({"clause": "3-strict-must-raise-UndefinedError", "utype": t, "kind": kind,
                                  "got": "ok" if o[t].ok else o[t].error_class,
                                  "site": None if o[t].ok else site(o[t])},
                                 f"{dict(TYPES)[t]} on a missing target ({kind}) gave {short(o[t])}, expected UndefinedError")
                        else:
                            res.count("clause3_raise_confirmed")
                    else:
                        if not o[t].ok:
                            viol({"clause": "3-documented-no-raise", "utype": t, "kind": kind,
                                  "got": o[t].error_class, "site": site(o[t])},
                                 f"{dict(TYPES)[t]} on a missing target ({kind}) raised {short(o[t])}, documented not to raise")
                        else:
                            res.count("clause3_no_raise_confirmed")
            elif st == M.MISSING:
                res.count("clause3_probe_not_valid_excluded")

        # bookkeeping ----------------------------------------------------------------------
        strict_undef = [t for t in STRICT if o[t].error_class == "UndefinedError"]
        changed = bool(subset) and ofull.kind() != ou.kind()
        nt = None
        if strict_undef or changed:
            nt = [family, src, lab, enc_paths(subset)]
        label = "|".join(f"{t}:{'ok' if o[t].ok else o[t].error_class}" for t, _ in TYPES)
        if nt is not None:
            nt.append(api)
        res.case(nontrivial=nt, outcome=f"{family}:{api}:{label}{':c3' if c3 else ''}", n=len(TYPES),
                 sample={"source": src, "data": lab, "minus": enc_paths(subset), "api": api, "outcomes": label}
                 if nt and c3 else None)
        return o

    @staticmethod
    def nil_comparison_justified(subset: tuple, probe: Optional[dict[str, Any]]) -> bool:
        """Can an error under the default type be attributed to the deletion (rather than to a container that
        merely lost a member)?

        Yes when every deleted path is a top-level key (nothing enumerates the global scope), or -- for a probe --
        lies on a path the probe's target expression mentions (its parent is then only traversed by key/index).
        A deleted sub-path elsewhere shrinks a container the template may use as a whole: excluded.
        """
        mentions: list[tuple] = []
        if probe:
            mentions = [tuple(m) for m in probe.get("mentions") or []]
            if probe.get("target") is not None:
                mentions.append(tuple(probe["target"]))
        for d in subset:
            if len(d) == 1:
                continue
            if any(M.is_prefix(d, m) for m in mentions):
                continue
            return False
        return True

    # -------------------------------------------------------------------------------------
    def replay(self, case: Any) -> list[dict[str, Any]]:
        res = Result()
        tpls = parse4(case["source"])
        if tpls is None:
            return [{"signature": {"clause": "replay"}, "what": "source no longer parses", "case": case}]
        full = C02.decode_data(case["full"])
        subset = dec_paths(case["subset"])
        self.check_cell(res, case["family"], case["source"], tpls, case.get("full_label", "?"), full, subset,
                        M.apply(full, subset, "delete"), case.get("probe"), None)
        return res.violations


def target_form(probe: dict[str, Any]) -> str:
    t = probe.get("target")
    if t is None or any(isinstance(seg, (list, tuple)) for seg in t):
        return "dynamic"
    return "name" if len(t) == 1 else "path"


def expectation(t: str, kind: str) -> Optional[str]:
    """Documented behaviour of strict type ``t`` for an operation of ``kind`` on a missing target.

    S: statement ("outputting, iterating, comparing or filtering a missing variable raises UndefinedError") and
       docs/variables_and_drops.md ("any operation on an undefined variable will raise"; FalsyStrictUndefined "is the
       same as StrictUndefined, but can be tested for truthiness and equality without raising" => S raises there).
       The `default` filter's own documentation ("return a default value if the input is undefined") conflicts: excluded.
    F: "the same as StrictUndefined, but can be tested for truthiness and equality without raising an exception".
       Output and iteration must raise; ordering / contains / case comparisons, `default` and all other filters are
       unspecified (FalsyStrictUndefined exposes ``__liquid__`` -> nil, so e.g. math filters see nil): tallied only.
    D: StrictUndefined subclass whose documented difference is "plays nicely with the `default` filter".
    """
    if t == "S":
        return None if kind == "default" else "raise"
    if kind == "range-bound":
        # docs: "any operation on an undefined variable will raise" (StrictUndefined); using it as a range bound converts
        # it to an integer.  Only StrictUndefined is specified here.
        return None
    if t == "F":
        if kind in ("truthy", "equality"):
            return "ok"
        if kind in ("output", "iterate"):
            return "raise"
        return None
    if t == "D":
        return "ok" if kind == "default" else "raise"
    return None


CHECK = C16()
