"""C19 — static analysis reports everything a render can touch.

Every program of the C19 generator (mc/ref/c19_gen.py: nested loops, captures, assignments,
macros/call, with, extends/block and the partials p, q, r, base, mid, leaf reached through
include / render from different scopes and with different arguments) is parsed on the real
engine, analysed once with ``BoundTemplate.analyze()`` and rendered under a dynamic monitor
(mc/ref/c19_monitor.py) with every data set of ``DATA`` (three assignments that together
drive every branch / loop body, plus the all-missing one), synchronously and, for D1,
asynchronously.

Oracle (literal reading of the property statement):
  path      every variable path evaluated during a render is among the reported variables
            (compared segment-wise) and its root is a key of ``variables``;
  filter    every filter applied is a key of ``filters``;
  tag       every tag rendered is a key of ``tags``;
  globals   every root that was supplied by the render arguments / template globals, at a
            reference that -- by the GENERATOR's lexical model, never liquid's -- is neither
            inside a block binding the name nor preceded in source order by an assignment to
            it (in its own template or, for shared-scope call sites, at the call site; what an
            included / extended template assigns counts as assigned at its call site), is a
            key of ``globals`` (level root-name, the property statement) and ``globals`` lists
            it with the location of that reference (level location: docs/static_analysis.md and
            the TemplateAnalysis doc say globals are reported with the location of each).

Genuine defects found on the pinned tree are listed in known_findings.d/C19.json; the
signature of a globals violation carries the feature of the program that distinguishes it
(how the template holding the reference was reached), computed from the generator's model.
"""

from __future__ import annotations

import json
import warnings
from typing import Any
from typing import Optional

from mc import util as U
from mc.core import Check
from mc.core import Result
from mc.core import jdumps
from mc.ref import c19_gen as G
from mc.ref.c19_monitor import MONITOR
from mc.ref.c19_monitor import canon_segments

FLAGS = {"ternary_expressions": True}

_ENVS: dict[str, Any] = {}
_CANARY_DONE = False


def env_for(layout: str) -> Any:
    env = _ENVS.get(layout)
    if env is None:
        parts = {n: p.source for n, p in G.partials_for(layout).items()}
        env = U.make_env(flags=FLAGS, templates=parts, extra=True, globals=dict(G.ENV_GLOBALS))
        _ENVS[layout] = env
    return env


def setup() -> None:
    global _CANARY_DONE
    MONITOR.install()
    if not _CANARY_DONE:
        MONITOR.canary(env_for("plain"))
        _CANARY_DONE = True


# ---------------------------------------------------------------------------------------
# the generator-side exemption
# ---------------------------------------------------------------------------------------
def resolve_frames(world: G.World, frames: Any) -> list[tuple[G.Printed, int, int, G.Site]]:
    out = []
    for fsrc, fidx in frames:
        FT = world.by_source.get(fsrc)
        site = FT.site_at(fidx) if FT is not None else None
        if site is None:
            raise RuntimeError(f"harness cannot locate call site at index {fidx} (token offsets or sources changed)")
        out.append((FT, site[0], site[1], site[2]))
    return out


def exemption(T: G.Printed, pos: int, root: str, fr: list[tuple[G.Printed, int, int, G.Site]]) -> Optional[str]:
    """Why the reference is exempt from the globals clause (generator's lexical model), or None."""
    why = T.local(pos, root)
    if why:
        return why
    for FT, s, e, site in reversed(fr):
        if FT is T and s <= pos < e:
            continue  # the reference is an argument of the call tag itself / lexically inside the block
        if root in site.binds:
            return "site-binds"
        if site.kind == "render":
            return None  # isolated scope: nothing of the caller is visible
        why = FT.local(s, root)
        if why:
            return "via-site:" + why
    return None


def reachable_sites(world: G.World) -> list[tuple[str, int, G.Site]]:
    seen: set[str] = set()
    todo = ["main"]
    out: list[tuple[str, int, G.Site]] = []
    while todo:
        t = todo.pop()
        if t in seen:
            continue
        seen.add(t)
        for s, _e, site in world.templates[t].sites:
            if site.partial is not None:
                out.append((t, s, site))
                todo.append(site.partial)
    return out


def feature(world: G.World, fr: list[tuple[G.Printed, int, int, G.Site]]) -> tuple[str, str]:
    """The discriminating input feature of a globals violation, computed from the generator's model only:
    how the template holding the reference was reached (most specific feature first)."""
    calls = [(FT.name, s, site) for FT, s, _e, site in fr if site.kind != "block"]
    if not calls:
        return "top-level", "top"
    # `extends` of a template that itself extends: the engine renders the root of the chain directly
    full: list[tuple[str, int, G.Site]] = []
    for tn, s, site in calls:
        full.append((tn, s, site))
        while site.kind == "extends":
            nxt = [(s2, st2) for s2, _e2, st2 in world.templates[site.partial].sites if st2.kind == "extends"]
            if not nxt:
                break
            tn, (s, site) = site.partial, nxt[0]
            full.append((tn, s, site))
    chain = ">".join(f"{site.kind}:{site.partial}" for _tn, _s, site in full)
    isolated = False
    for _tn, _s, site in full:
        if site.kind == "render":
            isolated = True
        elif isolated:
            return "shared-scope-callee-under-render", chain
    sites = reachable_sites(world)
    found: set[str] = set()
    for tn, s, site in full:
        others = [o for (otn, os_, o) in sites if o.partial == site.partial and (otn, os_) != (tn, s)]
        if not others:
            continue
        if site.kind != "render":
            found.add("revisit:shared-scope-callee")
        elif any(o.kind == "render" and o.kwargs == site.kwargs and o.binds != site.binds for o in others):
            found.add("revisit:render-same-kwargs-other-binding")
        else:
            found.add("revisit:render")
    for f in ("revisit:render-same-kwargs-other-binding", "revisit:shared-scope-callee", "revisit:render"):
        if f in found:
            return f, chain
    return "reached-once", chain


# ---------------------------------------------------------------------------------------
def check_program(res: Result, shape: list[Any], layout: str, data_labels: Optional[list[str]] = None,
                  modes: Optional[list[str]] = None) -> None:
    world = G.World(shape, layout)
    env = env_for(layout)
    src = world.main.source
    with warnings.catch_warnings():
        warnings.simplefilter("ignore")
        p = U.parse(env, src, name="main")
    if not p.ok:
        # the generator only emits well-formed programs; template-inheritance rules (duplicate block
        # names) are the one static rejection it does not model
        res.case(outcome=f"parse:{p.error_class}")
        res.count("rejected_by_parser")
        if p.error_class not in ("TemplateInheritanceError",):
            raise RuntimeError(f"generator emitted a program the parser rejects: {src!r}: {p!r}")
        return
    t = p.value
    an = U.outcome(lambda: t.analyze())
    if not an.ok:
        res.case(outcome=f"analyze:{an.error_class}")
        res.count("analysis_raised")
        if an.is_other_error:
            res.violation({"clause": "analysis-raises", "error": an.error_class, "where": an.where},
                          f"analyze() of {src!r} raised {an.error_class}", {"shape": shape, "layout": layout, "source": src})
        return
    a = an.value
    rep_roots = set(a.variables)
    rep_paths = {canon_segments(v.segments) for vs in a.variables.values() for v in vs}
    rep_filters = set(a.filters)
    rep_tags = set(a.tags)
    rep_globals = set(a.globals)
    rep_global_at = {(v.span.template_name, v.span.index) for vs in a.globals.values() for v in vs}

    seen_markers: set[str] = set()
    all_markers = [m for pt in world.templates.values() for m in pt.markers]

    for label, data in G.DATA:
        if data_labels is not None and label not in data_labels:
            continue
        for mode in (("sync", "async") if label == "D1" else ("sync",)):
            if modes is not None and mode not in modes:
                continue
            tr, out = MONITOR.run(t, data, is_async=(mode == "async"))
            case = {"shape": shape, "layout": layout, "data": label, "mode": mode, "source": src}
            if out.ok:
                for m in all_markers:
                    if m in out.value:
                        seen_markers.add(m)
            # -- paths / roots ---------------------------------------------------
            for key, (psrc, pidx) in tr.paths.items():
                PT = world.by_source.get(psrc)
                where = PT.name if PT is not None else "?"
                if key not in rep_paths:
                    res.violation({"clause": "path", "path": repr(key), "template": where},
                                  f"path {key!r} evaluated in {where!r} (data {label}, {mode}) is not among the reported "
                                  f"variable paths of {src!r}", case)
                root = key[0]
                if isinstance(root, str):
                    if root not in rep_roots:
                        res.violation({"clause": "variable-root", "root": root, "template": where},
                                      f"root {root!r} evaluated in {where!r} (data {label}, {mode}) is not a reported variable "
                                      f"of {src!r}", case)
                else:
                    res.count("unspecified_excluded:dynamic-root-name")
            # -- filters / tags ----------------------------------------------------
            for name in tr.filters:
                if name not in rep_filters:
                    res.violation({"clause": "filter", "filter": name},
                                  f"filter {name!r} applied (data {label}, {mode}) is not reported for {src!r}", case)
            for name, (tsrc, _tidx) in tr.tags.items():
                if name not in rep_tags:
                    TT = world.by_source.get(tsrc)
                    res.violation({"clause": "tag", "tag": name, "template": TT.name if TT else "?"},
                                  f"tag {name!r} rendered (data {label}, {mode}) is not reported for {src!r}", case)
            # -- globals -------------------------------------------------------------
            n_glob = n_exempt = 0
            for (rsrc, ridx, root, _label, frames) in tr.supplied:
                RT = world.by_source.get(rsrc)
                ref = RT.refs.get(ridx) if RT is not None else None
                if ref is None or (ref[0] is not None and ref[0] != root):
                    raise RuntimeError(f"harness cannot locate the reference to {root!r} at index {ridx} in the abstract "
                                       f"program (token offsets or sources changed): {src!r}")
                if ref[0] is None:
                    # [expr] as the root: the name looked up is a run-time value, no static report can name it
                    res.count("unspecified_excluded:dynamic-root-name")
                    continue
                fr = resolve_frames(world, frames)
                why = exemption(RT, ridx, root, fr)
                if why is not None:
                    n_exempt += 1
                    res.count(("unspecified_excluded:" + why.split("unspecified:")[1]) if "unspecified:" in why
                              else "exempt:" + why)
                    continue
                n_glob += 1
                if root not in rep_globals:
                    feat, chain = feature(world, fr)
                    sig = {"clause": "globals", "level": "root-name", "feature": feat, "chain": chain,
                           "ref_template": RT.name, "root": root}
                    res.violation(sig, f"root {root!r} was supplied by the render arguments/globals at {RT.name}:{ridx} "
                                       f"(reached via {chain}, data {label}, {mode}); the reference is not inside a block "
                                       f"binding it nor preceded by an assignment, but it is not in globals "
                                       f"{sorted(rep_globals)} of {src!r}", case)
                elif (RT.name, ridx) not in rep_global_at:
                    # docs/static_analysis.md + TemplateAnalysis: `globals` lists the out-of-scope variables with the
                    # location of each; the root is reported, but not for this reference
                    feat, chain = feature(world, fr)
                    sig = {"clause": "globals", "level": "location", "feature": feat, "chain": chain,
                           "ref_template": RT.name, "root": root}
                    res.violation(sig, f"root {root!r} was supplied by the render arguments/globals at {RT.name}:{ridx} "
                                       f"(reached via {chain}, data {label}, {mode}) at a non-exempt reference; globals reports "
                                       f"{root!r} only at other locations "
                                       f"{sorted((v.span.template_name, v.span.index) for v in a.globals[root])} of {src!r}", case)
            res.count("supplied_checked", n_glob)
            if tr.stray:
                res.count("supplied_outside_variable_lookup", tr.stray)
            nt = [shape, label, mode] if tr.paths and tr.tags else None
            res.case(nontrivial=nt, sample=case if n_glob and tr.frames_seen else None,
                     outcome=f"{'ok' if out.ok else out.error_class}|g{min(n_glob, 3)}e{min(n_exempt, 3)}f{min(tr.frames_seen, 3)}")
    if data_labels is None:
        res.count("branch_markers_total", len(all_markers))
        res.count("branch_markers_hit", len(seen_markers))


class C19(Check):
    id = "C19"
    level = "exploration"
    title = "Static analysis reports everything a render can touch"
    rule = (
        f"Every program of the C19 menu ({len(G.LEAVES)} leaves incl. include/render/extends sites -- with, for, as, keyword arguments, "
        "and the implicit partial-name binding -- and macro calls, 14 blocks: "
        "if/elsif/unless/case/for/for-else/tablerow/capture/with/macro/block/ifchanged) up to the size bound, nesting "
        "depth <= 2, x 4 data sets (D1-D3 drive every branch and loop body, D4 = all missing) x {sync, +async for D1}; "
        "analysed once, rendered under the monitor. Non-trivial = the render evaluated at least one path and rendered at "
        "least one tag."
    )
    assumptions = [
        "a reference is identified by (token.source, token.start_index); C20 checks those offsets",
        "render arguments are observed through a dict subclass passed to RenderContext via make_globals(); a canary render "
        "fails the run if that (or any wrapper) stops seeing events",
        "lexical exemptions are generous where the statement is silent (reference inside the assigning tag itself, "
        "increment/decrement counters, else-branch of a for): such reads are exempted and counted under "
        "unspecified_excluded:*",
    ]

    def bounds(self, tier: str) -> dict[str, Any]:
        n, core = self.size(tier)
        return {"constructs": f"<= {n - 1} over the full menu ({len(G.LEAVES)} leaves, {len(G.BLOCKS)} blocks) and = {n} over "
                              f"the core menu ({len(core[0])} leaves, {len(core[1])} blocks)",
                "depth": 2, "partials": sorted(G.PARTIAL_ITEMS), "data_sets": [d[0] for d in G.DATA], "layout": "plain"}

    @staticmethod
    def size(tier: str) -> tuple[int, tuple[list[int], list[int]]]:
        return (3, CORE3) if tier == "quick" else (4, CORE4)

    def programs(self, tier: str) -> Any:
        n, core = self.size(tier)
        yield from G.shapes(n - 1, 2)
        yield from G.shapes_exact(n, 2, core[0], core[1])

    def shards(self, tier: str) -> list[Any]:
        n = 64 if tier == "quick" else 256
        return [("P", i, n) for i in range(n)]

    def run_shard(self, shard: Any, tier: str) -> Result:
        setup()
        res = Result()
        _, i, n = shard
        for idx, shape in enumerate(self.programs(tier)):
            if idx % n == i:
                check_program(res, shape, "plain")
        res.violations = json.loads(jdumps(res.violations))  # plain JSON types only (liquid uses str subclasses)
        return res

    def replay(self, case: Any) -> list[dict[str, Any]]:
        setup()
        res = Result()
        check_program(res, case["shape"], case.get("layout", "plain"), [case["data"]], [case["mode"]])
        return json.loads(jdumps(res.violations))


# core menus (indices into G.LEAVES / G.BLOCKS) for the largest size of each tier
CORE3 = (G.CORE_LEAVES, G.CORE_BLOCKS)
CORE4 = (G.CORE4_LEAVES, G.CORE4_BLOCKS)

CHECK = C19()
