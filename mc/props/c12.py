"""C12 -- conditions follow Liquid truthiness and operator rules.

Bounded exhaustive enumeration on the real implementation against ``mc.ref.c12_ref``:

(i)   every (op, left, right) over the value lattice W, each operand as a literal (where a
      literal exists) and as a variable, in every condition site
      (if / unless / elsif / elsif-in-unless / ternary; case-when for equality);
(ii)  truthiness of every single value in every site;
(iii) every and/or/not/parenthesis tree inside the stated leaf/depth bound over the leaves
      {true, false, nil, x}, under all four settings of logical_not_operator x
      logical_parentheses.

Observable: which branch text was rendered, or the class of the error raised.
Cells that neither the property statement nor /repo/docs fix are not executed as oracles:
they are counted under ``unspecified_excluded`` (and per reason).
"""

from __future__ import annotations

from typing import Any
from typing import Iterator
from typing import Optional

from mc.core import Check
from mc.core import Result
from mc.ref import c12_ref as R
from mc.util import make_env
from mc.util import outcome
from mc.util import reset_memo

# ---------------------------------------------------------------------------
# condition sites: template with a slot for the condition, and whether the site inverts
# ---------------------------------------------------------------------------
SITES: dict[str, tuple[str, bool, str]] = {
    # name: (template, inverted, provenance rule of the site)
    "if": ("<{% if @C@ %}T{% else %}F{% endif %}>", False, "TRUTHY"),
    "unless": ("<{% unless @C@ %}T{% else %}F{% endunless %}>", True, "UNLESS"),
    "elsif": ("<{% if false %}X{% elsif @C@ %}T{% else %}F{% endif %}>", False, "ELSIF"),
    "unless_elsif": ("<{% unless true %}X{% elsif @C@ %}T{% else %}F{% endunless %}>", False, "ELSIF"),
    "ternary": ("<{{ 'T' if @C@ else 'F' }}>", False, "TERNARY"),
}
CASE_TEMPLATE = "<{% case @L@ %}{% when @R@ %}T{% else %}F{% endcase %}>"
COND_SITES = ("if", "unless", "elsif", "unless_elsif", "ternary")
# sites in which /repo/docs say parentheses are rejected while logical_parentheses is off
PAREN_DISABLED_SITES = ("if", "elsif")

FLAG_ATTRS = ("logical_not_operator", "logical_parentheses", "ternary_expressions")

_ENVS: dict[tuple[bool, bool], Any] = {}


def env_for(not_on: bool, par_on: bool) -> Any:
    key = (not_on, par_on)
    env = _ENVS.get(key)
    if env is None:
        from liquid import Environment

        for name in FLAG_ATTRS:
            if not hasattr(Environment, name):
                raise RuntimeError(f"harness binding lost: Environment.{name} no longer exists")
        env = make_env(flags={"logical_not_operator": not_on, "logical_parentheses": par_on,
                              "ternary_expressions": True})
        _ENVS[key] = env
    return env


def is_type_error(o: Any) -> bool:
    from liquid.exceptions import LiquidTypeError

    return o.is_liquid_error and isinstance(o[3], LiquidTypeError)


def observe(env: Any, source: str, data: dict[str, Any], cache: Optional[dict[str, Any]] = None) -> str:
    """'T' / 'F' / 'text:<...>' / 'liquid:<Class>' / 'other:<Class>@<frame>'."""
    tmpl = cache.get(source) if cache is not None else None
    if tmpl is None:
        o = outcome(lambda: env.from_string(source))
        if not o.ok:
            return _err_label(o, "parse")
        tmpl = o.value
        if cache is not None:
            if len(cache) > 4096:
                cache.clear()
            cache[source] = tmpl
    o = outcome(lambda: tmpl.render(**data))
    if not o.ok:
        return _err_label(o, "render")
    if o.value == "<T>":
        return "T"
    if o.value == "<F>":
        return "F"
    return "text:" + repr(o.value)[:40]


def _err_label(o: Any, phase: str) -> str:
    if o.is_liquid_error:
        if is_type_error(o):
            return "LiquidTypeError"
        return f"liquid:{o.error_class}@{phase}"
    return f"other:{o.error_class}@{o.where}"


def want_label(v: Any, inverted: bool) -> str:
    if v == "LiquidTypeError":
        return "LiquidTypeError"
    return "T" if bool(v) != inverted else "F"


# ---------------------------------------------------------------------------
# (i) + (ii): operand forms
# ---------------------------------------------------------------------------
def operand_forms(tier: str) -> list[tuple[str, Any, str, Optional[str]]]:
    """(label, value, form, literal) with form in {lit, var}."""
    out: list[tuple[str, Any, str, Optional[str]]] = []
    for label, v, lit in R.lattice(tier):
        if lit is not None:
            out.append((label, v, "lit", lit))
        if v is not R.EMPTY and v is not R.BLANK:
            out.append((label, v, "var", None))
    return out


def cmp_sites(op: str) -> tuple[str, ...]:
    return COND_SITES + (("case",) if op == "==" else ())


def cmp_case_count(tier: str) -> int:
    n = len(operand_forms(tier))
    return sum(len(cmp_sites(op)) for op in R.OPS_CHECKED) * n * n


def cmp_cases(tier: str, lo: int, hi: int) -> Iterator[tuple[str, str, Any, Any]]:
    forms = operand_forms(tier)
    n = len(forms)
    i = 0
    for op in R.OPS_CHECKED:
        for site in cmp_sites(op):
            if i + n * n <= lo or i >= hi:
                i += n * n
                continue
            for lf in forms:
                for rf in forms:
                    if lo <= i < hi:
                        yield op, site, lf, rf
                    i += 1


def build_cmp(op: str, site: str, lf: Any, rf: Any) -> tuple[str, dict[str, Any]]:
    data: dict[str, Any] = {}
    lsrc = lf[3] if lf[2] == "lit" else "a"
    rsrc = rf[3] if rf[2] == "lit" else "b"
    if lf[2] == "var" and lf[1] is not R.UNDEF:
        data["a"] = lf[1]
    if rf[2] == "var" and rf[1] is not R.UNDEF:
        data["b"] = rf[1]
    if site == "case":
        src = CASE_TEMPLATE.replace("@L@", lsrc).replace("@R@", rsrc)
    else:
        src = SITES[site][0].replace("@C@", f"{lsrc} {op} {rsrc}")
    return src, data


def check_cmp(op: str, site: str, lf: Any, rf: Any, res: Optional[Result], cache: Optional[dict[str, Any]] = None
              ) -> Optional[dict[str, Any]]:
    v, why = R.ref_compare(op, lf[1], rf[1])
    if v is None:
        if res is not None:
            res.count("unspecified_excluded")
            res.count("excluded[" + why + "]")
        return None
    inverted = SITES[site][1] if site != "case" else False
    want = want_label(v, inverted)
    src, data = build_cmp(op, site, lf, rf)
    got = observe(env_for(False, False), src, data, cache)
    case = {"part": "cmp", "op": op, "site": site, "l": lf[0], "lform": lf[2], "r": rf[0], "rform": rf[2],
            "template": src, "rule": why}
    if res is not None:
        res.case(nontrivial=[op, site, lf[0], lf[2], rf[0], rf[2]], outcome=f"cmp:{op}:{want}",
                 sample={"template": src, "data": {k: repr(x) for k, x in data.items()}, "expected": want,
                         "rule": why} if (lf[0], rf[0], site) in SAMPLE_CELLS else None)
        res.count("rule[" + why.split("+")[0] + "]")
    if got != want:
        base = why.split("+")[0]
        return {
            "signature": {"part": "cmp", "clause": why, "site": site, "op": op, "lkind": R.kind(lf[1]),
                          "rkind": R.kind(rf[1]), "want": want, "got": got},
            "what": f"{src} with a={lf[1]!r} b={rf[1]!r} -> {got}, expected {want} "
                    f"[{why}: {R.RULES.get(base, base)[:160]}]",
            "case": case,
        }
    return None


SAMPLE_CELLS = {("true", "i1", "if"), ("s_space", "blank", "unless"), ("i1", "s_a", "ternary"), ("range", "i2", "elsif"),
                ("l_1", "i1", "case")}


def truth_cases(tier: str) -> Iterator[tuple[str, Any]]:
    for site in COND_SITES:
        for f in operand_forms(tier):
            yield site, f


def check_truth(site: str, f: Any, res: Optional[Result]) -> Optional[dict[str, Any]]:
    v, why = R.truthy(f[1])
    if v is None:
        if res is not None:
            res.count("unspecified_excluded")
            res.count("excluded[" + why + "]")
        return None
    tmpl, inverted, site_rule = SITES[site]
    want = want_label(v, inverted)
    src = tmpl.replace("@C@", f[3] if f[2] == "lit" else "a")
    data = {"a": f[1]} if (f[2] == "var" and f[1] is not R.UNDEF) else {}
    got = observe(env_for(False, False), src, data)
    if res is not None:
        res.case(nontrivial=["truth", site, f[0], f[2]], outcome=f"truth:{want}",
                 sample={"template": src, "data": {k: repr(x) for k, x in data.items()}, "expected": want,
                         "rule": "TRUTHY"} if (f[0], site) == ("i0", "unless") else None)
        res.count("rule[TRUTHY]")
    if got != want:
        return {
            "signature": {"part": "truth", "clause": "TRUTHY+" + site_rule, "site": site, "kind": R.kind(f[1]),
                          "form": f[2], "want": want, "got": got},
            "what": f"{src} with a={f[1]!r} -> {got}, expected {want} [{R.RULES['TRUTHY'][:120]}]",
            "case": {"part": "truth", "site": site, "v": f[0], "form": f[2], "template": src},
        }
    return None


# ---------------------------------------------------------------------------
# (iii) trees
# ---------------------------------------------------------------------------
X_VALUES: dict[str, Any] = {"i0": 0, "undef": R.UNDEF, "s_empty": "", "l_empty": [], "false": False, "nil": None}
CONFIGS = ((True, True), (False, True), (True, False), (False, False))


def x_labels(tier: str) -> tuple[str, ...]:
    return ("i0", "undef") if tier == "quick" else ("i0", "undef", "s_empty", "false")


FULL = R.LEAF_SYMS  # true, false, nil, x
NO_NIL = ("true", "false", "x")


def tree_families(tier: str) -> list[tuple[str, tuple[str, ...], list[tuple[int, int, tuple[str, ...]]]]]:
    """(family name, sites, [(exact number of leaves, max not/paren nesting depth, leaf alphabet)])."""
    if tier == "quick":
        return [
            ("if", ("if",), [(1, 2, FULL), (2, 2, FULL), (3, 2, FULL), (4, 1, NO_NIL)]),
            ("other", ("unless", "elsif", "unless_elsif", "ternary"), [(1, 2, FULL), (2, 2, FULL), (3, 1, FULL)]),
        ]
    return [
        ("if", ("if",), [(1, 3, FULL), (2, 3, FULL), (3, 3, FULL), (4, 2, FULL)]),
        ("other", ("unless", "elsif", "unless_elsif", "ternary"),
         [(1, 2, FULL), (2, 2, FULL), (3, 2, FULL), (4, 1, FULL)]),
    ]


def family_trees(spec: list[tuple[int, int, tuple[str, ...]]]) -> Iterator[Any]:
    for n, d, syms in spec:
        yield from R._exprs(n, d, syms)


def has_x(e: Any) -> bool:
    if e[0] == "chain":
        return any(has_x(u) for u in e[1])
    if e[0] == "leaf":
        return e[1] == "x"
    return has_x(e[1])


def check_tree(tree: Any, site: str, config: tuple[bool, bool], xs: tuple[str, ...], res: Optional[Result]
               ) -> list[dict[str, Any]]:
    out: list[dict[str, Any]] = []
    f = R.tree_features(tree)
    not_on, par_on = config
    cond = R.tree_source(tree)
    tmpl, inverted, _ = SITES[site]
    src = tmpl.replace("@C@", cond)
    env = env_for(not_on, par_on)
    flags = f"not={int(not_on)},par={int(par_on)}"
    missing_not = bool(f["not"]) and not not_on
    missing_par = bool(f["par"]) and not par_on
    nontrivial = f["leaves"] >= 2 or f["not"] or f["par"]

    if missing_not or missing_par:
        if not missing_not and site not in PAREN_DISABLED_SITES:
            if res is not None:
                res.count("unspecified_excluded")
                res.count("excluded[parentheses-disabled-outside-if-tag]")
            return out
        rule = "NOT-DISABLED" if missing_not else "PARENS-DISABLED"
        got = observe(env, src, {})
        ok = got.startswith("liquid:") or got == "LiquidTypeError"  # any LiquidError subclass
        if res is not None:
            res.case(nontrivial=[site, cond] if nontrivial else None, outcome=f"tree:{rule}:{'error' if ok else got}")
            res.count(f"rule[{rule}]")
        if not ok:
            out.append({
                "signature": {"part": "tree", "clause": rule, "site": site, "flags": flags, "want": "liquid-error",
                              "got": got},
                "what": f"{src} with {flags} -> {got}, expected a Liquid error [{R.RULES[rule][:140]}]",
                "case": {"part": "tree", "site": site, "tree": tree, "flags": [not_on, par_on], "x": [], "template": src},
            })
        return out

    labels = xs if has_x(tree) else xs[:1]
    tmpl_cache: dict[str, Any] = {}
    for xl in labels:
        xv = X_VALUES[xl]
        v, why = R.tree_verdict(tree, bool(R.truthy(xv)[0]))
        if v is None:
            if res is not None:
                res.count("unspecified_excluded")
                res.count("excluded[" + why + "]")
            continue
        want = want_label(v, inverted)
        data = {} if xv is R.UNDEF else {"x": xv}
        got = observe(env, src, data, tmpl_cache)
        if res is not None:
            res.case(nontrivial=[site, cond] if nontrivial else None, outcome=f"tree:{want}",
                     sample={"template": src, "flags": flags, "data": {k: repr(x) for k, x in data.items()},
                             "expected": want, "rule": why}
                     if (f["leaves"] == 4 and f["not"] and f["par"] and len(res.samples) < 1) else None)
            res.count("rule[" + why.split("+")[0] + "]")
        if got != want:
            shape = f"leaves={f['leaves']},and={f['and']},or={f['or']},not={min(f['not'], 1)},par={min(f['par'], 1)}"
            out.append({
                "signature": {"part": "tree", "clause": why, "site": site, "flags": flags, "shape": shape,
                              "want": want, "got": got},
                "what": f"{src} with {flags}, x={xv!r} -> {got}, expected {want} "
                        f"[{why}: {R.RULES.get(why, R.RULES['AND-OR-RIGHT'])[:150]}]",
                "case": {"part": "tree", "site": site, "tree": tree, "flags": [not_on, par_on], "x": [xl],
                         "template": src},
            })
    return out


# ---------------------------------------------------------------------------
class C12(Check):
    id = "C12"
    level = "exploration"
    title = "Conditions follow Liquid truthiness and operator rules"
    rule = (
        "Exhaustive product, executed on the real parser/renderer and compared with mc/ref/c12_ref.py: "
        "(i) every (operator in ==,!=,<,>,<=,>=,contains) x (left, right) over the value lattice W, each operand "
        "as a literal where one exists and as a render variable, in the sites if / unless / elsif / elsif-in-unless "
        "/ ternary, plus case-when for ==; (ii) truthiness of every single operand form in each site; (iii) every "
        "concrete-syntax tree expr := unit ((and|or) unit)*, unit := leaf | not unit | ( expr ) over leaves "
        "{true,false,nil,x} inside the stated (leaves, nesting) bound, x bound to each listed value, under all four "
        "settings of logical_not_operator x logical_parentheses (a tree using a disabled feature must be a Liquid "
        "error). Observable: the rendered branch text or the error class. A case is executed only if a rule with "
        "provenance (property statement or /repo/docs section) fixes its result; all other cells are counted under "
        "counters.unspecified_excluded and excluded[<reason>]. Non-trivial = comparison/truthiness cell with an "
        "oracle (identity: site, op, operand labels and forms); tree with >= 2 leaves or a not/parenthesis "
        "(identity: site + condition source; each such tree is executed under the 4 flag settings and every x "
        "value, which count as evaluations, not as further distinct cases)."
    )
    assumptions = [
        "the default Undefined type and the default (strict) tolerance; other undefined types are C16's subject",
        "values outside the lattice (other strings, NaN/inf, nested containers beyond those listed, drops with "
        "__liquid__) are not covered",
        "string ordering is only asserted on strings whose relative order is the same under every usual collation",
        "the reach of `not` inside an and/or chain is not fixed by the statement or /repo/docs: only valuations on "
        "which 'not binds to the next operand' and 'not negates the rest of the chain' agree are used as oracles",
    ]

    def bounds(self, tier: str) -> dict[str, Any]:
        fams = tree_families(tier)
        return {
            "lattice_values": [w[0] for w in R.lattice(tier)],
            "operand_forms": len(operand_forms(tier)),
            "operators": list(R.OPS_CHECKED),
            "operators_excluded_as_undocumented": list(R.OPS_UNSPECIFIED),
            "sites": list(COND_SITES) + ["case(== only)"],
            "trees": {name: {"sites": list(sites),
                             "(leaves,max_nesting,leaf_alphabet)": [[n, d, "|".join(syms)] for n, d, syms in spec]}
                      for name, sites, spec in fams},
            "tree_x_values": list(x_labels(tier)),
            "flag_configs(not,parens)": [list(c) for c in CONFIGS],
        }

    # -- sharding ---------------------------------------------------------------
    def shards(self, tier: str) -> list[Any]:
        sh: list[Any] = []
        total = cmp_case_count(tier)
        ncmp = 12 if tier == "quick" else 24
        step = (total + ncmp - 1) // ncmp
        for lo in range(0, total, step):
            sh.append(("cmp", lo, min(total, lo + step)))
        sh.append(("truth",))
        for name, sites, spec in tree_families(tier):
            if tier == "quick":
                k = 40 if name == "if" else 6
            else:
                k = 400 if name == "if" else 80
            for i in range(k):
                sh.append(("tree", name, i, k))
        return sh

    def run_shard(self, shard: Any, tier: str) -> Result:
        res = Result()
        reset_memo()
        if shard[0] == "cmp":
            cache: dict[str, Any] = {}
            for op, site, lf, rf in cmp_cases(tier, shard[1], shard[2]):
                v = check_cmp(op, site, lf, rf, res, cache)
                if v:
                    res.violation(v["signature"], v["what"], v["case"])
            if shard[1] == 0:
                n = len(operand_forms(tier))
                res.count("unspecified_excluded", len(R.OPS_UNSPECIFIED) * len(COND_SITES) * n * n)
                res.count("excluded[operator-<>-undocumented]", len(R.OPS_UNSPECIFIED) * len(COND_SITES) * n * n)
        elif shard[0] == "truth":
            for site, f in truth_cases(tier):
                v = check_truth(site, f, res)
                if v:
                    res.violation(v["signature"], v["what"], v["case"])
        else:
            _, name, i, k = shard
            fam = [f for f in tree_families(tier) if f[0] == name][0]
            xs = x_labels(tier)
            for idx, tree in enumerate(family_trees(fam[2])):
                if idx % k != i:
                    continue
                for site in fam[1]:
                    for config in CONFIGS:
                        for v in check_tree(tree, site, config, xs, res):
                            res.violation(v["signature"], v["what"], v["case"])
        return res

    # -- replay -----------------------------------------------------------------
    def replay(self, case: Any) -> list[dict[str, Any]]:
        forms = {(f[0], f[2]): f for f in operand_forms("thorough")}
        reset_memo()
        if case["part"] == "cmp":
            v = check_cmp(case["op"], case["site"], forms[(case["l"], case["lform"])],
                          forms[(case["r"], case["rform"])], None)
            return [v] if v else []
        if case["part"] == "truth":
            v = check_truth(case["site"], forms[(case["v"], case["form"])], None)
            return [v] if v else []
        xs = tuple(case["x"]) or ("i0",)
        out = check_tree(case["tree"], case["site"], (bool(case["flags"][0]), bool(case["flags"][1])), xs, None)
        return out


CHECK = C12()
