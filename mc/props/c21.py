"""C21 — tag analysis is total and raises no false alarms.

Bounded exhaustive enumeration on the real ``Environment.analyze_tags_from_string``:
every sequence of tag tokens up to a stated length over a 19-name alphabet (28 names in the
``extra=True`` environment), rendered as source text with well-formed expressions; longer
sequences (7-8 tokens) as substitution mutants (<= 2 deviations) of valid, properly nested
skeletons; and every program of the shared generator.

Oracle (literal reading of the property statement):

1. the analysis returns; any exception is a violation (the source is in the domain when the
   environment's own tokenizer accepts it, which is re-checked before reporting);
2. if ``from_string`` of the same source succeeds in the same (STRICT) environment, then
   ``unclosed_tags``, ``unexpected_tags`` and ``unknown_tags`` are all empty;
3. (a) every tag name that is not registered and is neither the end tag nor an inner tag of a
   registered block is a key of ``unknown_tags``; (b) every registered block name with more
   opening tags than end tags following them is a key of ``unclosed_tags``.  Both
   expectations are computed from the abstract token sequence (``mc/ref/c21_model.py``),
   ambiguous cells are excluded and counted.
"""

from __future__ import annotations

import itertools
from collections import Counter
from typing import Any
from typing import Optional

from mc.core import Check
from mc.core import Result
from mc.ref import c21_model as M

ENV_LABELS = ("default", "extra")
ENTRIES = ("string", "loader", "loader-async")
_ENVS: dict[str, tuple[Any, M.EnvFacts]] = {}
_STORES: dict[str, dict[str, str]] = {}


class HarnessError(Exception):
    pass


def get_env(label: str) -> tuple[Any, M.EnvFacts]:
    got = _ENVS.get(label)
    if got is None:
        from liquid import Environment
        from liquid import Mode

        from liquid import DictLoader

        _STORES[label] = {}
        env = Environment(extra=(label == "extra"), tolerance=Mode.STRICT, loader=DictLoader(_STORES[label]))
        for attr in ("analyze_tags_from_string", "analyze_tags", "analyze_tags_async", "from_string",
                     "tokenizer", "tags"):
            if not hasattr(env, attr):
                raise HarnessError(f"harness binding lost: Environment.{attr}")
        got = (env, M.EnvFacts(env))
        _ENVS[label] = got
    return got


_SITE_CACHE: dict[str, str] = {}


def raise_site(exc: BaseException) -> str:
    """``relative/file.py:function`` of the innermost library frame (cheap: no source lines)."""
    import os

    from mc.util import REPO

    best = "?"
    tb = exc.__traceback__
    while tb is not None:
        code = tb.tb_frame.f_code
        fn = _SITE_CACHE.get(code.co_filename)
        if fn is None:
            real = os.path.realpath(code.co_filename)
            fn = os.path.relpath(real, REPO) if real.startswith(REPO + os.sep) else ""
            _SITE_CACHE[code.co_filename] = fn
        if fn.startswith("liquid" + os.sep):
            best = f"{fn}:{code.co_name}"
        tb = tb.tb_next
    return best


def _reported(ta: Any) -> dict[str, dict[str, list[Any]]]:
    out: dict[str, dict[str, list[Any]]] = {}
    for field in ("unclosed", "unexpected", "unknown"):
        attr = field + "_tags"
        if not hasattr(ta, attr):
            raise HarnessError(f"harness binding lost: TagAnalysis.{attr}")
        out[field] = {str(k): list(v) for k, v in dict(getattr(ta, attr)).items() if v}
    return out


def analyze(label: str, env: Any, source: str, entry: str, name: Optional[str] = None) -> Any:
    """The analysis through one of its three public entry points."""
    if entry == "string":
        if name is not None:
            return env.analyze_tags_from_string(source, name=name)
        return env.analyze_tags_from_string(source)
    store = _STORES[label]
    if store.get("t") != source:
        store["t"] = source
    if entry == "loader":
        return env.analyze_tags("t")
    if entry == "loader-async":
        from mc.util import run_coro

        return run_coro(env.analyze_tags_async("t"))
    raise AssertionError(entry)


def evaluate(label: str, source: str, names: Optional[tuple[str, ...]], entry: str = "string",
             name: Optional[str] = None, history: Optional[str] = None) -> dict[str, Any]:
    """Run one case.  ``names`` is the abstract token sequence (None for generator programs:
    clause 3 is then not applied).  ``name`` is the template name handed to the analysis;
    ``history`` labels what was analysed just before in this process (cross-environment pairs)
    and is added to every signature."""
    from liquid.exceptions import LiquidError

    env, facts = get_env(label)
    viols: list[dict[str, Any]] = []
    counts: Counter[str] = Counter()
    case = {"env": label, "source": source, "seq": list(names) if names is not None else None, "entry": entry}
    hsig: dict[str, Any] = {"history": history} if history else {}
    tokens = M.scan_tags(source)
    scanned = tuple(n for n, _ in tokens)
    if names is not None and scanned != names:
        raise HarnessError(f"scanner disagrees with the generator: {source!r} -> {scanned} != {names}")

    # ---- clause 1: total ---------------------------------------------------------------
    got: Optional[dict[str, dict[str, list[Any]]]] = None
    raised = ""
    try:
        ta = analyze(label, env, source, entry, name)
    except Exception as e:  # noqa: BLE001  any exception is the violation
        try:
            list(env.tokenizer()(source))
            lex_ok = True
        except Exception:  # noqa: BLE001
            lex_ok = False
        if not lex_ok:
            counts["lexer_rejects_excluded"] += 1
            return {"violations": [], "counts": counts, "outcome": "lexer-rejects", "nontrivial": False,
                    "case": case}
        raised = type(e).__name__
        feature = "end-tag-with-no-open-block" if M.stray_end(scanned, facts) else "no-stray-end-tag"
        where = raise_site(e)
        viols.append({
            "signature": {"clause": "1-total", "exc": raised, "feature": feature, "where": where, "env": label,
                          **hsig},
            "what": f"[{label}] tag analysis ({entry}) of {source!r} raised {raised}: {str(e)[:80]} at {where}",
            "case": case,
        })
    else:
        got = _reported(ta)

    # ---- strict parse (premise of clause 2) ----------------------------------------------
    try:
        env.from_string(source)
        parsed = "parse-ok"
    except LiquidError:
        parsed = "parse-error"
    except Exception:  # noqa: BLE001  not this property's business (C02); the premise fails
        parsed = "parse-crash"
        counts["strict_parse_non_liquid_exception"] += 1

    # ---- clause 2: no false alarms ---------------------------------------------------------
    if got is not None and parsed == "parse-ok" and M.extraneous_branch(scanned, facts):
        # if/unless with a branch after its else: the parser discards the extra branch
        # token by token, whatever it contains; neither the statement nor the docs say what
        # the analysis may report about tags located in such never-parsed text.
        counts["unspecified_excluded"] += 1
        counts["unspecified_excluded:clause2_source_has_extraneous_else_or_elsif_branch"] += 1
        parsed = "parse-ok-with-discarded-branch"
    if got is not None and parsed == "parse-ok":
        counts["clause2_premise_holds"] += 1
        ctx = M.contexts(tokens, facts) if any(got.values()) else {}
        seen: set[str] = set()
        for field in ("unclosed", "unexpected", "unknown"):
            for tag, spans in sorted(got[field].items()):
                for sp in spans:
                    idx = getattr(sp, "index", None)
                    c = ctx.get(idx) if isinstance(idx, int) else None
                    if c is None or c["name"] != tag:
                        feature = "span-is-not-this-tag"
                    elif tag in ("break", "continue"):
                        feature = "loop-control:enclosing-loops=" + ("+".join(sorted(set(c["loops"]))) or "none")
                    else:
                        feature = "innermost-block=" + str(c["innermost"])
                    sig = {"clause": "2-no-false-alarm", "field": field, "tag": tag, "feature": feature,
                           "env": label, **hsig}
                    key = repr(sorted(sig.items()))
                    if key in seen:
                        continue
                    seen.add(key)
                    viols.append({
                        "signature": sig,
                        "what": f"[{label}] {source!r} parses in strict mode but {field}_tags reports "
                                f"{tag!r} at {idx} ({feature})",
                        "case": case,
                    })

    # ---- clause 3: unknown names and unclosed blocks are reported -----------------------------
    must_unknown: set[str] = set()
    must_unclosed: set[str] = set()
    if names is not None:
        must_unknown, must_unclosed, excluded = M.expectations(names, facts)
        if excluded:
            counts["unspecified_excluded"] += excluded
            counts["unspecified_excluded:unregistered_end_tag_whose_start_tag_is_present"] += excluded
        if got is not None:
            for tag in sorted(must_unknown - set(got["unknown"])):
                elsewhere = [f for f in ("unclosed", "unexpected") if tag in got[f]]
                viols.append({
                    "signature": {"clause": "3a-unknown-reported", "tag": tag, "env": label, **hsig,
                                  "feature": "reported-as-" + "+".join(elsewhere) if elsewhere else "not-reported"},
                    "what": f"[{label}] {source!r}: {tag!r} is not registered and is no end/inner tag of a "
                            f"registered block, but unknown_tags is {sorted(got['unknown'])}",
                    "case": case,
                })
            for tag in sorted(must_unclosed - set(got["unclosed"])):
                viols.append({
                    "signature": {"clause": "3b-unclosed-reported", "tag": tag, "env": label, **hsig},
                    "what": f"[{label}] {source!r}: block {tag!r} has more opening tags than end tags after "
                            f"them, but unclosed_tags is {sorted(got['unclosed'])}",
                    "case": case,
                })
            if must_unknown:
                counts["clause3a_cases_checked"] += 1
            if must_unclosed:
                counts["clause3b_cases_checked"] += 1

    rep = "".join(f[2] for f in ("unclosed", "unexpected", "unknown") if got and got[f]) if got is not None else ""
    outcome = "|".join([
        parsed,
        ("raise:" + raised) if got is None else ("reports:" + (rep or "-")),
        "req:" + ("U" if must_unknown else "") + ("C" if must_unclosed else "") if names is not None else "req:n/a",
    ])
    nontrivial = (parsed == "parse-ok" and len(tokens) > 0 and got is not None) or (
        got is not None and bool(must_unknown or must_unclosed))
    return {"violations": viols, "counts": counts, "outcome": outcome, "nontrivial": nontrivial, "case": case}


# ---------------------------------------------------------------------------
# the enumerated spaces
# ---------------------------------------------------------------------------
def spaces(tier: str) -> list[dict[str, Any]]:
    sp: list[dict[str, Any]] = []

    def seq(env: str, menu: str, lengths: range, decor: str = "plain", entry: str = "string") -> None:
        for n in lengths:
            sp.append({"kind": "seq", "env": env, "menu": menu, "len": n, "decor": decor, "entry": entry})

    def mut(env: str, skel: str, devs: int, menu: str, lengths: tuple[int, ...] = (7, 8)) -> None:
        sp.append({"kind": "mut", "env": env, "skel": skel, "lens": list(lengths), "devs": devs, "menu": menu})

    def gen(env: str, n: int, d: int, level: str) -> None:
        sp.append({"kind": "gen", "env": env, "n": n, "d": d, "level": level})

    def pair(base: dict[str, Any], only_differing: bool) -> None:
        """The same (template name, source) analysed in BOTH environments within one process, in
        both orders (default->extra on the plain text, extra->default on the text plus a
        trailing newline, so the two orders share no source text); all three clauses on each
        of the four results.  ``only_differing``: only sources with a tag name on which the
        two tag registers differ."""
        sp.append({"kind": "pair", "env": "both", "base": base, "only_differing": only_differing})

    if tier == "quick":
        # default environment
        seq("default", "A19", range(0, 5))
        seq("default", "M10", range(5, 6))
        seq("default", "A28", range(1, 4))
        seq("default", "A19", range(1, 4), "text")
        seq("default", "A19", range(1, 4), "wc")
        mut("default", "if-for-case", 0, "A19")
        mut("default", "if-for", 1, "A19")
        mut("default", "if-for", 2, "D4", (7,))
        seq("default", "A19", range(0, 3), entry="loader")
        seq("default", "A19", range(0, 3), entry="loader-async")
        gen("default", 2, 2, "full")
        # extra environment
        seq("extra", "A28", range(0, 5))
        seq("extra", "M10x", range(5, 6))
        seq("extra", "M10y", range(5, 6))
        seq("extra", "A28", range(1, 3), "text")
        seq("extra", "A28", range(1, 3), "wc")
        mut("extra", "if-for-block-translate", 0, "A28")
        mut("extra", "if-for-block-translate", 1, "D12x", (7,))
        mut("extra", "if-block", 1, "D12x", (8,))
        mut("extra", "block-translate", 1, "D12x", (8,))
        mut("extra", "if-block", 2, "D4x", (7,))
        mut("extra", "block-translate", 2, "D4x")
        seq("extra", "A28", range(0, 3), entry="loader")
        seq("extra", "A28", range(0, 3), entry="loader-async")
        gen("extra", 2, 2, "full")
        # cross-environment histories
        for n in range(1, 4):
            pair({"kind": "seq", "env": "extra", "menu": "A28", "len": n, "decor": "plain"}, True)
        for n in range(0, 3):
            pair({"kind": "seq", "env": "extra", "menu": "A19", "len": n, "decor": "plain"}, False)
        pair({"kind": "mut", "env": "extra", "skel": "if-for-block-translate", "lens": [7, 8], "devs": 0,
              "menu": "A28"}, True)
        pair({"kind": "gen", "env": "extra", "n": 2, "d": 2, "level": "full"}, True)
    else:
        seq("default", "A19", range(0, 6))
        seq("default", "M10", range(6, 7))
        seq("default", "A28", range(1, 5))
        seq("default", "A19", range(1, 5), "text")
        seq("default", "A19", range(1, 5), "wc")
        mut("default", "all5", 0, "A19")
        mut("default", "all5", 1, "A19")
        mut("default", "if-for-case", 2, "D6")
        seq("default", "A19", range(0, 4), entry="loader")
        seq("default", "A19", range(0, 4), entry="loader-async")
        gen("default", 3, 3, "core")
        gen("default", 2, 2, "full")
        seq("extra", "A28", range(0, 6))
        seq("extra", "M10x", range(6, 7))
        seq("extra", "M10y", range(6, 7))
        seq("extra", "A28", range(1, 4), "text")
        seq("extra", "A28", range(1, 4), "wc")
        mut("extra", "x7", 0, "A28")
        mut("extra", "x7", 1, "D12x")
        mut("extra", "if-for-block-translate", 2, "D6x")
        seq("extra", "A28", range(0, 4), entry="loader")
        seq("extra", "A28", range(0, 4), entry="loader-async")
        gen("extra", 3, 3, "core")
        gen("extra", 2, 2, "full")
        for n in range(1, 5):
            pair({"kind": "seq", "env": "extra", "menu": "A28", "len": n, "decor": "plain"}, True)
        for n in range(0, 4):
            pair({"kind": "seq", "env": "extra", "menu": "A19", "len": n, "decor": "plain"}, False)
        pair({"kind": "mut", "env": "extra", "skel": "x7", "lens": [7, 8], "devs": 0, "menu": "A28"}, True)
        pair({"kind": "mut", "env": "extra", "skel": "if-for-block-translate", "lens": [7], "devs": 1,
              "menu": "D12x"}, True)
        pair({"kind": "gen", "env": "extra", "n": 2, "d": 2, "level": "full"}, True)
    return sp


def space_size(s: dict[str, Any]) -> int:
    """Number of work units of a space (sequences, skeletons or programs)."""
    if s["kind"] == "pair":
        return space_size(s["base"])
    if s["kind"] == "seq":
        return len(M.MENUS[s["menu"]]) ** s["len"]
    if s["kind"] == "mut":
        return len(M.skeletons(s["skel"], tuple(s["lens"])))
    from mc.gen import programs as G

    return G.count(s["n"], s["d"], level=s["level"], extra=(s["env"] == "extra"))


def unit_cost(s: dict[str, Any]) -> int:
    """Cases per work unit (for balancing shards)."""
    if s["kind"] == "pair":
        return 4 * unit_cost(s["base"])
    if s["kind"] != "mut":
        return 4 if s["kind"] == "gen" else 1
    k = len(M.MENUS[s["menu"]])
    n = max(s["lens"])
    return {0: 1, 1: n * k, 2: (n * (n - 1) // 2) * k * k}[s["devs"]]


PAIR_NAME = "pair"
PAIR_ORDERS = (("default", "extra", ""), ("extra", "default", "\n"))


def registers_differ(names: tuple[str, ...]) -> bool:
    """Some tag name of the source is registered / an end tag / an inner tag of a registered
    block in one of the two environments but not in the other."""
    fd, fx = get_env("default")[1], get_env("extra")[1]
    for n in set(names):
        for a, b in ((fd.registered, fx.registered), (fd.end_of_registered, fx.end_of_registered),
                     (fd.inner_of_registered, fx.inner_of_registered)):
            if (n in a) != (n in b):
                return True
    return False


_REPLAYS = [0]


def evaluate_pair(source: str, names: Optional[tuple[str, ...]], name: str = PAIR_NAME) -> list[dict[str, Any]]:
    """Four evaluations: both environments, both orders, same template name within an order."""
    for label in ENV_LABELS:  # both environments exist before the first analysis of the pair
        get_env(label)
    out = []
    for first, second, suffix in PAIR_ORDERS:
        src = source + suffix
        out.append(evaluate(first, src, names, "string", name, f"first-of-pair:{first}-then-{second}"))
        out.append(evaluate(second, src, names, "string", name, f"second-of-pair:{first}-then-{second}"))
    for r in out:
        r["case"].update({"pair": True, "pair_source": source})  # shared with the violations' case
        r["outcome"] = "pair|" + r["outcome"]
    return out


def iter_cases(s: dict[str, Any], lo: int, hi: int) -> Any:
    """Yield (source, names or None) for work units lo..hi of a space."""
    if s["kind"] == "pair":
        for source, names in iter_cases(s["base"], lo, hi):
            if s["only_differing"]:
                nm = names if names is not None else tuple(n for n, _ in M.scan_tags(source))
                if not registers_differ(nm):
                    continue
            yield source, names
    elif s["kind"] == "seq":
        for names in M.seqs_range(M.MENUS[s["menu"]], s["len"], lo, hi):
            yield M.render(names, s["decor"]), names
    elif s["kind"] == "mut":
        sk = M.skeletons(s["skel"], tuple(s["lens"]))
        menu = M.MENUS[s["menu"]]
        for skel in sk[lo:hi]:
            for names in M.mutants(skel, s["devs"], menu):
                yield M.render(names), names
    else:
        from mc.gen import programs as G

        it = G.programs(s["n"], s["d"], level=s["level"], extra=(s["env"] == "extra"))
        for p in itertools.islice(it, lo, hi):
            yield p.source, None


class C21(Check):
    id = "C21"
    level = "exploration"
    title = "Tag analysis is total and raises no false alarms"
    rule = (
        "Every sequence of tag tokens up to the stated length over the stated menu (A19 = if elsif else endif "
        "unless endunless for break continue endfor case when endcase capture endcapture assign foo endfoo "
        "endassign; A28 = A19 + block endblock macro endmacro with endwith translate plural endtranslate), "
        "each token rendered as a tag with a well-formed expression (plain / text-separated / whitespace-control "
        "decorations); 7-8 token sequences as substitution mutants (0, 1, 2 deviations, replacement tokens from "
        "the stated menu) of every valid leafless skeleton of the stated block set; every program of the shared "
        "generator; each in the default and/or extra=True STRICT environment; the shortest sequences also "
        "through Environment.analyze_tags / analyze_tags_async over a dict loader. One evaluation = one "
        "(environment, entry point, source) triple run through the tag analysis and strict from_string. "
        "Non-trivial = the analysis returned and either the source has >= 1 tag and parses in strict mode "
        "(clause 2 premise holds) or the abstract sequence contains a definitely-unknown name or a "
        "definitely-unclosed registered block (clause 3 demands something); identity = (environment, entry point, source). "
        "Cross-environment pairs: the same (template name, source) is analysed in both environments within one "
        "process, default first on the plain text and extra first on the text plus a trailing newline; each of the "
        "four results is one evaluation judged by all three clauses."
    )
    assumptions = [
        "tag expressions do not influence tag analysis (one well-formed expression per tag name)",
        "behaviour on sequences longer than the enumerated lengths is only sampled by the <=2-deviation mutants "
        "of valid skeletons, not decided",
        "clause 3 'unknown' = name not in env.tags and not 'end'+name / documented inner tag of a registered "
        "block; an unregistered endX whose X is also present is excluded (pair may be reported under X alone); "
        "clause 3 'without an end tag' = more opening tags of a registered block than end tags following them "
        "(crossed-but-balanced blocks demand nothing)",
        "generator programs are checked against clauses 1 and 2 only",
    ]

    def bounds(self, tier: str) -> dict[str, Any]:
        out: dict[str, Any] = {}
        for s in spaces(tier):
            if s["kind"] == "pair":
                b = s["base"]
                what = (f"sequences over {b['menu']} length {b['len']}" if b["kind"] == "seq" else
                        f"skeletons {b['skel']} lengths {b['lens']} with exactly {b['devs']} substitutions from "
                        f"{b['menu']}" if b["kind"] == "mut" else
                        f"generator programs n<={b['n']} d<={b['d']} level={b['level']} (extra menus)")
                out[f"both environments in one process, both orders, same template name: {what}"
                    f"{' containing a tag name on which the tag registers differ' if s['only_differing'] else ''}"] = "all"
            elif s["kind"] == "seq":
                key = f"{s['env']}: all sequences over {s['menu']} ({s['decor']}, via {s['entry']})"
                out[key] = sorted(set(out.get(key, [])) | {s["len"]})
            elif s["kind"] == "mut":
                out[f"{s['env']}: skeletons {s['skel']} lengths {s['lens']}, exactly {s['devs']} substitutions "
                    f"from {s['menu']}"] = "all"
            else:
                out[f"{s['env']}: generator programs n<={s['n']} d<={s['d']} level={s['level']}"] = "all"
        res: dict[str, Any] = {k: (f"lengths {v[0]}..{v[-1]}" if isinstance(v, list) else v) for k, v in out.items()}
        used = sorted({s["menu"] for s in spaces(tier) if "menu" in s})
        res["menus"] = {m: " ".join(M.MENUS[m]) for m in used}
        res["skeleton block sets"] = {k: " ".join(v) for k, v in M.SKELETON_SETS.items()
                                      if any(s.get("skel") == k for s in spaces(tier))}
        return res

    def shards(self, tier: str) -> list[Any]:
        per = 30000 if tier == "quick" else 150000
        out: list[Any] = []
        for si, s in enumerate(spaces(tier)):
            total = space_size(s)
            step = max(1, per // unit_cost(s))
            for lo in range(0, total, step):
                out.append((si, lo, min(total, lo + step)))
        return out

    def run_shard(self, shard: Any, tier: str) -> Result:
        from mc.util import reset_memo

        reset_memo()
        si, lo, hi = shard
        s = spaces(tier)[si]
        label = s["env"]
        entry = s.get("entry", "string")
        res = Result()
        n_samples = 0
        for source, names in iter_cases(s, lo, hi):
            if s["kind"] == "pair":
                rs = evaluate_pair(source, names)
            else:
                rs = [evaluate(label, source, names, entry)]
            for i, r in enumerate(rs):
                sample = None
                if r["nontrivial"] and n_samples < 1 and len(source) > 30:
                    n_samples += 1
                    sample = {"env": r["case"]["env"], "source": r["case"]["source"], "outcome": r["outcome"]}
                ident = f"{label}\x00{entry}\x00{i}\x00{source}"
                res.case(nontrivial=ident if r["nontrivial"] else None, outcome=r["outcome"], sample=sample)
                for k, v in r["counts"].items():
                    res.count(k, v)
                for v in r["violations"]:
                    res.violation(v["signature"], v["what"], v["case"])
        res.count(f"cases:{s['kind']}:{label}", res.evaluations)
        return res

    def replay(self, case: Any) -> list[dict[str, Any]]:
        names = tuple(case["seq"]) if case.get("seq") is not None else None
        if case.get("pair"):
            out: list[dict[str, Any]] = []
            # history is the subject here: every replay uses a template name of its own so that the
            # two replays the runner compares start from the same (empty) history for that name
            _REPLAYS[0] += 1
            for r in evaluate_pair(case["pair_source"], names, f"{PAIR_NAME}-replay-{_REPLAYS[0]}"):
                print(f"  env={r['case']['env']} source={r['case']['source']!r} outcome={r['outcome']}")
                out.extend(r["violations"])
            return out
        r = evaluate(case["env"], case["source"], names, case.get("entry", "string"))
        print(f"  env={case['env']} entry={case.get('entry', 'string')} source={case['source']!r}\n  outcome={r['outcome']}")
        return list(r["violations"])


CHECK = C21()
