"""C07 — output and local-namespace limits bound what they measure.

Bounded exhaustive enumeration on the real implementation: every template of the corpus
(``mc.ref.c07_corpus``) x every data set is rendered once without limits, which gives U (UTF-8 bytes of
the output) and the list of namespace totals after each assign (peak S, measured by the harness,
``mc.ref.c07_meter``).  Then ``output_stream_limit`` is swept over every integer of [0, 2U] (all of them up
to 64, then U-2..U+2, 2U) and ``local_namespace_limit`` over {0, 1, S-1, S, S+1, 2S} and T-1, T for the
totals T at which an assign happened; each limit value is set on its own Environment subclass.

Oracle clauses (provenance):
  out-bounded      completed render (strict, lax; render, render_async) => len(out.encode()) <= L   [statement]
  out-raises       strict and U > L => OutputStreamLimitError                                        [statement]
  out-fits         strict and U <= L => result identical to the unlimited one                         [docs/environment.md
                   "maximum number of bytes that can be written to a template's output stream ... before an
                   OutputStreamLimitError"]; when the template writes into capture/ifchanged buffers and the
                   render aborts with OutputStreamLimitError the cell is excluded (docs are silent on whether
                   bytes written to such buffers count)
  ns-peak-bounded  completed render (strict, lax) => harness-measured peak of that render <= M        [statement]
  ns-fits          strict and S <= M => result identical to the unlimited one                         [docs "maximum
                   number of bytes (according to sys.getsizeof()) allowed in a template's local namespace"]
"""

from __future__ import annotations

from typing import Any
from typing import Optional

from mc.core import Check
from mc.core import Result
from mc.ref import c07_corpus as G
from mc.ref import c07_meter as meter

N_SHARDS = {"quick": 64, "thorough": 256}
ASYNC_AT = (-1, 0)  # quick tier: render_async is run at L = U-1, U (and M = S-1, S); thorough: everywhere

_ENVS: dict[tuple[str, str, Optional[int]], Any] = {}


def get_env(mode: str, limit: str, value: Optional[int]) -> Any:
    key = (mode, limit, value)
    env = _ENVS.get(key)
    if env is None:
        from mc.util import MODES
        from mc.util import make_env

        if len(_ENVS) > 3000:
            _ENVS.clear()
        limits = {} if value is None else {limit: value}
        env = _ENVS[key] = make_env(limits=limits, templates=G.PARTIALS, tolerance=MODES[mode])
    return env


def run(mode: str, limit: str, value: Optional[int], source: str, data: dict[str, Any], api: str,
        raised: Optional[list[Optional[str]]] = None) -> tuple[Any, list[int]]:
    """Parse and render on the real engine -> (Outcome, namespace totals after each assign)."""
    from mc import util as U

    env = get_env(mode, limit, value)
    d = meter.fresh(data)

    def go() -> Any:
        t = env.from_string(source)
        if api == "sync":
            return t.render(**d)
        return U.run_coro(t.render_async(**d))

    return meter.metered(lambda: U.outcome(go), raised)


def _show(o: Any) -> str:
    return repr(o.value) if o.ok else f"{o.error_class}"


def check_output_limit(source: str, data: dict[str, Any], base: Any, L: int, mode: str, api: str,
                       res: Optional[Result]) -> list[dict[str, Any]]:
    u = len(base.value.encode("utf-8"))
    o, _ = run(mode, "output_stream_limit", L, source, data, api)
    viols: list[dict[str, Any]] = []
    case = {"kind": "out", "source": source, "data": data, "limit": L, "mode": mode, "api": api}

    def bad(clause: str, what: str) -> None:
        viols.append({
            "signature": {"clause": clause, "limit": "output_stream_limit", "mode": mode, "api": api,
                          "got": "ok" if o.ok else o.error_class, "feature": "v==0" if L == 0 else "v>0"},
            "what": f"{source!r} data={data!r} output_stream_limit={L} ({mode}, {api}): unlimited output has {u} bytes; {what}",
            "case": case})

    label = f"out:{mode}:{'L<U' if L < u else 'L>=U'}:"
    if o.ok:
        n = len(o.value.encode("utf-8"))
        if n > L:
            bad("out-bounded", f"completed and returned {n} bytes: {o.value!r}")
        if mode == "strict":
            if u > L:
                bad("out-raises", f"completed with {o.value!r} instead of raising OutputStreamLimitError")
            elif o.value != base.value:
                bad("out-fits", f"rendered {o.value!r}, unlimited render gives {base.value!r}")
        label += "completed"
    else:
        if o.is_other_error:
            bad("out-raises" if u > L else "out-fits", f"raised non-Liquid {o.error_class} at {o.where}")
        elif mode == "strict":
            if u > L:
                if o.error_class != "OutputStreamLimitError":
                    bad("out-raises", f"raised {o.error_class} ({o[2]}) instead of OutputStreamLimitError")
            elif o.error_class == "OutputStreamLimitError" and G.uses_intermediate_buffer(source):
                if res is not None:
                    res.count("unspecified_excluded")
                    res.count("unspecified_buffered_bytes_counted_against_limit")
                label += "buffer-"
            else:
                bad("out-fits", f"raised {o.error_class} ({o[2]}) although the unlimited output fits")
        label += o.error_class
    if res is not None:
        nontrivial = u > 0
        res.case(nontrivial=["out", source, sorted(data.items()), L, mode, api] if nontrivial else None,
                 outcome=label + (":VIOLATION" if viols else ""),
                 sample={**case, "unlimited_bytes": u, "result": _show(o)}
                 if (nontrivial and L in (u - 1, u) and any(ord(c) > 127 for c in base.value) and len(res.samples) < 2) else None)
    return viols


def check_namespace_limit(source: str, data: dict[str, Any], base: Any, totals: list[int], M: int, mode: str,
                          api: str, res: Optional[Result]) -> list[dict[str, Any]]:
    s = max(totals, default=0)
    raised: list[Optional[str]] = []
    o, seen = run(mode, "local_namespace_limit", M, source, data, api, raised)
    peak = max(seen, default=0)
    viols: list[dict[str, Any]] = []
    case = {"kind": "ns", "source": source, "data": data, "limit": M, "mode": mode, "api": api}

    def bad(clause: str, what: str, feature: str) -> None:
        viols.append({
            "signature": {"clause": clause, "limit": "local_namespace_limit", "mode": mode, "api": api,
                          "got": "ok" if o.ok else o.error_class, "feature": feature},
            "what": f"{source!r} data={data!r} local_namespace_limit={M} ({mode}, {api}): unlimited peak is {s} "
                    f"(totals after each assign {totals[:8]}); {what}",
            "case": case})

    zero = "v==0" if M == 0 else "v>0"
    label = f"ns:{mode}:{'M<S' if M < s else 'M>=S'}:"
    if o.ok:
        if peak > M:
            if all(t <= M or r == "LocalNamespaceLimitError" for t, r in zip(seen, raised)):
                # only possible where the error does not abort the render (lax)
                feature = "every-over-limit-assign-raised:error-swallowed-and-binding-kept"
            else:
                feature = zero
            bad("ns-peak-bounded", f"completed with {o.value!r} having held {peak} > {M} (totals {seen[:8]}, "
                                   f"assign raised {raised[:8]})", feature)
        elif mode == "strict" and o.value != base.value:
            bad("ns-fits", f"rendered {o.value!r}, unlimited render gives {base.value!r}", zero)
        label += "completed"
    else:
        if o.is_other_error:
            bad("ns-fits" if s <= M else "ns-peak-bounded", f"raised non-Liquid {o.error_class} at {o.where}", zero)
        elif mode == "strict" and s <= M:
            bad("ns-fits", f"raised {o.error_class} ({o[2]}) although the unlimited peak fits", zero)
        label += o.error_class
    if res is not None:
        nontrivial = s > 0
        res.case(nontrivial=["ns", source, sorted(data.items()), M, mode, api] if nontrivial else None,
                 outcome=label + (":VIOLATION" if viols else ""),
                 sample={**case, "unlimited_peak": s, "totals": totals[:6], "result": _show(o)}
                 if (nontrivial and M == s - 1 and len(totals) > 2 and len(res.samples) < 3) else None)
        if "render" in source and len(set(seen)) > 1:
            res.count("ns_cases_with_assign_inside_rendered_partial")
    return viols


def apis_for(tier: str, v: int, pivot: int) -> tuple[str, ...]:
    if tier != "quick" or (v - pivot) in ASYNC_AT:
        return ("sync", "async")
    return ("sync",)


def check_template(source: str, data: dict[str, Any], tier: str, res: Optional[Result],
                   only: Optional[dict[str, Any]] = None) -> list[dict[str, Any]]:
    """All limit sweeps of one (template, data); ``only`` restricts to one recorded case (replay)."""
    base, totals = run("strict", "none", None, source, data, "sync")
    if not base.ok:
        if res is not None:
            res.count("unlimited_render_failed")
            res.case(outcome=f"unlimited:{base.error_class}")
        return [{"signature": {"clause": "harness", "got": base.error_class},
                 "what": f"{source!r} data={data!r}: the unlimited render failed with {base.error_class}: {base[2]}",
                 "case": {"kind": "base", "source": source, "data": data}}] if base.is_other_error else []
    u = len(base.value.encode("utf-8"))
    s = max(totals, default=0)
    viols: list[dict[str, Any]] = []
    if only is not None:
        if only["kind"] == "out":
            return check_output_limit(source, data, base, only["limit"], only["mode"], only["api"], None)
        if only["kind"] == "ns":
            return check_namespace_limit(source, data, base, totals, only["limit"], only["mode"], only["api"], None)
        return []
    if res is not None:
        res.count("templates_x_data")
        if any(ord(c) > 127 for c in base.value):
            res.count("templates_x_data_with_multibyte_output")
        if s > 0:
            res.count("templates_x_data_with_assign")
    for L in G.output_limits(u):
        for mode in (("strict", "lax") if (L <= u or tier != "quick") else ("strict",)):
            for api in apis_for(tier, L, u):
                viols += check_output_limit(source, data, base, L, mode, api, res)
    for M in G.namespace_limits(totals):
        for mode in ("strict", "lax"):
            for api in apis_for(tier, M, s):
                viols += check_namespace_limit(source, data, base, totals, M, mode, api, res)
    return viols


class C07(Check):
    id = "C07"
    level = "exploration"
    title = "Output and local-namespace limits bound what they measure"
    rule = (
        "Every template with <= 3 constructs over {1/2/3/4-byte text, \\r / \\r\\n / \\n\\r text, output, assign, cycle, include, include-for, "
        "render, render-for (partials capture, assign, use ifchanged and render a second partial), for, capture, "
        "ifchanged} x every data set is rendered unlimited (U bytes, namespace totals after each assign, peak S), "
        "then under every output_stream_limit in [0,2U] (all integers <= 64, then U-2..U+2, 2U) and every "
        "local_namespace_limit in {0,1,S-1,S,S+1,2S} u {T-1,T : T a total after an assign}, strict and lax mode, "
        "render() everywhere and render_async() at the critical values (everywhere in thorough). One evaluation = one "
        "limited render. Non-trivial = the unlimited render writes >= 1 byte (output sweep) / performs >= 1 assign "
        "(namespace sweep); distinct = distinct (clause family, source, data, limit value, mode, api)."
    )
    assumptions = [
        "limits are set as class attributes of a private Environment subclass (documented usage); one limit at a time",
        "namespace size is the documented measure: sum of sys.getsizeof over local values of the context and its "
        "parent_context ancestors, recomputed by the harness after every RenderContext.assign (wrapper; a canary "
        "render fails the run with 'harness binding lost' if the wrapper stops observing assigns)",
        "U <= L but OutputStreamLimitError in a template that writes into capture/ifchanged buffers is excluded as "
        "unspecified (docs do not say whether captured bytes count)",
        "every render receives newly created str objects for its data (sys.getsizeof of a shared non-ASCII str grows "
        "once its UTF-8 form is cached, e.g. by pickling), so the unlimited and the limited render measure alike",
        "warn mode is not run (same code path as lax plus warnings)",
    ]

    def bounds(self, tier: str) -> dict[str, Any]:
        return {
            "templates": len(G.corpus(tier)),
            "constructs_per_template": "<= 2 over the full menu (16 leaves, 4 blocks) and <= 3 over the reduced menu "
                                       "(6 leaves, 4 blocks)" if tier == "quick" else "<= 3 over the full menu",
            "data_sets": [k for k, _ in G.data_sets(tier)],
            "output_stream_limit": "every integer in [0, min(2U,64)] plus U-2..U+2 and 2U",
            "local_namespace_limit": "0, 1, S-1, S, S+1, 2S, and T-1, T for the first 12 distinct totals T",
            "modes": "strict everywhere; lax for every namespace limit and for output limits L <= U" if tier == "quick"
                     else "strict and lax everywhere",
            "apis": "render everywhere; render_async at U-1, U, S-1, S" if tier == "quick" else "render and render_async",
        }

    def shards(self, tier: str) -> list[Any]:
        k = N_SHARDS[tier]
        return [(j, k) for j in range(k)]

    def run_shard(self, shard: Any, tier: str) -> Result:
        from mc.util import reset_memo

        j, k = shard
        res = Result()
        reset_memo()
        meter.install()
        sources = G.corpus(tier)
        for source in sources[j::k]:
            for _, data in G.data_sets(tier):
                for v in check_template(source, data, tier, res):
                    res.violation(v["signature"], v["what"], v["case"])
        return res

    def replay(self, case: Any) -> list[dict[str, Any]]:
        meter.install()
        return check_template(case["source"], case["data"], "thorough", None, only=case)


CHECK = C07()
