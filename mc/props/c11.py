"""C11 — custom delimiters and environments are independent.

Part A (rewriting, exhaustive within a deviation bound): abstract templates (lists of
text / tag / output / comment / raw segments with whitespace-control flags) are printed
once with the default delimiters and once with every admissible delimiter 6-tuple
(tag start/end, output start/end, comment start/end) obtained from a base tuple by
changing at most two delimiters, each drawn from an alphabet of punctuation, letters
and regex metacharacters; an explicit non-collision predicate decides admissibility.
Oracle: render(rewrite(T), Environment(delims)) == render(T, default Environment).

Part B (independence, enumeration of operation histories in forked pristine processes):
histories of {parse+render with an explicit environment of configuration i, replace that
environment by a fresh one, re-render an earlier template, liquid.Template(...) with
configuration i} over configurations that differ exactly in the fields that key a
process-wide memo (delimiters, comment strings, template_comments, tolerance, a custom
filter of the same name, an extra tag).  Oracle: every observation equals the observation
of the same operation as the first operation of a fresh process.
"""

from __future__ import annotations

import itertools
import warnings
from typing import Any
from typing import Iterator
from typing import Optional

import liquid  # noqa: F401  (pre-imported so forked children do not pay for it)
from mc import util as U
from mc.core import Check
from mc.core import Result
from mc.props.c17 import _in_child

DEFAULT = ("{%", "%}", "{{", "}}", "{#", "#}")
ALPHABET = list("{}<>[]()$^*+?.|\\#@!~qZ%")
BASES = [
    DEFAULT,
    ("<%", "%>", "<<", ">>", "<#", "#>"),
    ("[[", "]]", "((", "))", "[*", "*]"),
    ("$", "^", "@", "~", "!?", "?!"),
    ("\\(", "\\)", "\\[", "\\]", "\\{", "\\}"),
]

# -- abstract templates ------------------------------------------------------------------
# segment kinds: ("text", s) ("tag", expr, lwc, rwc) ("out", expr, lwc, rwc) ("com", body, rwc) ("raw", body)
Seg = tuple


def T(*segs: Seg) -> list[Seg]:
    return list(segs)


def tag(e: str, l: str = "", r: str = "") -> Seg:
    return ("tag", e, l, r)


def out(e: str, l: str = "", r: str = "") -> Seg:
    return ("out", e, l, r)


TEMPLATES: list[list[Seg]] = [
    T(("text", "a")),
    T(out("x")),
    T(("text", "a "), out("x"), ("text", " b")),
    T(("text", "a  "), out("x", "-", "-"), ("text", "  b")),
    T(tag("if x"), ("text", "A"), tag("else"), ("text", "B"), tag("endif")),
    T(tag("if x", "-", "-"), ("text", " A "), tag("endif", "-", "-"), ("text", " e")),
    T(tag("for i in a"), out("i"), ("text", ","), tag("endfor")),
    T(tag("for i in a", "", "-"), ("text", "\n "), out("i", "", "-"), ("text", " \n"), tag("endfor")),
    T(tag("assign s = x"), out("s"), out("s")),
    T(tag("capture s"), ("text", "c"), out("x"), tag("endcapture"), out("s")),
    T(tag("unless x"), ("text", "U"), tag("endunless"), ("text", "t")),
    T(tag("case x"), tag("when 1"), ("text", "one"), tag("else"), ("text", "other"), tag("endcase")),
    T(tag("comment"), ("text", "hidden "), out("x"), tag("endcomment"), ("text", "v")),
    T(tag("raw"), ("text", "r "), tag("endraw"), ("text", "after")),
    T(("raw", " verbatim x "), ("text", "after")),
    T(("raw", " RAWOUT "), out("x")),
    T(("com", " note ", ""), ("text", "a"), ("com", " n2 ", "-"), ("text", "  b")),
    T(("text", "a  "), ("com", "c", ""), out("x")),
    T(tag("liquid assign s = x\necho s"), ("text", "z")),
    T(tag("# inline note"), ("text", "k")),
    T(tag("increment c"), tag("increment c"), out("c")),
    T(tag("cycle 1, 2"), tag("cycle 1, 2"), tag("cycle 1, 2")),
    T(tag("if x"), tag("for i in a"), out("i"), tag("endfor"), tag("endif"), ("text", "end")),
    T(out("x"), out("y.k"), out("a.size")),
    T(tag("echo x"), ("text", " "), tag("echo a.size")),
    T(("text", "line1\nline2\n"), tag("if x", "-"), ("text", "\n yes \n"), tag("endif", "", "-"), ("text", "\n tail")),
    T(tag("doc"), ("text", "documentation"), tag("enddoc"), ("text", "d")),
    T(("text", "a"), tag("ifchanged"), out("x"), tag("endifchanged"), tag("ifchanged"), out("x"), tag("endifchanged")),
    T(tag("tablerow i in a"), out("i"), tag("endtablerow")),
    T(tag("render 'p'"), tag("include 'p'")),
    # a liquid tag with a comment LINE: with template comments enabled the line-comment marker inside
    # {% liquid %} is the comment start string without its braces (anchor: "liquid tag derives its comment
    # marker from comment_start_string"), so it is rewritten together with the comment delimiters
    T(("liqc", ["assign s = x", "\x00 a note", "echo s", "\x00", "echo 'e'"]), ("text", "z"), ("com", " c ", "")),
    T(("text", "a "), ("liqc", ["\x00 only a note"]), ("com", "c", ""), out("x")),
]
RICH_TEMPLATES: list[list[Seg]] = [
    T(out("x | upcase")),
    T(out("x | append: 'k' | size")),
    T(tag("if x == 1 and a.size > 0"), ("text", "A"), tag("endif")),
    T(tag("for i in (1..3)"), out("i"), tag("endfor")),
    T(out("a[0]"), out("y['k']")),
    T(tag("assign s = a | join: ','"), out("s")),
    T(tag("if a contains 1"), ("text", "has"), tag("endif")),
]
DATA = [{"x": 1, "a": [1, 2, 3], "y": {"k": "v"}}, {"x": None, "a": [], "y": {}}, {"x": "str", "a": "s", "y": 5}]
PARTIALS_SRC = [out("x"), ("text", "p")]


def print_template(segs: list[Seg], d: tuple[str, ...]) -> str:
    ts, te, os_, oe, cs, ce = d
    buf = []
    for s in segs:
        k = s[0]
        if k == "text":
            buf.append(s[1])
        elif k == "tag":
            buf.append(f"{ts}{s[2]} {s[1]} {s[3]}{te}")
        elif k == "out":
            buf.append(f"{os_}{s[2]} {s[1]} {s[3]}{oe}")
        elif k == "com":
            buf.append(f"{cs}{s[1]}{s[2]}{ce}")
        elif k == "raw":
            buf.append(f"{ts} raw {te}{s[1]}{ts} endraw {te}")
        elif k == "liqc":
            marker = cs.replace("{", "")
            lines = "\n".join(ln.replace("\x00", marker) for ln in s[1])
            buf.append(f"{ts} liquid\n{lines}\n{te}")
    return "".join(buf)


def template_chars(segs: list[Seg]) -> set[str]:
    chars: set[str] = set()
    for s in segs:
        for part in s[1:]:
            if isinstance(part, list):
                for ln in part:
                    chars |= set(ln.replace("\x00", ""))
            else:
                chars |= set(part)
    return chars | set("raw end liquid")


def uses_comments(segs: list[Seg]) -> bool:
    return any(s[0] in ("com", "liqc") for s in segs)


# -- the non-collision predicate -------------------------------------------------------------
def admissible(d: tuple[str, ...], chars: set[str]) -> bool:
    if len(set(d)) != 6:
        return False
    for x in d:
        if not x or any(c in "-_ \t\n" or c.isspace() for c in x):
            return False
        if set(x) & chars:
            return False
    for i, x in enumerate(d):
        for j, y in enumerate(d):
            if i != j and x in y:
                return False
    starts, ends = (d[0], d[2], d[4]), (d[1], d[3], d[5])
    if any(s[-1].isalnum() for s in starts) or any(e[0].isalnum() for e in ends):
        return False
    # Where an end delimiter is directly followed by a start delimiter (the only place where two
    # delimiters touch in the printed templates) no other delimiter occurrence may appear.
    for e in ends:
        for s_ in starts:
            joined = e + s_
            for x in d:
                k = joined.find(x)
                while k != -1:
                    if not ((k == 0 and x == e) or (k == len(e) and x == s_)):
                        return False
                    k = joined.find(x, k + 1)
    return True


def options(maxlen: int) -> list[str]:
    out_: list[str] = []
    for n in range(1, maxlen + 1):
        out_ += ["".join(c) for c in itertools.product(ALPHABET, repeat=n)]
    return out_


def tuples(tier: str) -> Iterator[tuple[str, ...]]:
    """Base tuples, every single deviation (length <= 2; thorough <= 3) and every double
    deviation with one-character replacements (quick: from the default tuple only; thorough: from all 5 bases).
    (Two-character double deviations were planned for thorough: 8.5e8 cases, it never completed - dropped.)"""
    single = options(2 if tier == "quick" else 3)
    double = options(1)
    seen: set[tuple[str, ...]] = set()
    for base in BASES:
        if base not in seen:
            seen.add(base)
            yield base
        for i in range(6):
            for o in single:
                t = base[:i] + (o,) + base[i + 1 :]
                if t not in seen:
                    seen.add(t)
                    yield t
        if tier == "quick" and base is not DEFAULT:
            continue  # quick: double deviations from the default tuple only
        for i, j in itertools.combinations(range(6), 2):
            for o1 in double:
                for o2 in double:
                    t = list(base)
                    t[i], t[j] = o1, o2
                    tt = tuple(t)
                    if tt not in seen:
                        seen.add(tt)
                        yield tt


def make_env(d: tuple[str, ...], comments: bool, partial_src: Optional[str]) -> Any:
    kw: dict[str, Any] = dict(tag_start_string=d[0], tag_end_string=d[1], statement_start_string=d[2],
                              statement_end_string=d[3])
    if comments:
        kw.update(template_comments=True, comment_start_string=d[4], comment_end_string=d[5])
    return U.make_env(templates={"p": partial_src or ""}, **kw)


_REF: dict[tuple[str, bool], Any] = {}
_ENV: dict[tuple[tuple[str, ...], bool], Any] = {}


def reference(segs: list[Seg], comments: bool) -> Any:
    """Outputs of the ORIGINAL template (default delimiters), or None if it does not parse."""
    ref_src = print_template(segs, DEFAULT)
    key = (ref_src, comments)
    if key not in _REF:
        ref_env = make_env(DEFAULT, comments, print_template(PARTIALS_SRC, DEFAULT))
        ref_t = U.parse(ref_env, ref_src)
        _REF[key] = [U.render(ref_t.value, data).kind() for data in DATA] if ref_t.ok else None
    return _REF[key]


def target_env(d: tuple[str, ...], comments: bool) -> U.Outcome:
    key = (d, comments)
    if key not in _ENV:
        if len(_ENV) > 8:
            _ENV.clear()
        _ENV[key] = U.outcome(lambda: make_env(d, comments, print_template(PARTIALS_SRC, d)))
    return _ENV[key]


def rewrite_case(segs: list[Seg], d: tuple[str, ...], comments: bool) -> list[dict[str, Any]]:
    ref_src = print_template(segs, DEFAULT)
    src = print_template(segs, d)
    out_: list[dict[str, Any]] = []
    case = {"part": "A", "segments": [list(s) for s in segs], "delims": list(d), "comments": comments}
    with warnings.catch_warnings():
        warnings.simplefilter("ignore")
        wants = reference(segs, comments)
        if wants is None:
            return out_  # outside the domain: the original itself does not parse
        env_o = target_env(d, comments)
        if not env_o.ok:
            return [{"signature": {"clause": "environment-construction", "exc": env_o.error_class},
                     "what": f"Environment with delimiters {d} raised {env_o.error_class}: {env_o[2]}", "case": case}]
        t = U.parse(env_o.value, src)
        for data, want in zip(DATA, wants):
            got = U.render(t.value, data) if t.ok else t
            if got.kind() != want:
                which = [n for n, (a, b) in zip(("tag_start", "tag_end", "out_start", "out_end", "comment_start",
                                                 "comment_end"), zip(d, DEFAULT)) if a != b]
                kinds = sorted({s[0] for s in segs})
                out_.append({"signature": {"clause": "rewrite-same-output", "changed": which, "segment_kinds": kinds,
                                           "got": "ok" if got.ok else got.error_class},
                             "what": f"{src!r} with delimiters {d} -> {got.kind()!r}; original {ref_src!r} -> {want!r}",
                             "case": case})
                break
    return out_


# -- Part B ------------------------------------------------------------------------------------
def upcase2(val: object) -> str:
    return f"F2({val})"


class FooTag(liquid.Tag):  # type: ignore[misc]
    name = "foo"
    block = False

    def parse(self, stream: Any) -> Any:
        from liquid.builtin.content import ContentNode  # noqa: F401
        from liquid.ast import Node

        class FooNode(Node):
            def render_to_output(self, context: Any, buffer: Any) -> int:
                buffer.write("<FOO>")
                return 5

        tok = stream.current
        # consume the (possibly empty) expression token that follows a tag token
        return FooNode(tok)


CFGS: dict[str, dict[str, Any]] = {
    "c0": {},
    "c1": dict(tag_start_string="<%", tag_end_string="%>", statement_start_string="<<", statement_end_string=">>",
               template_comments=True, comment_start_string="<#", comment_end_string="#>"),
    "c2": dict(template_comments=True, tolerance=liquid.Mode.LAX),
    "c3": dict(_custom=True),
    "c4": dict(tag_start_string="<%", tag_end_string="%>", statement_start_string="<<", statement_end_string=">>",
               template_comments=True, comment_start_string="<!", comment_end_string="!>"),
    "c5": dict(tolerance=liquid.Mode.WARN, autoescape=True),
}
SOURCES = {
    "s0": "{% if x %}A{% endif %}{{ x | upcase }}{# c #}{% foo %}|{{ '<b>' }}",
    "s1": "<% if x %>A<% endif %><< x | upcase >><# c #><! d !>|{{ x }}",
    "s2": "{{ x }}{% nosuchtag %}{{ x | nosuchfilter }}",
}
BDATA = {"x": "v"}


def new_env(cid: str) -> Any:
    kw = dict(CFGS[cid])
    custom = kw.pop("_custom", False)
    env = liquid.Environment(**kw)
    if custom:
        env.add_filter("upcase", upcase2)
        env.add_tag(FooTag)
    return env


def observe(fn: Any) -> Any:
    with warnings.catch_warnings(record=True) as w:
        warnings.simplefilter("always")
        o = U.outcome(fn)
    return [list(o.kind()), len(w)]


class BRunner:
    def __init__(self) -> None:
        self.envs: dict[str, Any] = {}
        self.tpls: dict[tuple[str, str], Any] = {}

    def env(self, cid: str) -> Any:
        if cid not in self.envs:
            self.envs[cid] = new_env(cid)
        return self.envs[cid]

    def step(self, act: tuple[str, ...]) -> Any:
        op = act[0]
        if op == "NEW":
            self.envs[act[1]] = new_env(act[1])
            return ["new", 0]
        if op == "PR":
            _, cid, sid = act

            def f() -> str:
                t = self.env(cid).from_string(SOURCES[sid])
                self.tpls[(cid, sid)] = t
                return t.render(**BDATA)

            return observe(f)
        if op == "RR":
            _, cid, sid = act
            t = self.tpls.get((cid, sid))
            if t is None:
                return ["skip", 0]
            return observe(lambda: t.render(**BDATA))
        if op == "TPL":
            _, cid, sid = act
            kw = {k: v for k, v in CFGS[cid].items() if not k.startswith("_")}
            return observe(lambda: liquid.Template(SOURCES[sid], **kw).render(**BDATA))
        raise AssertionError(act)


def b_actions() -> list[tuple[str, ...]]:
    acts: list[tuple[str, ...]] = []
    for cid in CFGS:
        for sid in SOURCES:
            acts.append(("PR", cid, sid))
    for cid in ("c0", "c1", "c2", "c4", "c5"):
        for sid in SOURCES:
            acts.append(("TPL", cid, sid))
    for cid in ("c0", "c1", "c3"):
        acts.append(("NEW", cid))
    for cid in ("c0", "c1", "c3"):
        acts.append(("RR", cid, "s0" if cid != "c1" else "s1"))
    return acts


def run_b_sequence(histories: list[list[tuple[str, ...]]]) -> list[list[Any]]:
    out_ = []
    for h in histories:
        r = BRunner()
        out_.append([r.step(tuple(a)) for a in h])
    return out_


_PRISTINE: dict[tuple[str, ...], Any] = {}


def b_pristine(act: tuple[str, ...]) -> Any:
    if act not in _PRISTINE:
        _PRISTINE[act] = _in_child(lambda: run_b_sequence([[act]]))[0][0]
    return _PRISTINE[act]


def judge_b(hist: list[tuple[str, ...]], recs: list[Any]) -> list[dict[str, Any]]:
    viols = []
    for i, (act, rec) in enumerate(zip(hist, recs)):
        if act[0] in ("NEW",) or rec[0] == "skip":
            continue
        if act[0] == "RR":
            want = b_pristine(("PR",) + tuple(act[1:]))
        else:
            want = b_pristine(act)
        if rec != want:
            viols.append({
                "signature": {"clause": "environment-independence", "op": act[0], "cfg": act[1], "src": act[2],
                              "earlier_cfgs": sorted({a[1] for a in hist[:i]})},
                "what": f"{act} after {hist[:i]} observed {rec!r}; in a fresh process {want!r}",
                "case": {"part": "B", "history": [list(a) for a in hist[: i + 1]]}})
    return viols


class C11(Check):
    id = "C11"
    level = "model_checking"
    rule = (
        "A: 37 abstract templates (text/tag/output/comment/raw/doc/liquid/inline-comment segments with whitespace "
        "control) printed with every admissible delimiter 6-tuple within <=2 deviations of 5 base tuples (single "
        "deviations of length<=2 (thorough 3), double deviations of length 1 from the default tuple (thorough: from all bases)) over a 23-character alphabet "
        "of punctuation/letters/regex metacharacters; admissibility = explicit non-collision predicate incl. no shared "
        "character with the template. B: all histories of length<=3 (thorough 4) over 39 operations (parse+render, "
        "Template(), new environment, re-render) on 6 configurations, run in forked pristine processes. states = history "
        "prefixes (B), transitions = operations (B) + rewrite cases (A). Non-trivial = admissible non-default tuple / history length>=2."
    )
    assumptions = ["delimiters that share a character with the template text or contain '-', '_' or whitespace are outside the domain"]

    def bounds(self, tier: str) -> dict[str, Any]:
        return {"A": "<=2 deviations from 5 bases", "B_depth": 3 if tier == "quick" else 4}

    def shards(self, tier: str) -> list[Any]:
        sh: list[Any] = []
        n = 48 if tier == "quick" else 192
        for i in range(n):
            sh.append(("A", i, n))
        acts = b_actions()
        table = [(a, b_pristine(a)) for a in acts if a[0] in ("PR", "TPL")]
        for a in acts:
            sh.append(("B", a, table))
        return sh

    def run_shard(self, shard: Any, tier: str) -> Result:
        res = Result()
        if shard[0] == "A":
            self.run_a(shard[1], shard[2], tier, res)
        else:
            for a, o in shard[2]:
                _PRISTINE.setdefault(tuple(a), o)
            self.run_b(tuple(shard[1]), tier, res)
        return res

    def run_a(self, i: int, n: int, tier: str, res: Result) -> None:
        templates = TEMPLATES + RICH_TEMPLATES
        chars = [template_chars(t) | template_chars(PARTIALS_SRC) for t in templates]
        for k, d in enumerate(tuples(tier)):
            if k % n != i:
                continue
            for t, ch in zip(templates, chars):
                comments = uses_comments(t)
                if not admissible(d, ch):
                    res.count("inadmissible_tuple_template_pairs")
                    continue
                marker = d[4].replace("{", "")
                if any(sg[0] == "liqc" for sg in t) and (marker[:1].isalnum() or marker[:1] in "_" or d[1] in marker):
                    # inside {% liquid %} a line that starts with a word character is a tag name, so a comment
                    # marker starting with one collides with the template text; a marker that contains the tag
                    # end delimiter ("%{}" -> "%}") ends the tag.  Both are collisions (outside the stated
                    # domain); an empty marker is caught by the first test.
                    res.count("inadmissible_tuple_template_pairs")
                    continue
                if not comments and d[4:] != DEFAULT[4:]:
                    # comment delimiters are irrelevant to a template without comments unless comments are enabled
                    comments_on = True
                else:
                    comments_on = comments
                viols = rewrite_case(t, d, comments_on)
                res.transitions += 1
                res.case(nontrivial=[d, templates.index(t)] if d != DEFAULT else None,
                         outcome="A:viol" if viols else "A:ok",
                         sample={"delims": list(d), "source": print_template(t, d)} if k % 5000 == 0 else None)
                for v in viols:
                    res.violation(v["signature"], v["what"], v["case"])

    def run_b(self, first: tuple[str, ...], tier: str, res: Result) -> None:
        acts = b_actions()
        depth = 3 if tier == "quick" else 4
        hists: list[list[tuple[str, ...]]] = [[first]]
        for nn in range(1, depth):
            for rest in itertools.product(acts, repeat=nn):
                hists.append([first] + list(rest))
        all_recs = _in_child(lambda: run_b_sequence(hists))
        for hist, recs in zip(hists, all_recs):
            res.states += 1
            res.traces += 1
            res.transitions += len(hist)
            res.max_depth = max(res.max_depth, len(hist))
            viols = judge_b(hist, recs)
            res.case(nontrivial=hist if len(hist) >= 2 else None, outcome="B:viol" if viols else "B:ok",
                     sample={"history": [list(a) for a in hist], "observed": recs} if len(hist) == 3 and len(res.samples) < 1 else None)
            for v in viols:
                res.violation(v["signature"], v["what"], v["case"])
        res.fixpoint = False

    def replay(self, case: Any) -> list[dict[str, Any]]:
        if case["part"] == "A":
            return rewrite_case([tuple(s) for s in case["segments"]], tuple(case["delims"]), case["comments"])
        hist = [tuple(a) for a in case["history"]]
        recs = _in_child(lambda: run_b_sequence([hist]))[0]
        return judge_b(hist, recs)


CHECK = C11()
