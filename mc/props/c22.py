"""C22 — template loaders never read outside their search paths.

Bounded exhaustive enumeration on the real loaders against a real directory tree
(``mc/ref/c22_sandbox.py``: search directories, decoys outside them, symlinks in and out,
a throw-away package; every regular file has a unique body).

Enumerated: every template name that is a "/"-join of <= 4 (quick: <= 3, plus length 4
over the eight path-significant components) components of the alphabet
``c22_sandbox.ALPHABET``, plus the SEPARATOR LAYER: every join of <= 3 (thorough: <= 4) of the
path-significant components (and the absolute prefix spelled with backslashes) where each
separator is "/" or "\\" and at least one is "\\" (Windows spelling: `..\\secret`, `sub\\..\\..\\x`,
`\\abs\\path`), plus the LOOK-ALIKE LAYER: the same with Unicode compatibility characters that
NFKC-normalise to path syntax (U+2025 '..', U+FF0E / U+FE52 '.', U+FF0F '/', U+FF3C '\\') used as
components and as separators,  x  every loader configuration

  fs   FileSystemLoader         reject_symlinks {off,on} x search path {root | root,root2 | symlink->root} x ext {None,".liquid"}
  cfs  CachingFileSystemLoader  reject_symlinks {off,on} x search path {root | root,root2}                 x ext {None,".liquid"}
  pkg  PackageLoader            package_path {templates | templates,templates2} (ext ".liquid")

  x  API {get_template, get_template_async, get_source, get_source_async}; for cfs the
  get_template APIs are called twice on a fresh loader (cold cache, then warm cache).

Oracle (one verdict per call):
  * TemplateNotFoundError                        -> allowed   (statement)
  * any other exception class                    -> violation "other-exception" (statement:
                                                    "raises TemplateNotFoundError and no other exception")
  * a template / source whose text is the body of real file F:
      F really inside a search directory         -> allowed   (statement)
      reject_symlinks off (or PackageLoader, which has no such option), the requested name is
      textually relative and below the search directory (under every reading of the name:
      as given, backslash as separator, NFKC-normalised, percent-decoded), and F is what some path below the
      search directory points to               -> allowed   (statement: links may be followed
                                                    unless rejection is enabled; loader docstring)
      otherwise                                  -> violation "read-outside"
  * docs/loading_templates.md ("If a file called index.html exists in ./templates, we could render
    it", default extension, "list of paths to search in order"): a *plain* name (ordinary components
    only) of a regular file that really is inside a search directory must be found, with the
    content of the first search directory that has it -> else violation "docs-found".
    This also keeps the check from passing vacuously on a loader that finds nothing.
"""

from __future__ import annotations

import asyncio
import importlib
import itertools
import os
import sys
import warnings
from typing import Any
from typing import Iterator
from typing import Optional

import liquid
from liquid.exceptions import TemplateNotFoundError
from mc import util as U
from mc.core import Check
from mc.core import Result
from mc.ref import c22_sandbox as S

APIS = ("get_template", "get_template_async", "get_source", "get_source_async")
EXTS: tuple[Optional[str], ...] = (None, ".liquid")
PKG_EXT = ".liquid"


def configs() -> list[dict[str, Any]]:
    out: list[dict[str, Any]] = []
    for fam, pathsets in (("fs", ("1", "2", "L")), ("cfs", ("1", "2"))):
        for reject in (False, True):
            for paths in pathsets:
                for ext in EXTS:
                    out.append({"family": fam, "reject": reject, "paths": paths, "ext": ext})
    for paths in ("1", "2"):
        out.append({"family": "pkg", "reject": False, "paths": paths, "ext": PKG_EXT})
    return out


CONFIGS = configs()


# ---------------------------------------------------------------------------------------
# names
# ---------------------------------------------------------------------------------------
Name = tuple[tuple[str, ...], Optional[str]]  # (tokens, separators or None = all "/")


def token_tuples(tier: str) -> Iterator[Name]:
    full = 3 if tier == "quick" else 4
    for n in range(full + 1):
        for toks in itertools.product(S.ALPHABET, repeat=n):
            yield toks, None
    if tier == "quick":
        for toks in itertools.product(S.SIGNIFICANT, repeat=4):
            yield toks, None
    # separator layer: "\\" as THE separator, and every mix of "/" and "\\"
    for n in range(1, full + 1):
        for toks in itertools.product(S.SEP_COMPONENTS, repeat=n):
            for seps in itertools.product(S.SEPARATORS, repeat=n - 1):
                yield toks, "".join(seps)
    # look-alike layer: compatibility characters that NFKC-normalise to "..", ".", "/" and "\\",
    # as components and as separators
    for n in range(1, full + 1):
        comps = S.LOOKALIKE_COMPONENTS if n < full else S.LOOKALIKE_CORE
        for toks in itertools.product(comps, repeat=n):
            for seps in itertools.product(S.LOOKALIKE_SEPARATORS, repeat=n - 1):
                yield toks, "".join(seps)


_NAMES: dict[str, list[Name]] = {}


def all_names(tier: str) -> list[Name]:
    """Distinct symbolic names (distinct joins), simplest first."""
    got = _NAMES.get(tier)
    if got is None:
        seen: set[str] = set()
        got = []
        for toks, seps in token_tuples(tier):
            if seps is not None and all(c == "/" for c in seps):
                seps = None
            sym = S.join_sym(toks, seps)
            if sym in seen:
                continue
            seen.add(sym)
            got.append((toks, seps))
        _NAMES[tier] = got
    return got


# ---------------------------------------------------------------------------------------
# world: sandbox + one environment per configuration
# ---------------------------------------------------------------------------------------
_SEQ = itertools.count()


class World:
    def __init__(self) -> None:
        self.pkg_name = f"c22pkg_{os.getpid()}_{next(_SEQ)}"
        self.sb = S.Sandbox(self.pkg_name)
        sys.path.insert(0, self.sb.pkgs)
        importlib.invalidate_caches()
        self._envs: dict[str, Any] = {}

    def close(self) -> None:
        try:
            sys.path.remove(self.sb.pkgs)
        except ValueError:
            pass
        for m in [m for m in sys.modules if m == self.pkg_name or m.startswith(self.pkg_name + ".")]:
            sys.modules.pop(m, None)
        importlib.invalidate_caches()
        self.sb.close()

    def bases(self, cfg: dict[str, Any]) -> list[str]:
        sb = self.sb
        if cfg["family"] == "pkg":
            return [sb.tpl] if cfg["paths"] == "1" else [sb.tpl, sb.tpl2]
        return {"1": [sb.root], "2": [sb.root, sb.root2], "L": [sb.rootlink]}[cfg["paths"]]

    def make_loader(self, cfg: dict[str, Any]) -> Any:
        fam = cfg["family"]
        if fam == "pkg":
            pp: Any = "templates" if cfg["paths"] == "1" else ["templates", "templates2"]
            return liquid.PackageLoader(self.pkg_name, package_path=pp, ext=cfg["ext"])
        bases = self.bases(cfg)
        sp: Any = bases[0] if len(bases) == 1 else bases
        cls = liquid.FileSystemLoader if fam == "fs" else liquid.CachingFileSystemLoader
        return cls(sp, ext=cfg["ext"], reject_symlinks=cfg["reject"])

    def env(self, cfg: dict[str, Any], *, fresh_loader: bool) -> Any:
        key = repr(sorted(cfg.items()))
        env = self._envs.get(key)
        if env is None:
            env = self._envs[key] = liquid.Environment(loader=self.make_loader(cfg))
        elif fresh_loader:
            env.loader = self.make_loader(cfg)
        return env


# ---------------------------------------------------------------------------------------
# one call
# ---------------------------------------------------------------------------------------
def call(env: Any, api: str, name: str) -> tuple[Any, ...]:
    """("notfound",) | ("source", text) | ("error", class name, message, where)."""
    try:
        if api == "get_template":
            text = env.get_template(name).render()
        elif api == "get_template_async":
            text = U.run_coro_loop(env.get_template_async(name)).render()
        elif api == "get_source":
            text = env.loader.get_source(env, name).text
        elif api == "get_source_async":
            text = U.run_coro_loop(env.loader.get_source_async(env, name)).text
        else:
            raise AssertionError(api)
    except Exception as e:  # noqa: BLE001  classification is the point
        return _classify_exc(e)
    return ("source", text)


LONG_ = S.LONG


def judge(world: World, cfg: dict[str, Any], toks: list[str], api: str, phase: str,
          got: tuple[Any, ...], expected: Optional[str], seps: Optional[str] = None,
          ) -> tuple[str, Optional[dict[str, Any]]]:
    """(outcome label, violation or None)."""
    fam = cfg["family"]
    feature = S.name_feature(toks, seps)
    sym = S.join_sym(toks, seps)
    desc = (f"{fam} loader reject_symlinks={cfg['reject']} search_path={cfg['paths']} ext={cfg['ext']!r} "
            f"{api}({sym!r}) [{phase}]")
    case = {"toks": list(toks), "seps": seps, "cfg": cfg, "api": api, "phase": phase}

    def viol(sig: dict[str, Any], what: str) -> dict[str, Any]:
        sig = {"family": fam, "feature": feature, **sig}
        return {"signature": sig, "what": f"{desc} -> {what}", "case": case}

    if got[0] == "error":
        return (f"{fam}:ERROR:{got[1]}:{feature}",
                viol({"clause": "other-exception", "exc": got[1], "where": got[3]},
                     f"{got[1]}: {got[2]} (expected TemplateNotFoundError)"))
    if got[0] == "notfound":
        if expected is not None:
            return (f"{fam}:MISSED:{feature}",
                    viol({"clause": "docs-found", "reject_symlinks": cfg["reject"], "paths": cfg["paths"]},
                         f"TemplateNotFoundError, but the file exists inside the search path ({expected!r})"))
        return f"{fam}:notfound", None  # (per-feature tallies are kept in the counters)
    text = got[1]
    bases = world.bases(cfg)
    follow_ok = fam == "pkg" or not cfg["reject"]
    name = world.sb.name(toks, seps)
    ok, label, real = world.sb.judge_source(text, name, bases, follow_links_ok=follow_ok, exts=(None, cfg["ext"]))
    if not ok:
        rel = os.path.relpath(real, world.sb.sb) if real else None
        return (f"{fam}:ESCAPED:{feature}",
                viol({"clause": "read-outside" if real else "unknown-source", "reject_symlinks": cfg["reject"]},
                     f"returned the content of {rel!r}, which is not inside the search path: {text[:60]!r}"))
    if expected is not None and text != expected:
        return (f"{fam}:WRONGFILE:{feature}",
                viol({"clause": "docs-found", "reject_symlinks": cfg["reject"], "paths": cfg["paths"]},
                     f"returned {text[:60]!r}, docs promise the first search directory's file {expected[:60]!r}"))
    return f"{fam}:{label}:{feature}", None


def probe_nontrivial(world: World, cfg: dict[str, Any], readings: list[str]) -> Optional[str]:
    """Does the name reach anything?  (OS view, independent of the library.)

    Non-trivial iff the name (with or without the default extension), joined to a search
    directory by the OS rules under some reading of it (c22_sandbox.readings: as given, backslash as
    separator, NFKC-normalised, percent-decoded), denotes an existing file-system entry -- inside or outside --
    or probing it makes the OS fail (NUL byte, component longer than NAME_MAX).
    """
    for b, e, rd in itertools.product(world.bases(cfg), ("", cfg["ext"] or ""), readings):
        try:
            os.lstat(os.path.join(b, rd + e))
            return "exists"
        except ValueError:
            return "os-valueerror"
        except (FileNotFoundError, NotADirectoryError):
            continue
        except OSError:
            return "os-error"
    return None


def ops(cfg: dict[str, Any]) -> list[tuple[str, tuple[str, ...]]]:
    """(api, phases): phases ("cold","warm") = two consecutive calls on one fresh loader."""
    if cfg["family"] == "cfs":
        return [("get_template", ("cold", "warm")), ("get_template_async", ("cold", "warm")),
                ("get_source", ("cold",)), ("get_source_async", ("cold",))]
    return [(a, ("cold",)) for a in APIS]


def _classify_exc(e: BaseException) -> tuple[Any, ...]:
    if isinstance(e, TemplateNotFoundError):
        return ("notfound",)
    return ("error", type(e).__name__, str(e).replace(LONG_, "<LONG300>")[:160], U.innermost_repo_frame(e))


async def acall(env: Any, api: str, name: str) -> tuple[Any, ...]:
    """Async twin of ``call`` (awaited inside a batch; same classification)."""
    try:
        if api == "get_template_async":
            text = (await env.get_template_async(name)).render()
        elif api == "get_source_async":
            text = (await env.loader.get_source_async(env, name)).text
        else:
            raise AssertionError(api)
    except Exception as e:  # noqa: BLE001  classification is the point
        return _classify_exc(e)
    return ("source", text)


def run_name(world: World, toks: tuple[str, ...], res: Optional[Result], seps: Optional[str] = None) -> list[dict[str, Any]]:
    """Every configuration x API x phase for one name.

    Synchronous calls run one by one.  The asynchronous calls of all configurations are
    awaited in ONE event-loop run (asyncio.gather on the real loop with its real default
    executor): they use distinct loader objects (FileSystemLoader / PackageLoader keep no
    state), so batching changes the cost, not the results; cold -> warm stays sequential
    inside its own coroutine.
    """
    viols: list[dict[str, Any]] = []
    name = world.sb.name(toks, seps)
    tl = list(toks)
    feature = S.name_feature(tl, seps)
    rds = S.readings(name)
    done: list[tuple[dict[str, Any], str, str, tuple[Any, ...]]] = []
    pending: list[Any] = []

    async def seq(env: Any, cfg: dict[str, Any], api: str, phases: tuple[str, ...]) -> list[Any]:
        return [(cfg, api, ph, await acall(env, api, name)) for ph in phases]

    for cfg in CONFIGS:
        caching = cfg["family"] == "cfs"
        for api, phases in ops(cfg):
            if api.endswith("_async"):
                continue
            env = world.env(cfg, fresh_loader=caching)
            for phase in phases:
                done.append((cfg, api, phase, call(env, api, name)))
        env = world.env(cfg, fresh_loader=caching)  # the loader the async calls of this cfg will see
        for api, phases in ops(cfg):
            if api.endswith("_async"):
                pending.append(seq(env, cfg, api, phases))

    async def batch() -> list[Any]:
        return await asyncio.gather(*pending)

    for group in U.run_coro_loop(batch()):
        done.extend(group)

    memo: dict[int, tuple[Optional[str], Optional[str]]] = {}
    for cfg, api, phase, got in done:
        k = id(cfg)
        if k not in memo:
            memo[k] = (probe_nontrivial(world, cfg, rds), world.sb.expected_plain(tl, world.bases(cfg), cfg["ext"]) if seps is None else None)
        nt, expected = memo[k]
        label, v = judge(world, cfg, tl, api, phase, got, expected, seps)
        if v is not None:
            viols.append(v)
        if res is not None:
            ident = None
            if nt is not None or got[0] != "notfound":
                ident = [tl, seps, cfg["family"], cfg["reject"], cfg["paths"], cfg["ext"], api, phase]
            res.case(nontrivial=ident, outcome=label,
                     sample={"name_tokens": tl, "separators": seps or "/", "cfg": cfg, "api": api, "phase": phase,
                             "result": got[0] if got[0] != "source" else got[1][:50]}
                     if (ident is not None and got[0] == "source") else None)
            if got[0] == "notfound":
                res.count(f"notfound[{feature}]")
            if v is not None:
                res.violation(v["signature"], v["what"], v["case"])
    return viols


# ---------------------------------------------------------------------------------------
class C22(Check):
    id = "C22"
    level = "exploration"
    title = "Template loaders never read outside their search paths"
    rule = ("every '/'-join (and, for the path-significant components, every '\\\\'- and mixed-separator join) of <= k components of a 21-symbol alphabet (path separators, '.', '..', absolute "
            "prefix of a decoy directory, NUL, newline, unicode, percent-encoding, drive prefix, 300-char "
            "component, file / directory / symlink names of the sandbox) x every loader configuration "
            "(FileSystemLoader / CachingFileSystemLoader cold+warm / PackageLoader; reject_symlinks; 1 or 2 "
            "search paths or a symlinked one; ext) x {get_template, get_template_async, get_source, "
            "get_source_async}, executed against a real directory tree with decoys and symlinks; one case = one "
            "loader call.  Non-trivial: the name (with or without ext) joined to a search directory denotes an "
            "existing file-system entry (inside or outside) or makes the OS probe fail (NUL / ENAMETOOLONG), or "
            "the call returned anything but TemplateNotFoundError; identity = (name tokens, config, api, phase).")
    assumptions = [
        "POSIX file system with symlinks; NAME_MAX < 300; sandbox under tempfile.gettempdir()",
        "template bodies are markup-free, so render() of a loaded template equals its source text",
        "oracle for reject_symlinks=False / PackageLoader permits following a symlink found below the search "
        "directory (documented default), but not absolute names or '..' escapes",
        "docs-found clause only for names made of ordinary components (a, a.liquid, sub, b, secret, link_in)",
    ]

    def n_shards(self, tier: str) -> int:
        return 64 if tier == "quick" else 256

    def bounds(self, tier: str) -> dict[str, Any]:
        return {
            "alphabet": [t if t.isprintable() else repr(t) for t in S.ALPHABET],
            "components": "<= 3 over the full alphabet + exactly 4 over " + repr(S.SIGNIFICANT)
            if tier == "quick" else "<= 4 over the full alphabet",
            "separator_layer": f"<= {3 if tier == 'quick' else 4} components of {S.SEP_COMPONENTS!r}, each separator "
                               "'/' or '\\\\', at least one '\\\\'",
            "lookalike_layer": f"<= {2 if tier == 'quick' else 3} components of {S.LOOKALIKE_COMPONENTS!r} and exactly "
                               f"{3 if tier == 'quick' else 4} of {S.LOOKALIKE_CORE!r}, each separator one of "
                               f"{S.LOOKALIKE_SEPARATORS!r} (U+2025, U+FF0E, U+FE52, U+FF0F, U+FF3C: NFKC -> '..', '.', '/', '\\\\')",
            "distinct_names": len(all_names(tier)),
            "loader_configs": len(CONFIGS),
            "calls_per_name": sum(len(ph) for cfg in CONFIGS for _a, ph in ops(cfg)),
        }

    def shards(self, tier: str) -> list[Any]:
        n = self.n_shards(tier)
        return [(i, n) for i in range(n)]

    def run_shard(self, shard: Any, tier: str) -> Result:
        i, n = shard
        res = Result()
        warnings.simplefilter("ignore", RuntimeWarning)
        names = all_names(tier)
        world = World()
        try:
            for toks, seps in names[i::n]:  # strided: neighbouring names have similar cost
                run_name(world, toks, res, seps)
        finally:
            world.close()
        return res

    def replay(self, case: Any) -> list[dict[str, Any]]:
        world = World()
        try:
            cfg = case["cfg"]
            toks = list(case["toks"])
            seps = case.get("seps")
            name = world.sb.name(toks, seps)
            expected = world.sb.expected_plain(toks, world.bases(cfg), cfg["ext"]) if seps is None else None
            env = world.env(cfg, fresh_loader=False)
            out: list[dict[str, Any]] = []
            phases = ("cold", "warm") if case.get("phase") == "warm" else ("cold",)
            for phase in phases:
                got = call(env, case["api"], name)
                print(f"  {cfg['family']} {case['api']}({name!r}) [{phase}] -> {got!r}".replace(LONG_, "<LONG300>")[:400])
                _label, v = judge(world, cfg, toks, case["api"], phase, got, expected, seps)
                if v is not None and phase == case.get("phase", "cold"):
                    out.append(v)
            return out
        finally:
            world.close()


CHECK = C22()
