"""C13 -- loops visit exactly the documented items.

Bounded exhaustive enumeration of loop programs (abstract dicts, see ``mc/ref/c13_model.py``)
printed as Liquid source and rendered by the real engine, synchronously and asynchronously;
the output must equal what the reference model (plain Python loops) prescribes.

Parts (every part is enumerated completely inside its bound):

slice      one ``for`` loop: collection kind x length x limit x offset x argument form
           (literal / variable / string literal / string variable) x reversed x else.
interrupt  ``break`` / ``continue`` guarded by ``forloop.index == k`` at every position of the
           body, in single loops, in either loop of a 2-deep nest and in a ``for`` inside a
           ``tablerow`` cell.
cont       sequences of 2-3 loops with the same identifier and iterable sharing
           ``offset: continue`` (plus loops over another iterable in between), and an
           ``offset: continue`` loop re-executed by an enclosing loop.
nest       nesting depth 2 and 3 with every helper incl. ``forloop.parentloop`` chains,
           ``for`` > ``tablerow`` > ``for`` and ``tablerow`` > ``for``.
tablerow   one ``tablerow``: kind x length x cols (absent, 1..len+1) x limit x offset x form,
           every ``tablerowloop`` helper.
blank      a ``for`` (with / without ``else``) whose body and/or else block write nothing
           (empty, whitespace, assign, unconditional break / continue), alone or next to text
           inside chains of other block tags (if / unless / else / elsif / case / capture / for):
           the else block must still render exactly when no item is visited.
freecols   one ``tablerow`` with a ``cols`` value the docs are silent on (0, negative, nil,
           non-numeric / numeric string, float, bool, huge, undefined; literal and variable):
           no layout is prescribed, only that items, rendered rows/cells and every helper agree.
"""

from __future__ import annotations

import itertools
from typing import Any
from typing import Iterator
from typing import Optional

from mc.core import Check
from mc.core import Result
from mc.ref import c13_model as M
from mc.ref.c13_model import HUGE

FORMS = ("lit", "var", "strlit", "strvar")
PARTS = ("slice", "interrupt", "cont", "nest", "tablerow", "blank", "freecols")
SHARDS_PER_PART = {"slice": 72, "interrupt": 6, "cont": 24, "nest": 10, "tablerow": 24, "blank": 12, "freecols": 4}


def maxlen(tier: str) -> int:
    return 4 if tier == "quick" else 8


# ---------------------------------------------------------------------------
# value menus
# ---------------------------------------------------------------------------
def lim_values(n: int) -> list[Optional[int]]:
    return [None, -HUGE] + list(range(-3, n + 4)) + [HUGE]


def off_values(n: int) -> list[Any]:
    return [None, "continue", "'continue'", -HUGE] + list(range(-3, n + 4)) + [HUGE]


# (limit, offset, reversed) -- small menu used where the slice is not the point
SLICES: list[tuple[Optional[int], Optional[int], bool]] = [
    (None, None, False), (2, 1, False), (None, None, True), (3, None, True), (None, 1, False), (0, None, False),
    (None, 9, False), (1, None, False),
]

SLICE_KINDS: list[tuple[str, bool]] = [
    ("array", False), ("hash", False), ("range_lit", False), ("range_var", False), ("range_asg", False),
    ("string", True), ("string", False),
]


def prog(nodes: list[Any], string_sequences: bool = False) -> dict[str, Any]:
    return {"flags": {"string_sequences": string_sequences}, "nodes": nodes}


# ---------------------------------------------------------------------------
# part: slice
# ---------------------------------------------------------------------------
def slice_groups(tier: str) -> list[Any]:
    out = []
    for (kind, ss), n, rev, els, lf, of in itertools.product(
            SLICE_KINDS, range(maxlen(tier) + 1), (False, True), (False, True), FORMS, FORMS):
        out.append(("slice", kind, ss, n, rev, els, lf, of))
    return out


def slice_cases(g: Any) -> Iterator[dict[str, Any]]:
    _, kind, ss, n, rev, els, lf, of = g
    c = M.coll(kind, n)
    fields = list(M.FOR_FIELDS) + (["name"] if kind in ("array", "hash", "string", "range_asg") else [])
    body = [M.text("("), M.item("i", c), M.text(":"), M.helpers("forloop", fields), M.text(")")]
    for lim in lim_values(n):
        if lim is None and lf != "lit":
            continue  # the form only exists when a value is given
        for off in off_values(n):
            if (off is None or isinstance(off, str)) and of != "lit":
                continue
            o = off if (off is None or isinstance(off, str)) else M.arg(off, of)
            yield prog([M.for_("i", c, body, limit=M.arg(lim, lf), offset=o, rev=rev,
                               else_=[M.text("E")] if els else None)], ss)


# ---------------------------------------------------------------------------
# part: interrupt
# ---------------------------------------------------------------------------
def _slice_kw(s: tuple[Optional[int], Optional[int], bool], form: str = "lit") -> dict[str, Any]:
    return {"limit": M.arg(s[0], form), "offset": M.arg(s[1], form), "rev": s[2]}


def interrupt_groups(tier: str) -> list[Any]:
    out: list[Any] = []
    top = maxlen(tier)
    for kind, n, si, els in itertools.product(("array", "range_lit", "hash"), range(top + 1), range(len(SLICES)),
                                              (False, True)):
        out.append(("interrupt", "single", kind, n, si, els))
    ntop = 3 if tier == "quick" else 4
    for shape, n_out, n_in, si in itertools.product(("for-for", "tablerow-for"), range(1, ntop + 1),
                                                    range(ntop + 1), (0, 1, 2, 3)):
        out.append(("interrupt", shape, n_out, n_in, si))
    return out


def interrupt_cases(g: Any) -> Iterator[dict[str, Any]]:
    if g[1] == "single":
        _, _, kind, n, si, els = g
        c = M.coll(kind, n)
        for t, k, pos in itertools.product(("brk", "cnt"), range(1, n + 2), (0, 1, 2)):
            fields = M.FOR_FIELDS_BREAK if t == "brk" else M.FOR_FIELDS
            parts: list[Any] = [M.text("["), M.item("i", c), M.text(":"), M.helpers("forloop", fields), M.text("]")]
            at = {0: 1, 1: 2, 2: 4}[pos]
            body = parts[:at] + [{"t": t, "at": k}] + parts[at:]
            yield prog([M.for_("i", c, body, else_=[M.text("E")] if els else None, **_slice_kw(SLICES[si]))])
        return
    _, shape, n_out, n_in, si = g
    cb, ca = M.coll("array", n_out, "b"), M.coll("range_lit", n_in, "a")
    for t, k, place in itertools.product(("brk", "cnt"), range(1, max(n_out, n_in) + 2), ("pre", "inner", "post")):
        if shape == "tablerow-for" and place != "inner":
            continue  # break/continue directly inside a tablerow block: not documented -> not generated
        intr = {"t": t, "at": k}
        inner_fields = M.FOR_FIELDS_BREAK if (t == "brk" and place == "inner") else M.FOR_FIELDS
        inner_body: list[Any] = [M.text("["), M.item("i", ca)]
        if place == "inner":
            inner_body.append(intr)
        inner_body += [M.text(":"), M.helpers("forloop", inner_fields), M.text("]")]
        inner = M.for_("i", ca, inner_body, else_=[M.text("E")], **_slice_kw(SLICES[si]))
        if shape == "for-for":
            outer_fields = M.FOR_FIELDS_BREAK if (t == "brk" and place != "inner") else M.FOR_FIELDS
            ob: list[Any] = [M.text("("), M.item("o", cb), M.text(":"), M.helpers("forloop", outer_fields)]
            if place == "pre":
                ob.append(intr)
            ob.append(inner)
            if place == "post":
                ob.append(intr)
            ob += [M.text("~"), M.helpers("forloop", ["index"]), M.text(")")]
            yield prog([M.for_("o", cb, ob, else_=[M.text("F")])])
        else:
            for cols in (None, 1, 2):
                tb = [M.item("o", cb), M.text(":"), inner, M.text("~"), M.helpers("tablerowloop", ["index", "col", "row"])]
                yield prog([M.tablerow("o", cb, tb, cols=M.arg(cols))])


# ---------------------------------------------------------------------------
# part: cont (offset: continue)
# ---------------------------------------------------------------------------
CONT_KINDS: list[tuple[str, bool]] = [("array", False), ("range_lit", False), ("hash", False), ("string", True),
                                      ("range_asg", False)]


def cont_groups(tier: str) -> list[Any]:
    out: list[Any] = []
    for (kind, ss), n, rev1, lf in itertools.product(CONT_KINDS, range(maxlen(tier) + 1), (False, True),
                                                     ("lit", "var")):
        out.append(("cont", "seq", kind, ss, n, rev1, lf))
    for (kind, ss), n, m in itertools.product(CONT_KINDS, range(maxlen(tier) + 1), (1, 2, 3)):
        out.append(("cont", "dyn", kind, ss, n, m))
    return out


def _cont_body(c: dict[str, Any]) -> list[Any]:
    return [M.item("i", c), M.text(":"), M.helpers("forloop", ["index", "rindex0", "length"]), M.text(",")]


def cont_cases(g: Any, res: Optional[Result] = None) -> Iterator[dict[str, Any]]:
    def excluded(n: int) -> None:
        if res is not None:
            res.count("unspecified_excluded", n)

    if g[1] == "seq":
        _, _, kind, ss, n, rev1, lf = g
        c = M.coll(kind, n)
        other = M.coll("array", 3, "b")
        body = _cont_body(c)
        E = [M.text("E")]
        # second loops: (node, remembered position still documented afterwards?)
        seconds: list[tuple[Optional[dict[str, Any]], bool]] = []
        for lim2, rev2 in itertools.product([None, -1] + list(range(0, n + 2)), (False, True)):
            seconds.append((M.for_("i", c, body, limit=M.arg(lim2, "var"), offset="continue", rev=rev2, else_=E), True))
        seconds.append((M.for_("i", c, body, offset="'continue'", else_=E), True))
        seconds.append((M.for_("i", c, body, limit=M.arg(1), offset=M.arg(1), else_=E), True))
        seconds.append((M.for_("i", other, _cont_body(other), limit=M.arg(1), else_=E), True))
        # a negative limit at a non-negative start visits nothing: the loop "left off" where it started
        seconds.append((M.for_("i", c, body, limit=M.arg(-1), offset=M.arg(2), else_=E), True))
        # after a negative *offset* the reference implementation (from + items kept) and the literal reading
        # of the docs (index after the last visited item) disagree -> successors are not decided here
        seconds.append((M.for_("i", c, body, limit=M.arg(2), offset=M.arg(-1), else_=E), False))
        thirds = [M.for_("i", c, body, offset="continue", else_=E),
                  M.for_("i", c, body, limit=M.arg(1, "strvar"), offset="continue", rev=True, else_=E)]
        sep = M.text("|")
        for off1 in [None, "continue"] + list(range(0, n + 2)) + [HUGE]:
            o1 = off1 if (off1 is None or isinstance(off1, str)) else M.arg(off1, lf)
            for lim1 in [None, -2] + list(range(0, n + 2)) + [HUGE]:
                if lim1 is None and (off1 is None or isinstance(off1, str)) and lf != "lit":
                    continue  # no argument carries a form: already covered by the "lit" group
                first = M.for_("i", c, body, limit=M.arg(lim1, lf), offset=o1, rev=rev1, else_=E)
                for second, documented in seconds:
                    if not documented:
                        # "where a previous loop left off" is not decided after a negative offset
                        excluded(len(thirds))
                        yield prog([first, sep, second], ss)
                        continue
                    for third in thirds:
                        yield prog([first, sep, second, sep, third], ss)
                # a loop with another identifier over the same iterable in between: the docs say
                # "same iterable", the reference keys on identifier+iterable -> not decided here
                excluded(len(thirds))
        return
    _, _, kind, ss, n, m = g
    c = M.coll(kind, n)
    outer_c = M.coll("range_lit", m, "o")
    for k, L, rev in itertools.product([None] + list(range(0, n + 1)), range(0, n + 2), (False, True)):
        inner = M.for_("i", c, _cont_body(c), limit=M.arg(L, "var"), offset="continue", rev=rev, else_=[M.text("E")])
        nodes: list[Any] = []
        if k is not None:
            nodes += [M.for_("i", c, _cont_body(c), limit=M.arg(k)), M.text("|")]
        nodes.append(M.for_("o", outer_c, [M.item("o", outer_c), M.text("("), inner, M.text(")")]))
        nodes += [M.text("|"), M.for_("i", c, _cont_body(c), offset="continue", else_=[M.text("E")])]
        yield prog(nodes, ss)


# ---------------------------------------------------------------------------
# part: nest
# ---------------------------------------------------------------------------
def nest_groups(tier: str) -> list[Any]:
    out: list[Any] = []
    d2 = 3 if tier == "quick" else 5
    d3 = 2 if tier == "quick" else 3
    ns3 = 4 if tier == "quick" else 6
    for n_o, s_o in itertools.product(range(d2 + 1), range(len(SLICES))):
        out.append(("nest", "d2", n_o, s_o, d2))
    for n1, s1, n2, s2 in itertools.product(range(d3 + 1), range(ns3), range(d3 + 1), range(ns3)):
        out.append(("nest", "d3", n1, s1, n2, s2, d3, ns3))
    for n_o, n_t in itertools.product(range(d3 + 2), range(d3 + 2)):
        out.append(("nest", "mixed", n_o, n_t, d3 + 1))
    return out


def nest_cases(g: Any) -> Iterator[dict[str, Any]]:
    F = M.FOR_FIELDS
    if g[1] == "d2":
        _, _, n_o, s_o, top = g
        cb = M.coll("array", n_o, "b")
        for kind, n_i, s_i, els, form in itertools.product(("array", "range_lit", "hash"), range(top + 1),
                                                           range(len(SLICES)), (False, True), ("lit", "var")):
            ca = M.coll(kind, n_i, "a")
            inner = M.for_("i", ca, [M.text("["), M.item("i", ca), M.text(":"), M.helpers("forloop", F), M.text("^"),
                                     M.helpers("forloop", F, up=1), M.text("]")],
                           else_=[M.text("E")] if els else None, **_slice_kw(SLICES[s_i], form))
            ob = [M.text("("), M.item("o", cb), M.text(":"), M.helpers("forloop", F), inner, M.text("~"),
                  M.helpers("forloop", ["index", "rindex", "length"]), M.text(")")]
            yield prog([M.for_("o", cb, ob, else_=[M.text("F")], **_slice_kw(SLICES[s_o], form))])
        return
    if g[1] == "d3":
        _, _, n1, s1, n2, s2, top, ns3 = g
        c1, c2 = M.coll("array", n1, "b"), M.coll("range_lit", n2, "c")
        for n3, s3 in itertools.product(range(top + 1), range(ns3)):
            c3 = M.coll("array", n3, "a")
            l3 = M.for_("i", c3, [M.text("["), M.item("i", c3), M.text(":"), M.helpers("forloop", ["index", "length", "last"]),
                                  M.text("^"), M.helpers("forloop", ["index", "rindex", "first"], up=1), M.text("^"),
                                  M.helpers("forloop", ["index", "rindex0", "last", "length"], up=2), M.text("]")],
                        else_=[M.text("E")], **_slice_kw(SLICES[s3]))
            l2 = M.for_("m", c2, [M.text("@"), M.item("m", c2), M.text(":"), M.helpers("forloop", ["index", "length"]),
                                  M.text("^"), M.helpers("forloop", ["index", "length"], up=1), l3, M.text("~"),
                                  M.helpers("forloop", ["index"]), M.text("$")],
                        else_=[M.text("G")], **_slice_kw(SLICES[s2], "var"))
            l1 = M.for_("o", c1, [M.text("("), M.item("o", c1), l2, M.text("~"), M.helpers("forloop", ["index", "last"]),
                                  M.text(")")], else_=[M.text("F")], **_slice_kw(SLICES[s1]))
            yield prog([l1])
        return
    _, _, n_o, n_t, top = g
    co, ct = M.coll("array", n_o, "b"), M.coll("range_lit", n_t, "c")
    for cols, n_i, s_i, lim_t in itertools.product((None, 1, 2, 3), range(top + 1), (0, 1, 2, 3), (None, 2)):
        ci = M.coll("array", n_i, "a")
        # for > tablerow > for: parentloop of the inner for is the enclosing *for* loop
        inner = M.for_("i", ci, [M.text("["), M.item("i", ci), M.text(":"), M.helpers("forloop", ["index", "length"]),
                                 M.text("^"), M.helpers("forloop", ["index", "length", "last"], up=1), M.text("#"),
                                 M.helpers("tablerowloop", ["index", "col", "row", "col_last"]), M.text("]")],
                       else_=[M.text("E")], **_slice_kw(SLICES[s_i]))
        tr = M.tablerow("t", ct, [M.item("t", ct), M.text(":"), M.helpers("forloop", ["index", "rindex"]), inner,
                                  M.text("~"), M.helpers("tablerowloop", M.TR_FIELDS)],
                        cols=M.arg(cols), limit=M.arg(lim_t))
        yield prog([M.for_("o", co, [M.text("("), M.item("o", co), tr, M.text("~"), M.helpers("forloop", ["index"]),
                                     M.text(")")], else_=[M.text("F")])])
        if n_o == 0:
            # tablerow > for (no enclosing for loop: parentloop is not printed)
            inner2 = M.for_("i", ci, [M.text("["), M.item("i", ci), M.text(":"), M.helpers("forloop", M.FOR_FIELDS),
                                      M.text("#"), M.helpers("tablerowloop", ["index", "col", "row"]), M.text("]")],
                            else_=[M.text("E")], **_slice_kw(SLICES[s_i]))
            yield prog([M.tablerow("t", ct, [M.item("t", ct), inner2, M.text("~"), M.helpers("tablerowloop", M.TR_FIELDS)],
                                   cols=M.arg(cols), limit=M.arg(lim_t))])


# ---------------------------------------------------------------------------
# part: tablerow
# ---------------------------------------------------------------------------
TR_KINDS: list[tuple[str, bool]] = [("array", False), ("range_lit", False), ("hash", False), ("string", True),
                                    ("range_var", False)]


def tablerow_groups(tier: str) -> list[Any]:
    out: list[Any] = []
    for (kind, ss), n in itertools.product(TR_KINDS, range(maxlen(tier) + 1)):
        for cols in [None] + list(range(1, n + 2)):
            for cf in (("lit",) if cols is None else ("lit", "var")):
                for form in ("lit", "var", "strvar"):
                    out.append(("tablerow", kind, ss, n, cols, cf, form))
    return out


def tablerow_cases(g: Any) -> Iterator[dict[str, Any]]:
    _, kind, ss, n, cols, cf, form = g
    c = M.coll(kind, n)
    body = [M.item("i", c), M.text(":"), M.helpers("tablerowloop", M.TR_FIELDS)]
    for lim in lim_values(n):
        for off in [None, -HUGE] + list(range(-3, n + 4)) + [HUGE]:
            if lim is None and off is None and form != "lit":
                continue  # no argument carries the form: covered by the "lit" group
            yield prog([M.tablerow("i", c, body, cols=M.arg(cols, cf), limit=M.arg(lim, form),
                                   offset=M.arg(off, form))], ss)


# ---------------------------------------------------------------------------
# part: blank -- loops that write nothing themselves, alone inside other block tags
# ---------------------------------------------------------------------------
WRAPPERS = ("if", "unless", "ifelse", "elsif", "case", "caseelse", "capture", "for")

# (kind, string_sequences, n, limit, offset, reversed): loops that visit nothing in every documented
# way, and a few that do visit items
BLANK_LOOPS: list[tuple[str, bool, int, Optional[int], Optional[int], bool]] = [
    ("array", False, 0, None, None, False), ("hash", False, 0, None, None, False),
    ("string", True, 0, None, None, False), ("range_lit", False, 0, None, None, True),
    ("array", False, 3, 0, None, False), ("array", False, 3, -2, None, False), ("array", False, 3, None, 3, False),
    ("array", False, 3, None, HUGE, False), ("hash", False, 2, 1, 5, True), ("range_lit", False, 2, 0, 1, False),
    ("array", False, 3, None, None, False), ("array", False, 3, 1, 2, False), ("hash", False, 2, None, None, False),
    ("range_lit", False, 2, None, None, True),
]


def _blank_bodies(c: dict[str, Any]) -> list[list[Any]]:
    return [[], [M.text(" ")], [M.text("\n  ")], [{"t": "cnt", "at": None}], [{"t": "brk", "at": None}],
            [M.silent("{% assign z = 1 %}")], [M.text(" "), M.silent("{% assign z = i %}"), {"t": "cnt", "at": None}],
            [M.item("i", c)]]


BLANK_ELSES: list[Optional[list[Any]]] = [None, [], [M.text(" ")], [M.text("E")], [M.silent("{% assign z = 2 %}"), M.text("E")]]


def blank_groups(tier: str) -> list[Any]:
    core = ("if", "case", "capture", "for")  # one per family, used for the deepest level of the tier
    chains: list[tuple[str, ...]] = [()] + [(w,) for w in WRAPPERS]
    if tier == "quick":
        chains += list(itertools.product(core, repeat=2))
    else:
        chains += list(itertools.product(WRAPPERS, repeat=2)) + list(itertools.product(core, repeat=3))
    return [("blank", chain, li) for chain in chains for li in range(len(BLANK_LOOPS))]


def blank_cases(g: Any) -> Iterator[dict[str, Any]]:
    _, chain, li = g
    kind, ss, n, lim, off, rev = BLANK_LOOPS[li]
    c = M.coll(kind, n)
    for body, els, sibling in itertools.product(_blank_bodies(c), BLANK_ELSES, (False, True)):
        if sibling and len(chain) == 0:
            continue
        form = "var" if len(chain) % 2 else "lit"
        loop = M.for_("i", c, body, limit=M.arg(lim, form), offset=M.arg(off, form), rev=rev, else_=els)
        inner: list[Any] = [M.text("["), loop, M.text("]")] if sibling else [loop]
        for d, w in enumerate(reversed(chain)):
            if w == "for":
                wc = M.coll("range_lit", 2, f"w{d}")
                inner = [M.for_(f"w{d}", wc, inner)]
            else:
                inner = [M.wrap(w, inner)]
        yield prog(inner, ss)


# ---------------------------------------------------------------------------
# part: freecols -- cols values the docs are silent on: layout-free consistency only
# ---------------------------------------------------------------------------
def cols_arg(v: Any, f: str) -> dict[str, Any]:
    return {"v": v, "f": f}


FREE_COLS: list[dict[str, Any]] = (
    [cols_arg(v, "lit") for v in (0, -1, -3, None, "x", "", "2", "0", "-1", HUGE, -HUGE)]
    + [cols_arg(v, "var") for v in (0, -1, -3, None, "x", "", "2", "0", "-1", 2.5, 0.5, -1.5, HUGE, -HUGE, True, False)]
    + [cols_arg(0, "missing")]
)


def freecols_groups(tier: str) -> list[Any]:
    return [("freecols", kind, n) for kind in ("array", "range_lit", "hash") for n in range(maxlen(tier) + 1)]


def freecols_cases(g: Any) -> Iterator[dict[str, Any]]:
    _, kind, n = g
    c = M.coll(kind, n)
    for ca, (lim, off, _rev) in itertools.product(FREE_COLS, SLICES[:2] + SLICES[4:]):
        yield prog([M.tablerow("i", c, M.free_body("i", c), cols=ca, limit=M.arg(lim, "var"), offset=M.arg(off))])


GROUPS = {"blank": blank_groups, "freecols": freecols_groups, "slice": slice_groups, "interrupt": interrupt_groups, "cont": cont_groups, "nest": nest_groups,
          "tablerow": tablerow_groups}


def cases_of(g: Any, res: Optional[Result] = None) -> Iterator[dict[str, Any]]:
    part = g[0]
    if part == "slice":
        return slice_cases(g)
    if part == "interrupt":
        return interrupt_cases(g)
    if part == "cont":
        return cont_cases(g, res)
    if part == "nest":
        return nest_cases(g)
    if part == "tablerow":
        return tablerow_cases(g)
    if part == "blank":
        return blank_cases(g)
    if part == "freecols":
        return freecols_cases(g)
    raise AssertionError(part)


# ---------------------------------------------------------------------------
# execution on the real engine
# ---------------------------------------------------------------------------
_ENVS: dict[bool, Any] = {}
_PARSED: dict[tuple[bool, str], Any] = {}


def get_env(string_sequences: bool) -> Any:
    env = _ENVS.get(string_sequences)
    if env is None:
        from mc.util import make_env

        env = make_env(flags={"string_sequences": string_sequences})
        _ENVS[string_sequences] = env
    return env


def fresh_engine() -> None:
    from mc.util import reset_memo

    _ENVS.clear()
    _PARSED.clear()
    reset_memo()


def run_real(p: dict[str, Any], modes: tuple[str, ...] = ("sync", "async")) -> tuple[str, dict[str, Any], dict[str, Any]]:
    """-> (source, data, {mode: Outcome})."""
    from mc import util as U

    src, data = M.to_source(p)
    ss = bool(p["flags"].get("string_sequences"))
    # Variable-form arguments give the same source for many data sets: parse it once per shard
    # (parsing is deterministic; a bound template is meant to be rendered repeatedly).
    parsed = _PARSED.get((ss, src))
    if parsed is None:
        if len(_PARSED) > 4000:
            _PARSED.clear()
        parsed = _PARSED[(ss, src)] = U.parse(get_env(ss), src)
    outs: dict[str, Any] = {}
    for mode in modes:
        if not parsed.ok:
            outs[mode] = parsed
        elif mode == "sync":
            outs[mode] = U.render(parsed.value, data)
        else:
            outs[mode] = U.render_async(parsed.value, data)
    return src, data, outs


def wants_of(p: dict[str, Any]) -> list[str]:
    wants = [M.expected(p, 0)[0]]
    if M.has_default_string(p):
        w1 = M.expected(p, 1)[0]
        if w1 != wants[0]:
            wants.append(w1)
    return wants


def agrees(p: dict[str, Any], mode: str) -> bool:
    _, _, outs = run_real(p, (mode,))
    o = outs[mode]
    return bool(o.ok) and any(M.matches(w, o.value) for w in wants_of(p))


def without_else(p: dict[str, Any]) -> dict[str, Any]:
    def walk(ns: list[Any]) -> list[Any]:
        out = []
        for n in ns:
            if n["t"] in ("for", "tablerow"):
                n = dict(n)
                n["body"] = walk(n["body"])
                if n.get("else") is not None:
                    n["else"] = None
            elif n["t"] == "wrap":
                n = dict(n)
                n["body"] = walk(n["body"])
            out.append(n)
        return out

    return {"flags": p["flags"], "nodes": walk(p["nodes"])}


def name_clause(p: dict[str, Any], mode: str) -> str:
    """Which oracle clause a wrong output violates (decided by re-rendering reduced programs)."""
    bare = M.strip_helpers(p)
    if agrees(bare, mode):
        return "helpers"
    has_tr = any(lp["t"] == "tablerow" for lp in M.loops_of(p))
    has_else = any(lp.get("else") is not None for lp in M.loops_of(p))
    if has_else and agrees(without_else(bare), mode):
        return "else-block"
    return "tablerow-structure-or-items" if has_tr else "visited-items"


def check_free(p: dict[str, Any], part: str, res: Optional[Result] = None) -> list[dict[str, Any]]:
    """One tablerow whose ``cols`` value the docs are silent on: layout-free consistency only."""
    src, data, outs = run_real(p)
    (node,) = p["nodes"]
    feats = M.features(p)
    per_mode: dict[str, list[tuple[str, str]]] = {}
    stats: Any = {}
    for mode, o in outs.items():
        if not o.ok:
            per_mode[mode] = [("no-error:" + str(o.error_class) + (":" + str(o.where) if o.is_other_error else ""),
                               f"{'Liquid error' if o.is_liquid_error else 'non-Liquid exception'} {o.error_class}: {o[2]}")]
            stats = stats or M.check_free_tablerow(p, "")[1]
        else:
            per_mode[mode], stats = M.check_free_tablerow(p, o.value)
    if res is not None:
        kept = stats["kept"]
        bad_modes = {m for m, b in per_mode.items() if b}
        for mode in outs:
            res.case(nontrivial=[src, sorted(data.items(), key=lambda kv: kv[0]), mode] if kept > 0 else None,
                     outcome=f"{part}:kept={min(kept, 9)}:rows={min(stats['rows'], 9)}" + (":VIOLATION" if mode in bad_modes else ""),
                     sample={"template": src, "data": data, "mode": mode, "output": outs[mode].value if outs[mode].ok else
                             outs[mode].error_class} if (kept > 1 and len(res.samples) < 1) else None)
        res.count("programs", 1)
        res.count("loops_executed_in_model", 1)
        res.count("items_visited_in_model", kept)
        res.count("unspecified_excluded", 1)
        res.count("unspecified_layout_for_undocumented_cols_value", 1)
    viols = []
    clauses = sorted({c for b in per_mode.values() for c, _ in b})
    for clause in clauses:
        hit = sorted(m for m, b in per_mode.items() if any(c == clause for c, _ in b))
        msg = next(msg for c, msg in per_mode[hit[0]] if c == clause)
        modes = "both" if len(hit) == len(outs) else hit[0]
        sig = {"part": part, "tag": "tablerow", "kind": node["coll"]["kind"], "feature": "+".join(feats) or "plain",
               "mode": modes, "cols": M.cols_number_class(node["cols"]), "clause": ("tablerow-consistency:" + clause) if not clause.startswith("no-error") else "no-error"}
        if clause.startswith("no-error"):
            sig["exc"] = clause.split(":")[1]
        o = outs[hit[0]]
        what = (f"{src!r} data={data!r} ({modes}) rendered {o.value if o.ok else o.error_class!r}: {msg} "
                f"(helpers must be consistent with the rendered rows/cells and the visited items for every cols value)")
        viols.append({"signature": sig, "what": what[:1500], "case": {"prog": p, "part": part}})
    return viols


def is_free(p: dict[str, Any]) -> bool:
    ns = p["nodes"]
    return len(ns) == 1 and ns[0]["t"] == "tablerow" and not M.cols_documented(ns[0]["cols"])


def check_prog(p: dict[str, Any], part: str, res: Optional[Result] = None) -> list[dict[str, Any]]:
    """Run one program in both modes; return violations; record coverage in ``res``."""
    if is_free(p):
        return check_free(p, part, res)
    src, data, outs = run_real(p)
    want0, stats = M.expected(p, 0)
    wants = [want0]
    two_readings = False
    if M.has_default_string(p):
        w1 = M.expected(p, 1)[0]
        if w1 != want0:
            wants.append(w1)
            two_readings = True
    bad: dict[str, tuple[str, str]] = {}
    for mode, o in outs.items():
        if not o.ok:
            bad[mode] = ("no-error", f"{'Liquid error' if o.is_liquid_error else 'non-Liquid exception'} "
                                     f"{o.error_class}: {o[2]}")
        elif not any(M.matches(w, o.value) for w in wants):
            bad[mode] = ("output", repr(o.value))
    loops = M.loops_of(p)
    feats = M.features(p)
    if res is not None:
        kept, empty = stats["kept"], stats["empty"]
        label = (f"{part}:kept={min(kept, 9)}{'+' if kept > 9 else ''}:empty_loops={min(empty, 3)}"
                 f":else={min(stats['else_rendered'], 2)}:intr={min(stats['interrupts_fired'], 2)}")
        nontrivial = bool(feats) and (kept > 0 or (stats["else_rendered"] > 0 and "wrapped" in feats))
        for mode in outs:
            res.case(nontrivial=[src, sorted(data.items(), key=lambda kv: kv[0]), mode] if nontrivial else None,
                     outcome=label + (":VIOLATION" if mode in bad else ""),
                     sample={"template": src, "data": data, "string_sequences": p["flags"]["string_sequences"],
                             "mode": mode, "output": outs[mode].value if outs[mode].ok else outs[mode].error_class}
                     if (nontrivial and len(res.samples) < 1 and len(loops) >= 1) else None)
        if stats["tablerow_empty"]:
            res.count("unspecified_excluded", stats["tablerow_empty"])
            res.count("unspecified_tablerow_over_nothing_skeleton", stats["tablerow_empty"])
        if two_readings:
            res.count("unspecified_excluded", 1)
            res.count("unspecified_string_without_string_sequences_two_readings", 1)
        res.count("programs", 1)
        res.count("loops_executed_in_model", stats["loops"])
        res.count("items_visited_in_model", stats["kept"])
        res.count("else_blocks_rendered_in_model", stats["else_rendered"])
        res.count("interrupts_fired_in_model", stats["interrupts_fired"])
        res.count("table_rows_in_model", stats["rows"])
    if not bad:
        return []
    viols = []
    tags = sorted({lp["t"] for lp in loops})
    kinds = sorted({lp["coll"]["kind"] for lp in loops})
    modes = "both" if len(bad) == len(outs) else next(iter(bad))
    first_mode = sorted(bad)[0]
    kind_of_fail, detail = bad[first_mode]
    sig: dict[str, Any] = {"part": part, "tag": "+".join(tags), "kind": "+".join(kinds), "feature": "+".join(feats) or "plain",
                           "mode": modes}
    if kind_of_fail == "no-error":
        o = outs[first_mode]
        sig["clause"] = "no-error"
        sig["exc"] = o.error_class
        if o.is_other_error:
            sig["where"] = o.where
        what = (f"{src!r} data={data!r} string_sequences={p['flags']['string_sequences']} ({modes}) -> {detail}; "
                f"reference model says {M.show(want0)!r}")
    else:
        sig["clause"] = name_clause(p, first_mode)
        what = (f"{src!r} data={data!r} string_sequences={p['flags']['string_sequences']} ({modes}) rendered "
                f"{detail}, reference model says {' or '.join(repr(M.show(w)) for w in wants)}")
    viols.append({"signature": sig, "what": what[:1500], "case": {"prog": p, "part": part}})
    return viols


# ---------------------------------------------------------------------------
class C13(Check):
    id = "C13"
    level = "exploration"
    title = "Loops visit exactly the documented items"
    rule = (
        "Every abstract loop program inside the bound is printed as Liquid source and rendered by the real engine "
        "with render() and render_async(); the normalised output must equal the reference model's (plain Python "
        "loop: from = offset (continue -> remembered stop, default 0), to = from + limit, keep from <= index < to, "
        "reversed on the kept segment, else iff nothing kept, helpers from the kept segment, tablerow rows/cols "
        "from index0 and cols). Parts: slice (kind x length x limit x offset x forms x reversed x else), interrupt "
        "(break/continue at every index and body position, single/nested/in tablerow cell), cont (2-3 loop "
        "sequences and re-executed loops sharing offset:continue), nest (depth 2-3, parentloop chains, for/tablerow "
        "mixes), tablerow (kind x length x cols x limit x offset x forms), blank (loops whose body/else write nothing, "
        "inside chains of if/unless/else/elsif/case/capture/for wrappers: else output must survive), freecols "
        "(cols = 0/negative/nil/non-numeric/...: layout-free consistency of items, <tr>/<td> numbering and helpers). "
        "One evaluation = one (program, mode). "
        "Non-trivial = the model visits >= 1 item AND the program uses at least one of limit/offset/reversed/cols/"
        "break/continue/nesting/wrapping (or renders an else block inside a wrapper); distinct = distinct (source, data, "
        "mode)."
    )
    assumptions = [
        "item values are distinct short strings / small integers; other item values behave alike for iteration",
        "bodies contain no whitespace, so whitespace emitted by tablerow itself is ignored (docs pretty-print it)",
        "string without string_sequences: docs ('can not be looped over') and reference behaviour (one item) are "
        "both accepted",
        "tablerow over nothing: only 'no cell is rendered' is required, the <tr> skeleton is unspecified",
        "offset:continue is checked only between loops with the same identifier and iterable, never after a loop "
        "with a negative offset (reference implementation and docs disagree on the remembered position), never "
        "after a loop that used break, and never across tablerow; inside a loop that breaks only index/index0/first "
        "are compared",
        "cols values other than a number of columns >= 1 (0, negative, nil, strings, floats, bools, 10**30, undefined): "
        "tag_reference.md#cols prescribes no layout, so only consistency is required: visited items once each in "
        "order, rows numbered 1.., cells numbered 1.. within their rendered row, col/col0/col_first/row equal to the "
        "rendered position, col_last of a non-final cell iff its row ends there",
        "not generated (outside the stated domain): nil/undefined/integer iterables, non-integer limits, "
        "break/continue directly inside tablerow, reversed on tablerow",
    ]

    def bounds(self, tier: str) -> dict[str, Any]:
        top = maxlen(tier)
        return {
            "lengths": f"0..{top}",
            "kinds": "array, hash, range literal, range with variable ends, assigned range, string with and "
                     "without string_sequences",
            "limit": "absent, -10**30, -3..len+3, 10**30",
            "offset": "absent, continue, 'continue', -10**30, -3..len+3, 10**30",
            "forms": "literal, variable, string literal, string variable (all 16 limit x offset pairs)",
            "cols": "absent, 1..len+1 (literal, variable)",
            "nesting": "depth 2 (lengths 0..%d) and depth 3 (lengths 0..%d)" % ((3, 2) if tier == "quick" else (5, 3)),
            "continue_sequences": "3 loops: first (offset absent/continue/0..len+1/10**30) x (limit absent/-2/0..len+1/10**30) "
                                  "x reversed; second continue x limit {absent,-1,0..len+1} x reversed, quoted continue, "
                                  "explicit offsets (incl. negative limit), other iterable; third continue x {no limit, "
                                  "limit 1 reversed}; "
                                  "plus an inner continue loop re-executed 1..3 times",
            "blank_wrappers": "chains of depth 0..2 (quick: depth 2 over if/case/capture/for; thorough: all 8 at depth 2, "
                              "4 at depth 3) x 14 loops x 8 bodies x 5 else blocks x alone / between text",
            "free_cols": "0,-1,-3,nil,'x','','2','0','-1',2.5,0.5,-1.5,true,false,10**30,-10**30,undefined x 6 slices",
            "modes": "render and render_async",
        }

    def shards(self, tier: str) -> list[Any]:
        sh: list[Any] = []
        for part in PARTS:
            groups = GROUPS[part](tier)
            k = min(SHARDS_PER_PART[part] * (1 if tier == "quick" else 3), len(groups))
            for j in range(k):
                sh.append((part, j, k))
        return sh

    def run_shard(self, shard: Any, tier: str) -> Result:
        part, j, k = shard
        res = Result()
        fresh_engine()
        groups = GROUPS[part](tier)
        for g in groups[j::k]:
            for p in cases_of(g, res):
                for v in check_prog(p, part, res):
                    res.violation(v["signature"], v["what"], v["case"])
        return res

    def replay(self, case: Any) -> list[dict[str, Any]]:
        fresh_engine()
        return check_prog(case["prog"], case.get("part", "replay"), None)


CHECK = C13()
