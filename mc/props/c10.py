"""C10 — literal text, raw blocks, comments and whitespace control.

Bounded exhaustive enumeration of abstract item sequences (text / output / tags / wrapping
blocks / raw / comment / doc / inline comment / liquid tag / shorthand ``{# #}`` comment)
with every combination of whitespace-control hyphens on every delimiter, rendered by the
real library under the default environment and under ``template_comments=True`` and
compared with the reference lexer model of ``mc/ref/c10_model.py``.
"""

from __future__ import annotations

import itertools
import re
from typing import Any
from typing import Iterator
from typing import Optional
from typing import Sequence

from mc.core import Check
from mc.core import Result
from mc.ref import c10_model as M

HY = ("", "-")
LR = [(l, r) for l in HY for r in HY]
LRLR = [(a, b, c, d) for a in HY for b in HY for c in HY for d in HY]

TEXTS = ["a", " ", "\n ", " a ", "a\n", "{", "%}", "}}", " -", "- "]
# Edge whitespace beyond space/newline: every ASCII whitespace and control separator, NEL, NBSP, en/em/thin/
# narrow/ideographic spaces, line/paragraph separators.  "All whitespace" (statement) = str.isspace().
WS_TEXTS = [
    " \t\r\n\x0b\x0c x \x0c\x0b\n\r\t ", "\x0b\x0c", "\x1c\x1d\x1e\x1f k \x1f\x1e\x1d\x1c", "\x85 j \x85",
    "\u00a0g\u00a0", " \u2003h\u2002 ", "\u3000\u65e5\u672c\u8a9e\u3000", "\u2028i\u2029", "\u00a0\u2009\u202f",
    "\u1680\u2000m\u200a\u205f", " \u00a0 n \u00a0 ",
]
assert all(t[0].isspace() and t[-1].isspace() for t in WS_TEXTS)
TEXTS_THOROUGH = TEXTS + ["\t\r\n", " a \n"] + WS_TEXTS

RAW_BODIES = [" {{ x }} ", "{% if %}", " ", "", "- x -", "\n{% comment %} {# #}\n", "\n b \n"]
COMMENT_BODIES = [" {{ x }} ", "{% if %}", " ", "", "b", "{% raw %} {{ {% endraw %}",
                  " {% comment %}n{% endcomment %} "]
DOC_BODIES = [" {{ x }} ", "{% if %}", " ", "", "b\n"]
SHORT_BODIES = [" c ", "c", " {{ x }} {% if %} "]
BODIES = {"RAW": RAW_BODIES, "COMMENT": COMMENT_BODIES, "DOC": DOC_BODIES, "SHORT": SHORT_BODIES}

ENVS = {"default": {}, "template_comments": {"template_comments": True}}

# Markup-like / unbalanced fragments used as raw / comment / doc / shorthand bodies in BOTH environments.
FRAG_BODIES = [
    " {{ ", " {{ unfinished", " {% ", " {%- unfinished ", " }} %} { % ", "{%", "{{", " {% # ", "{% liquid ",
    " {# ", " #} ", " {# c #} ", " {#- c -#} ",
    " {% doc %} ", " {% enddoc %} ", " {% comment %} ", " {% endcomment %} ", " {% raw %} ", " {% endraw %} ",
    " {% comment %}{% endcomment %} ", " {% raw %}{% endraw %} ", " {% doc %}{% enddoc %} ",
    " {% comment %} {{ {% endcomment %} ", " {{ y }} {% assign z = 1 %} ", "\n  @param {string} x - y\n",
]
FRAG_CTX: list[Optional[tuple[Any, ...]]] = [None, ("T", " a "), ("T", "\n "), ("OUT", "-", "-")]


def _ntags(body: str, name: str) -> int:
    return len(re.findall(r"\{%-?\s*" + name + r"\s*-?%\}", body))


def frag_status(kind: str, body: str, tc: bool) -> str:
    """Is the expected result of a block with this body fixed by the statement / docs?

    "model": yes - the reference model applies (raw body verbatim, comment/doc/shorthand body dropped,
             no error).
    "diff":  silent (excluded from the model and counted); the only clause applied is that enabling
             template comments changes nothing for a source without "{#" (Environment docs: with
             template_comments "anything between {# and #} is considered a comment" - nothing else).
    "skip":  outside the domain (the body contains the block's own end tag, so the source does not
             read as this item list) or silent with no applicable relation.
    """
    rest = re.sub(r"\{%.*?%\}|\{\{.*?\}\}", "", body, flags=re.DOTALL)
    if tc:
        rest = re.sub(r"\{#.*?#\}", "", rest, flags=re.DOTALL)
    unfinished = "{%" in rest or "{{" in rest or (tc and "{#" in rest)
    unbalanced = _ntags(body, "comment") != _ntags(body, "endcomment") or _ntags(body, "raw") != _ntags(body, "endraw")
    if kind == "RAW":
        # tag_reference.md raw: "Any text between raw and endraw will not be interpreted as Liquid markup"
        return "skip" if _ntags(body, "endraw") else "model"
    if kind == "SHORT":
        # "anything between {# and #}"
        return "skip" if "#}" in body else "model"
    if kind == "DOC":
        if _ntags(body, "enddoc"):
            return "skip"
        # nested doc tags / unbalanced comment or raw tags inside doc text: docs are silent
        return "diff" if (_ntags(body, "doc") or unbalanced) else "model"
    if kind == "COMMENT":
        if _ntags(body, "endcomment") > _ntags(body, "comment"):
            return "skip"
        # tag_reference.md: matching comment/raw pairs are OK, unbalanced ones are a syntax error; an
        # unfinished delimiter inside comment text is not addressed
        return "diff" if (unbalanced or unfinished) else "model"
    raise AssertionError(kind)


def T(s: str) -> tuple[Any, ...]:
    return ("T", s)


def alphabet(envname: str, texts: Sequence[str], nbodies: dict[str, int]) -> list[tuple[Any, ...]]:
    a: list[tuple[Any, ...]] = [T(s) for s in texts]
    a += [("OUT", l, r) for l, r in LR]
    for name in ("assign", "inline", "liquid"):
        a += [("TAG", name, l, r) for l, r in LR]
    a += [("WRAP", "if", *m) for m in LRLR]
    for kind in ("RAW", "COMMENT", "DOC"):
        for body in BODIES[kind][: nbodies[kind]]:
            a += [(kind, m[0], m[1], body, m[2], m[3]) for m in LRLR]
    if envname == "template_comments":
        for body in SHORT_BODIES[: nbodies["SHORT"]]:
            a += [("SHORT", l, body, r) for l, r in LR]
    return a


def small_menu(envname: str, size: str) -> list[tuple[Any, ...]]:
    """Reduced instance menus for the longest sequences (asymmetric markers on every kind).
    The menus of size 12, 16, 24 and 40 are prefixes of one list."""
    b = " {{ x }} "
    m: list[tuple[Any, ...]] = [
        # 12
        T(" a "), T(" "), T("a\n"), ("OUT", "", ""), ("OUT", "-", "-"),
        ("TAG", "assign", "-", ""), ("TAG", "inline", "", "-"),
        ("WRAP", "if", "", "-", "-", ""),
        ("RAW", "", "-", b, "", ""), ("RAW", "", "", b, "", "-"),
        ("COMMENT", "", "-", b, "-", ""), ("DOC", "-", "", b, "", "-"),
        # 16
        ("TAG", "liquid", "-", "-"), ("RAW", "-", "", b, "-", ""),
        ("COMMENT", "-", "", b, "", "-"), ("DOC", "", "-", b, "", ""),
        # 24
        T("\n "), T("%}"), ("OUT", "-", ""), ("OUT", "", "-"), ("TAG", "assign", "", "-"),
        ("WRAP", "if", "-", "", "", "-"), ("RAW", "-", "-", b, "-", "-"), ("COMMENT", "", "", " ", "", ""),
        # 40
        T("{"), T("- "), T(" -"), ("TAG", "inline", "-", ""), ("TAG", "liquid", "", ""),
        ("WRAP", "if", "", "", "", ""), ("WRAP", "if", "-", "-", "-", "-"),
        ("RAW", "", "", " ", "", ""), ("RAW", "", "-", "", "-", ""),
        ("COMMENT", "-", "-", "b", "-", "-"), ("DOC", "", "", " ", "", ""), ("DOC", "-", "-", b, "-", "-"),
        ("TAG", "assign", "-", "-"), ("TAG", "assign", "", ""), ("COMMENT", "", "", b, "", "-"),
        ("DOC", "", "", b, "-", ""),
    ]
    assert len(m) == 40
    m = m[: int(size)]
    if envname == "template_comments":
        m += [("SHORT", "-", " c ", ""), ("SHORT", "", " c ", "-")]
        if size == "40":
            m += [("SHORT", "", " c ", ""), ("SHORT", "-", "c", "-")]
    return m


CTX: list[Optional[tuple[Any, ...]]] = [None] + [T(s) for s in TEXTS] + [("OUT", "", ""), ("OUT", "-", "-")]
CTX_SMALL: list[Optional[tuple[Any, ...]]] = [None, T(" a "), T(" "), T("\n "), ("OUT", "", "")]


def tier_conf(tier: str) -> dict[str, Any]:
    if tier == "quick":
        return {"texts": TEXTS, "nbodies": {"RAW": 1, "COMMENT": 1, "DOC": 1, "SHORT": 1},
                "full_len": 3, "extra": [("24", 4)]}
    return {"texts": TEXTS_THOROUGH, "nbodies": {"RAW": 3, "COMMENT": 3, "DOC": 2, "SHORT": 2},
            "full_len": 3, "extra": [("40", 4), ("12", 5)]}


# ---------------------------------------------------------------------------
# case generators per shard
# ---------------------------------------------------------------------------
def gen_cases(shard: Any, tier: str) -> Iterator[list[Any]]:
    part, envname = shard[0], shard[1]
    conf = tier_conf(tier)
    if part == "seq":
        _, _, length, prefix = shard
        alpha = alphabet(envname, conf["texts"], conf["nbodies"])
        pre = [alpha[i] for i in prefix]
        for rest in itertools.product(alpha, repeat=length - len(prefix)):
            yield pre + list(rest)
    elif part == "menu":
        _, _, size, length, i0 = shard
        menu = small_menu(envname, size)
        for rest in itertools.product(menu, repeat=length - 1):
            yield [menu[i0], *rest]
    elif part == "bodies":
        _, _, kind = shard
        if kind == "SHORT":
            blocks = [("SHORT", l, body, r) for body in SHORT_BODIES for l, r in LR]
        else:
            blocks = [(kind, m[0], m[1], body, m[2], m[3]) for body in BODIES[kind] for m in LRLR]
        for blk in blocks:
            for before in CTX:
                for after in CTX:
                    yield [x for x in (before, blk, after) if x is not None]
    elif part == "kinds":
        _, _, name = shard
        if name in M.SINGLE:
            for l, r in LR:
                for before in CTX:
                    for after in CTX:
                        yield [x for x in (before, ("TAG", name, l, r), after) if x is not None]
        else:
            inner_ctx = [None] + [T(s) for s in TEXTS] + [("OUT", "", "")]
            for m in LRLR:
                for before in CTX_SMALL:
                    for inner in inner_ctx:
                        for after in CTX_SMALL:
                            if inner is None:
                                # WRAP encloses the next item: to enclose nothing it must be last
                                if after is None:
                                    yield [x for x in (before, ("WRAP", name, *m)) if x is not None]
                                continue
                            yield [x for x in (before, ("WRAP", name, *m), inner, after) if x is not None]
    elif part == "frag":
        _, _, kind = shard
        for body in FRAG_BODIES:
            if kind == "SHORT":
                blocks = [("SHORT", l, body, r) for l, r in LR]
            else:
                blocks = [(kind, m[0], m[1], body, m[2], m[3]) for m in LRLR]
            for blk in blocks:
                for before in FRAG_CTX:
                    for after in FRAG_CTX:
                        yield [x for x in (before, blk, after) if x is not None]
    elif part == "ws":
        # texts with non-trivial whitespace characters: all sequences of length <= 2 that contain one, and
        # every markup / text / markup sandwich over the markup items of the 40-instance menu
        _, _, shape = shard
        ws = [T(t) for t in WS_TEXTS]
        if shape == "seq2":
            alpha = alphabet(envname, conf["texts"], conf["nbodies"])
            for w in ws:
                yield [w]
                for other in alpha + ws:
                    yield [w, other]
                for other in alpha:
                    yield [other, w]
        else:
            markup = [m for m in small_menu(envname, "40") if m[0] != "T"]
            for a in markup:
                for w in ws:
                    for b in markup:
                        yield [a, w, b]
    elif part == "littext":
        # with template comments off, "{# ... #}" is ordinary text
        frags = ["{# c #}", " {#- c -#} ", "#}", "{#"]
        ctx: list[Optional[tuple[Any, ...]]] = [None] + [("OUT", l, r) for l, r in LR] + [
            ("TAG", "assign", l, r) for l, r in LR]
        for f in frags:
            for before in ctx:
                for after in ctx:
                    yield [x for x in (before, T(f), after) if x is not None]
    else:
        raise AssertionError(shard)


_ENV_CACHE: dict[str, Any] = {}


def get_env(envname: str) -> Any:
    env = _ENV_CACHE.get(envname)
    if env is None:
        from mc.util import make_env

        env = make_env(**ENVS[envname])
        _ENV_CACHE[envname] = env
    return env


def real_render(env: Any, src: str) -> tuple[str, Any]:
    try:
        return "ok", env.from_string(src).render()
    except Exception as e:  # noqa: BLE001  the outcome is what is compared
        return "err", type(e).__name__


def kinds_of(lex: Sequence[M.Lex]) -> list[str]:
    return sorted({e.kind for e in lex})


def diagnose(env: Any, envname: str, lex: Sequence[M.Lex], seq: Sequence[Any], got: str,
             exp: set[str]) -> list[tuple[dict[str, Any], str]]:
    """Attribute a mismatch to individual strip decisions (signatures only; not the verdict)."""
    out: list[tuple[dict[str, Any], str]] = []
    vsrc, vseq = M.instrumented(lex)
    st, vgot = real_render(env, vsrc)
    overrides: dict[tuple[int, str], bool] = {}
    if st == "ok":
        dec = M.decode_instrumented(vseq, vgot)
        if dec is not None:
            runs = {x.pos: x for x in seq if isinstance(x, M.Run)}
            for (pos, side), stripped in sorted(dec.items()):
                run = runs[pos]
                want = run.ls if side == "l" else run.rs
                if stripped == want:
                    continue
                overrides[(pos, side)] = stripped
                nb = run.left if side == "l" else run.right
                sig = {
                    "clause": "lstrip-after-closing-delimiter" if side == "l" else "rstrip-before-opening-delimiter",
                    "expected": "strip" if want else "keep", "got": "strip" if stripped else "keep",
                    "env": envname,
                }
                sig.update(M.describe_neighbour(nb, side))
                out.append((sig, f"text {run.text!r} {'after' if side == 'l' else 'before'} "
                                 f"{nb.src if nb is not None else 'template edge'!r}: whitespace "
                                 f"{'removed' if stripped else 'kept'}, statement says "
                                 f"{'removed' if want else 'kept'}"))
    exp2, _ = M.expected(seq, overrides)
    if overrides and got in exp2:
        return out
    exp3, _ = M.expected(seq, overrides, drop_final_newline=True)
    if got in exp3 and isinstance(seq[-1], M.Run):
        sig = {"clause": "verbatim-text", "feature": "final-newline-dropped", "env": envname}
        sig.update(M.describe_neighbour(seq[-1].left, "l"))
        sig.pop("got_follows", None)
        sig["closing_hyphen"] = "-" if seq[-1].ls else ""
        out.append((sig, f"the newline that ends the template (text {seq[-1].text!r}) is missing from the output"))
        return out
    # a stripped edge that kept some of its whitespace characters?
    runs_l = [x for x in seq if isinstance(x, M.Run) and (x.ls or x.rs)]
    if 0 < len(runs_l) <= 3:
        tables = {x.pos: M.partial_strip_alts(x) for x in runs_l}
        for combo in itertools.product(*[list(tables[x.pos]) for x in runs_l]):
            exp4, _ = M.expected(seq, text_alts={x.pos: {c} for x, c in zip(runs_l, combo)})
            if got in exp4:
                kept = "".join(a + b for x, c in zip(runs_l, combo) for a, b in [tables[x.pos][c]])
                cls = sorted({"ascii" if ch in " \t\r\n\x0b\x0c" else "ascii-separator" if ord(ch) < 0x80
                              else "non-ascii" for ch in kept})
                out.append(({"clause": "strip-all-whitespace", "feature": "whitespace-left-at-stripped-edge",
                             "kept_class": cls, "env": envname},
                            f"whitespace {kept!r} survives at an edge that faces a hyphenated delimiter"))
                return out
    out.append(({"clause": "output", "feature": "undiagnosed", "env": envname, "kinds": kinds_of(lex)},
                "output differs from every acceptable output of the model"))
    return out


def check_case(env: Any, envname: str, items: Sequence[Any], res: Optional[Result]) -> list[dict[str, Any]]:
    """Run one case; record into ``res`` (if given); return violation dicts."""
    tc = envname == "template_comments"
    lex = M.flatten(items)
    seq = M.merge(lex)
    if not M.in_domain(seq, tc):
        if res is not None:
            res.count("ambiguous_source_excluded")
        return []
    src = M.source(lex)
    exp, info = M.expected(seq)
    st, got = real_render(env, src)
    case = {"env": envname, "items": [list(i) for i in items], "source": src}
    viols: list[dict[str, Any]] = []
    if st == "err":
        viols.append({"signature": {"clause": "no-error", "exc": got, "env": envname, "kinds": kinds_of(lex)},
                      "what": f"{src!r} ({envname}) raised {got}; model output {sorted(exp)!r}", "case": case})
    elif got not in exp:
        for sig, why in diagnose(env, envname, lex, seq, got, exp):
            viols.append({"signature": sig,
                          "what": f"{src!r} ({envname}) -> {got!r}, model accepts {sorted(exp)!r}: {why}",
                          "case": case})
    if res is not None:
        la, lw, ra, rw = M.observable_decisions(seq)
        special = any(e.kind in ("raw", "comment", "doc", "short", "inline", "liquid") for e in lex)
        nontrivial = f"{envname}|{src}" if (la + lw + ra + rw) else None
        label = ("viol" if viols else "ok") + f":L{min(la, 2)}l{min(lw, 2)}R{min(ra, 2)}r{min(rw, 2)}"
        if info["raw_inner_either"]:
            label += ":rawalt"
            res.count("raw_inner_hyphen_either_accepted")
        if info["blank_block_either"]:
            label += ":blankalt"
            res.count("blank_block_either_accepted")
        res.case(nontrivial=nontrivial, outcome=label,
                 sample={"env": envname, "source": src, "output": got} if (la and ra and special) else None)
        for v in viols:
            res.violation(v["signature"], v["what"], v["case"])
    return viols


def check_diff(items: Sequence[Any], res: Optional[Result]) -> list[dict[str, Any]]:
    """Cell not fixed by statement/docs: only require that template_comments=True changes nothing
    for a source that contains no "{#"."""
    lex = M.flatten(items)
    src = M.source(lex)
    if "{#" in src or not M.in_domain(M.merge(lex), True):
        if res is not None:
            res.count("unspecified_excluded")
            res.count("unspecified_body_no_relation_applicable")
        return []
    a = real_render(get_env("default"), src)
    b = real_render(get_env("template_comments"), src)
    viols: list[dict[str, Any]] = []
    if a != b:
        blk = next(i for i in items if i[0] in M.BLOCKS)
        viols.append({
            "signature": {"clause": "template-comments-only-affect-shorthand-comments", "kind": blk[0].lower(),
                          "default": a[1] if a[0] == "err" else "ok",
                          "template_comments": b[1] if b[0] == "err" else "ok"},
            "what": f"{src!r} contains no '{{#' but default -> {a[1]!r} and template_comments=True -> {b[1]!r}",
            "case": {"mode": "diff", "env": "both", "items": [list(i) for i in items], "source": src}})
    if res is not None:
        res.count("unspecified_excluded")
        res.count("unspecified_body_cross_env_only")
        res.case(nontrivial=f"diff|{src}", outcome=("viol" if viols else "ok") + ":diff:" + (a[1] if a[0] == "err" else "ok"))
        for v in viols:
            res.violation(v["signature"], v["what"], v["case"])
    return viols


def run_frag(envname: str, items: Sequence[Any], res: Optional[Result]) -> list[dict[str, Any]]:
    blk = next(i for i in items if i[0] in M.BLOCKS or i[0] == "SHORT")
    body = blk[2] if blk[0] == "SHORT" else blk[3]
    status = frag_status(blk[0], body, envname == "template_comments")
    if status == "model":
        return check_case(get_env(envname), envname, items, res)
    if status == "diff":
        if envname == "default":  # one comparison per source
            return check_diff(items, res)
        if frag_status(blk[0], body, False) != "diff" and res is not None:
            # only silent because of an unfinished "{#": no relation applies
            res.count("unspecified_excluded")
            res.count("unspecified_body_no_relation_applicable")
        return []
    if res is not None:
        res.count("body_contains_own_end_tag_excluded")
    return []


class C10(Check):
    id = "C10"
    level = "exploration"
    rule = (
        "Every sequence of abstract items up to the stated length over the stated alphabet, with the full "
        "product of '-' markers on every delimiter, is printed to source, rendered by the real library "
        "(default environment and template_comments=True) and compared with the reference lexer model "
        "(text run lstripped iff nearest markup to the left ends with '-', rstripped iff nearest markup "
        "to the right starts with '-'; raw body verbatim; comment/doc/inline/shorthand comments contribute "
        "nothing). Non-trivial = at least one observable strip decision (a text run with whitespace on an "
        "edge that faces a markup item, so that strip vs. keep changes the output); identity = "
        "(environment, source). Sources whose text would itself form a start delimiter ('{' + '{{', '{' + "
        "'%}' ...) are outside the domain and counted as ambiguous_source_excluded."
    )
    assumptions = [
        "'all whitespace' (statement; docs/syntax.md only says 'whitespace') is read as every character for which "
        "str.isspace() is true, i.e. what str.strip() removes: ASCII space/tab/CR/LF/VT/FF, the separators "
        "U+001C..1F, NEL, NBSP, U+1680, U+2000..200A, U+2028/2029, U+202F, U+205F, U+3000 are all enumerated at "
        "text edges next to controlled delimiters",
        "raw's inner hyphens (raw -%} / {%- endraw) may or may not trim the raw body (statement is silent): both accepted",
        "a control-flow block whose content renders to whitespace only may render it or nothing "
        "(suppress_blank_control_flow_blocks is documented default behaviour): both accepted",
        "output value 'v', tag outputs 'w': values themselves are not the subject of this property",
        "block bodies: raw - any text without an endraw tag; shorthand - any text without '#}'; doc - any text "
        "without doc/enddoc tags and with balanced comment/raw tags; comment - finished delimiters and balanced "
        "comment/raw tags. Other bodies (nested doc, unbalanced comment/raw inside doc, unfinished delimiters or "
        "unbalanced tags inside comment) are not fixed by statement/docs: they are only required to behave the "
        "same with template_comments on and off when the source has no '{#'",
    ]

    def bounds(self, tier: str) -> dict[str, Any]:
        conf = tier_conf(tier)
        sizes = {e: len(alphabet(e, conf["texts"], conf["nbodies"])) for e in ENVS}
        return {
            "full_sequences": f"all sequences of length <= {conf['full_len']} over the main alphabet "
                              f"({sizes} instances: {len(conf['texts'])} texts, OUT x4, assign/inline/liquid x4, "
                              f"if-wrap x16, raw/comment/doc x16 per body, shorthand x4 per body)",
            "bodies_per_kind_in_main_alphabet": conf["nbodies"],
            "longer_sequences": [f"length {n} over the {s}-instance menu (+shorthand comments when enabled)"
                                 for s, n in conf["extra"]],
            "bodies_sweep": "raw/comment/doc/shorthand: 16 (4) marker combinations x every body x 13x13 contexts",
            "fragment_bodies": f"raw/comment/doc (both environments) and shorthand comments: {len(FRAG_BODIES)} markup-like / "
                               "unbalanced bodies ('{{', '{%', '{#', '#}', lone and paired doc/comment/raw tags, ...) x "
                               "16 (4) marker combinations x 4x4 contexts; cells the statement/docs do not fix are "
                               "excluded from the model, counted, and only compared across the two environments",
            "whitespace_characters": f"{len(WS_TEXTS)} texts whose edges carry ASCII-control and non-ASCII whitespace: all "
                                     "sequences of length <= 2 containing one (over the main alphabet) and every "
                                     "markup/text/markup sandwich over the markup items of the 40-instance menu"
                                     + ("; also part of the main alphabet" if tier != "quick" else ""),
            "tag_kinds_sweep": "assign, inline(+multi-line), liquid(+multi-line), echo, cycle x 4 markers x 13x13 "
                               "contexts; if/unless/for wraps x 16 markers x 12 inner x 5x5 contexts",
            "environments": list(ENVS),
        }

    def shards(self, tier: str) -> list[Any]:
        conf = tier_conf(tier)
        sh: list[Any] = []
        for envname in ENVS:
            n = len(alphabet(envname, conf["texts"], conf["nbodies"]))
            for length in range(1, conf["full_len"] + 1):
                if length <= 2:
                    sh.append(("seq", envname, length, ()))
                else:
                    sh += [("seq", envname, length, (i,)) for i in range(n)]
            for size, length in conf["extra"]:
                sh += [("menu", envname, size, length, i) for i in range(len(small_menu(envname, size)))]
            for kind in ("RAW", "COMMENT", "DOC") + (("SHORT",) if envname == "template_comments" else ()):
                sh.append(("bodies", envname, kind))
            for name in list(M.SINGLE) + list(M.WRAPS):
                sh.append(("kinds", envname, name))
            for kind in ("RAW", "COMMENT", "DOC") + (("SHORT",) if envname == "template_comments" else ()):
                sh.append(("frag", envname, kind))
            sh += [("ws", envname, "seq2"), ("ws", envname, "sandwich")]
        sh.append(("littext", "default"))
        return sh

    def run_shard(self, shard: Any, tier: str) -> Result:
        from mc.util import reset_memo

        reset_memo()
        res = Result()
        envname = shard[1]
        env = get_env(envname)
        for items in gen_cases(shard, tier):
            if shard[0] == "frag":
                run_frag(envname, items, res)
            else:
                check_case(env, envname, items, res)
        return res

    def replay(self, case: Any) -> list[dict[str, Any]]:
        from mc.util import reset_memo

        reset_memo()
        envname = case["env"]
        items = [tuple(i) for i in case["items"]]
        if case.get("mode") == "diff":
            return check_diff(items, None)
        return check_case(get_env(envname), envname, items, None)


CHECK = C10()
